"""Symbol-table observers (C31, C32, C37): structural checks that hold for ANY final output of wild,
projections of .symtab/.dynsym/.gnu.version* onto the vocabulary of SymTabs.tla / VersionScript.tla.

check_symtab_structure(elf) is deliberately self-contained so that other checks can call it on any
output they produce:

    from vlib import symobs
    for p in symobs.check_symtab_structure(Elf(path)):      # [] when everything is fine
        ctx.verdict.report("symtab-structure:" + p.key, p.text, ...)
"""
import struct

from .elf import SHF_ALLOC, SHF_TLS, SHN_ABS, SHN_COMMON, SHN_UNDEF, SHN_XINDEX, STB, STT, STV, Elf  # noqa: F401

# Symbols a linker defines itself; their value may legitimately lie outside the section they are
# attached to (e.g. __ehdr_start is attached to the first section but points at the ELF header).
LINKER_DEFINED = {
    "__ehdr_start", "__executable_start", "_GLOBAL_OFFSET_TABLE_", "_DYNAMIC", "__dso_handle",
    "_TLS_MODULE_BASE_", "__global_pointer$", "_PROCEDURE_LINKAGE_TABLE_", "__GNU_EH_FRAME_HDR",
    "_end", "end", "__end", "_edata", "edata", "__edata", "_etext", "etext", "__etext", "__bss_start",
    "__bss_start__", "__bss_end__", "_bss_end__", "__preinit_array_start", "__preinit_array_end",
    "__init_array_start", "__init_array_end", "__fini_array_start", "__fini_array_end",
    "__rela_iplt_start", "__rela_iplt_end", "__rel_iplt_start", "__rel_iplt_end", "__tls_get_addr",
}


class Problem:
    def __init__(self, key, text):
        self.key, self.text = key, text

    def __repr__(self):
        return f"{self.key}: {self.text}"


def _is_linker_defined(name):
    return name in LINKER_DEFINED or name.startswith("__start_") or name.startswith("__stop_")


def _table_order_problems(e, sec, syms, label):
    """locals before globals, sh_info = index of the first non-local symbol, entry 0 null."""
    out = []
    if not syms:
        return out
    s0 = syms[0]
    raw0 = e.section_data(sec)[:24]
    if raw0 != b"\0" * 24:
        out.append(Problem(f"{label}-entry0-not-null", f"{label}[0] is not the null symbol: {s0}"))
    info = sec["info"]
    n = len(syms)
    if info > n or info < 1:
        out.append(Problem(f"{label}-sh_info-out-of-range", f"{label}: sh_info={info} with {n} symbols"))
        return out
    first_nonlocal = next((s["index"] for s in syms if s["bind"] != 0), n)
    last_local = max((s["index"] for s in syms if s["bind"] == 0), default=0)
    if last_local > first_nonlocal:
        bad = syms[last_local]
        out.append(Problem(f"{label}-local-after-global",
                           f"{label}: local symbol #{last_local} '{bad['name']}' follows global #{first_nonlocal} "
                           f"'{syms[first_nonlocal]['name']}'"))
    if info != first_nonlocal:
        out.append(Problem(f"{label}-sh_info-wrong",
                           f"{label}: sh_info={info} but the first non-local symbol is #{first_nonlocal} (of {n})"))
    if sec["entsize"] != 24:
        out.append(Problem(f"{label}-entsize", f"{label}: sh_entsize={sec['entsize']}"))
    if sec["size"] % 24:
        out.append(Problem(f"{label}-size", f"{label}: sh_size={sec['size']} is not a multiple of 24"))
    return out


def _value_problems(e, syms, label):
    out = []
    shnum = len(e.sections)
    rel = e.e_type == 1
    tls = [p for p in e.segments if p["type"] == 7]
    for s in syms[1:]:
        shndx = s["shndx"]
        if shndx in (SHN_UNDEF, SHN_ABS, SHN_COMMON):
            continue
        if shndx == SHN_XINDEX:
            continue  # would need SHT_SYMTAB_SHNDX; not produced for the small outputs checked here
        if shndx >= shnum:
            out.append(Problem(f"{label}-shndx-invalid",
                               f"{label}: symbol '{s['name']}' has st_shndx={shndx} but there are {shnum} sections"))
            continue
        sec = e.sections[shndx]
        if sec["type"] == 0:
            out.append(Problem(f"{label}-shndx-null-section", f"{label}: symbol '{s['name']}' refers to a NULL section {shndx}"))
            continue
        if s["type"] in (3, 4):      # SECTION, FILE
            continue
        if _is_linker_defined(s["name"]):
            continue
        v = s["value"]
        if rel:
            lo, hi = 0, sec["size"]
        elif s["type"] == 6 or (sec["flags"] & SHF_TLS):       # TLS: value is an offset into the TLS template
            if s["type"] != 6:
                lo, hi = sec["addr"], sec["addr"] + sec["size"]
            elif tls:
                lo, hi = sec["addr"] - tls[0]["vaddr"], sec["addr"] - tls[0]["vaddr"] + sec["size"]
            else:
                continue
        elif not (sec["flags"] & SHF_ALLOC):
            continue
        else:
            lo, hi = sec["addr"], sec["addr"] + sec["size"]
        if not (lo <= v <= hi):
            out.append(Problem(f"{label}-value-outside-section",
                               f"{label}: symbol '{s['name']}' value {v:#x} outside its section "
                               f"{sec['name']} [{lo:#x},{hi:#x}]"))
    return out


def check_symtab_structure(e):
    """Structural facts of C31 that every final output must satisfy. Returns [Problem]."""
    out = []
    symsec = e.section_of_type(2)
    dynsec = e.section_of_type(11)
    if symsec is not None:
        syms = e.symtab
        out += _table_order_problems(e, symsec, syms, "symtab")
        out += _value_problems(e, syms, "symtab")
        # each retained global definition once
        seen = {}
        versioned = "@" in "".join(s["name"] for s in syms)
        multi = set()
        if dynsec is not None:
            cnt = {}
            for s in e.dynsym:
                if s["shndx"] != SHN_UNDEF:
                    cnt[s["name"]] = cnt.get(s["name"], 0) + 1
            multi = {n for n, c in cnt.items() if c > 1}     # several versions of one name
        for s in syms[1:]:
            if s["bind"] == 0 or s["shndx"] == SHN_UNDEF or not s["name"]:
                continue
            if s["name"] in multi or versioned and "@" in s["name"]:
                continue
            if s["name"] in seen:
                out.append(Problem("symtab-duplicate-global",
                                   f"symtab: global definition '{s['name']}' appears at #{seen[s['name']]} and #{s['index']}"))
            else:
                seen[s["name"]] = s["index"]
        strsec = e.sections[symsec["link"]] if symsec["link"] < len(e.sections) else None
        if strsec is None or strsec["type"] != 3:
            out.append(Problem("symtab-link", "symtab: sh_link is not a string table"))
    if dynsec is not None:
        dsyms = e.dynsym
        out += _table_order_problems(e, dynsec, dsyms, "dynsym")
        out += _value_problems(e, dsyms, "dynsym")
        strsec = e.sections[dynsec["link"]] if dynsec["link"] < len(e.sections) else None
        if strsec is None or strsec["type"] != 3:
            out.append(Problem("dynsym-link", "dynsym: sh_link is not a string table"))
        vs = e.versym()
        if vs and len(vs) != len(dsyms):
            out.append(Problem("versym-count", f".gnu.version has {len(vs)} entries for {len(dsyms)} dynamic symbols"))
    return out


# ---------------------------------------------------------------------------------------------
# Projections


def sym_record(e, s):
    sec = e.sections[s["shndx"]] if 0 < s["shndx"] < len(e.sections) else None
    return dict(name=s["name"], bind=STB.get(s["bind"], str(s["bind"])), type=STT.get(s["type"], str(s["type"])),
                vis=STV.get(s["vis"], str(s["vis"])), size=s["size"], value=s["value"],
                defined=s["shndx"] != SHN_UNDEF, shndx=s["shndx"], section=sec["name"] if sec else None,
                index=s["index"])


def table(e, dynamic=False):
    """name -> [records] for .dynsym / .symtab (entry 0 and unnamed symbols skipped)."""
    out = {}
    for s in (e.dynsym if dynamic else e.symtab)[1:]:
        if not s["name"]:
            continue
        out.setdefault(s["name"], []).append(sym_record(e, s))
    return out


def dynsym_versions(e):
    """[(name, defined, versym & 0x7fff, hidden-bit)] for every dynamic symbol after the null one."""
    vs = e.versym()
    out = []
    for s in e.dynsym[1:]:
        v = vs[s["index"]] if s["index"] < len(vs) else None
        out.append((s["name"], s["shndx"] != SHN_UNDEF, None if v is None else v & 0x7fff,
                    None if v is None else bool(v & 0x8000)))
    return out


def verdef_raw(e):
    """Raw walk of .gnu.version_d keeping the chain structure (offsets, aux lists)."""
    sec = e.section_of_type(0x6ffffffd)
    if sec is None:
        return None
    d = e.section_data(sec)
    strtab = e.section_data(e.sections[sec["link"]])
    from .elf import cstr
    out, o, guard = [], 0, 0
    while o + 20 <= len(d) and guard < 1000:
        guard += 1
        ver, flags, ndx, cnt, h, aux, nxt = struct.unpack_from("<HHHHIII", d, o)
        names, a, complete = [], o + aux, True
        for k in range(cnt):
            if a + 8 > len(d):
                complete = False
                break
            nm, anext = struct.unpack_from("<II", d, a)
            names.append(cstr(strtab, nm))
            if anext == 0:
                if k != cnt - 1:
                    complete = False
                break
            a += anext
        out.append(dict(version=ver, flags=flags, ndx=ndx, cnt=cnt, hash=h, names=names, chain_ok=complete))
        if nxt == 0:
            break
        o += nxt
    return dict(info=sec["info"], entries=out, link_is_dynstr=e.sections[sec["link"]]["name"] == ".dynstr")


def _codes(s):
    return list(s.encode("latin-1"))


def version_observation(e, ident):
    """Projection of the version tables of an output onto the record VersionTables.tla talks about."""
    def clip(v):
        return v if 0 <= v < 2 ** 31 else -1
    vd = verdef_raw(e)
    verdef = []
    if vd:
        for x in vd["entries"]:
            verdef.append(dict(ndx=x["ndx"], flags=x["flags"], cnt=x["cnt"], hash=clip(x["hash"]), version=x["version"],
                               names=[_codes(n) for n in x["names"]], chain_ok=bool(x["chain_ok"])))
    needed = set(e.needed)
    verneed = []
    for vn in e.verneeds():
        verneed.append(dict(file=_codes(vn["file"]), in_needed=vn["file"] in needed,
                            aux=[dict(name=_codes(a["name"]), hash=clip(a["hash"]), other=a["other"] & 0x7fff, flags=a["flags"])
                                 for a in vn["aux"]]))
    vs = e.versym()
    dyn = e.dynsym
    versym = []
    for s in dyn[1:]:
        if s["index"] < len(vs):
            v = vs[s["index"]]
            versym.append(dict(v=v & 0x7fff, hidden=bool(v & 0x8000), defined=s["shndx"] != SHN_UNDEF))
    dt = dict(e.dynamic)
    return dict(id=ident, verdef=verdef, verneed=verneed, versym=versym,
                verdef_info=vd["info"] if vd else -1,
                verdefnum=dt.get(0x6ffffffd, -1), verneednum=dt.get(0x6fffffff, -1),
                versym0=(vs[0] if vs else 0), nversym=len(vs) if vs else -1, ndynsym=len(dyn))
