"""SymRes binding (C02 / C03 / C33): turn a SymRes.tla REPLAY record into real linker inputs, link it
with wild / GNU ld / ld.lld and project the result onto the spec's vocabulary.

Record vocabulary (see specs/SymRes.tla, `ReplayRec`):
  files : [ {kind: obj|member|wmember|shared|asneeded, syms: {name: {def, vis}}} ... ]   (command-line order)
          def in none|undef|weakundef|weak|strong|common4|common8|unique ; vis in default|protected|hidden
  opts  : {allowMultiple: bool, wrap: [names], undef: [names]}
  expect: {error: none|duplicate|undefined, loaded: [1-based file indexes], bind: {"<file>:<name>": target}}
          target: "d<file>:<name>" (the definition in that file), "common<size>", "dyn", "zero"

Observation (independent of the linker under test: only output bytes are read with vlib/elf.py):
  * every regular input file carries a file marker  -> loaded set
  * every definition is immediately preceded... is an 8-byte identity word 0x1d000000 00000000 + id placed AT the symbol
  * every file has a reference table (marker + one `.quad name` per referenced name) in a writable
    section; in a non-PIE executable the quad is either a link-time address (followed to the
    identity word / to .bss for commons / 0 for an undefined weak) or the target of a dynamic
    relocation naming the symbol (bound to a shared object).
"""
import hashlib
import re
import shutil
import struct
from pathlib import Path

from . import elf as velf
from .asm import archive, marker
from .common import ToolError, run_wild, sh

ID_BASE = 0x1D00000000
R_X86_64_64, R_X86_64_COPY, R_X86_64_GLOB_DAT = 1, 5, 6

DEFS_DEFINED = ("weak", "strong", "common4", "common8", "common16", "unique")


def def_id(fi, ni):
    """identity of the definition of name #ni (0-based) in file #fi (1-based)."""
    return fi * 16 + ni + 1


def _pad8(s):
    n = len(s)
    return s + "." * ((8 - n % 8) % 8)


def fmark(fi):
    return _pad8(marker(f"f{fi}"))


def rmark(fi):
    return _pad8(marker(f"r{fi}"))


def all_names(cfg):
    names = []
    for f in cfg["files"]:
        for n in f["syms"]:
            if n not in names:
                names.append(n)
    return sorted(names)


def filler_asm(fi, n_local, n_global):
    """n_local local + n_global global filler symbols (1 byte each) in their own section."""
    out = ['.section .data.vfill,"aw",@progbits']
    for k in range(n_global):
        out.append(f".globl Gf{fi}_{k}\nGf{fi}_{k}: .byte 0")
    for k in range(n_local):
        out.append(f"Lf{fi}_{k}: .byte 0")
    return out


def first_strong_ref(cfg, fi, names):
    """The reference to pad in file fi: opts.pad_name if the file references it non-weakly, else none."""
    f = cfg["files"][fi - 1]
    want = cfg.get("opts", {}).get("pad_name")
    for n in names:
        if f["syms"].get(n, {}).get("def") == "undef" and (want is None or n == want):
            return n
    return None


def symbol_index(obj_path, name):
    for s in velf.Elf(obj_path).symtab:
        if s["name"] == name:
            return s["index"]
    return None


def file_asm(cfg, fi, names, fill=(0, 0)):
    """Assembly text for file #fi (1-based). fill = (locals, globals) filler symbols placed BEFORE the file's
    first non-weak undefined reference in the symbol table (scaled replay, see SymRes.tla / c03.py)."""
    f = cfg["files"][fi - 1]
    out = ['.section .data.vmark,"aw",@progbits', f'.ascii "{fmark(fi)}"']
    defs, refs = [], []
    for ni, n in enumerate(names):
        s = f["syms"].get(n)
        if not s or s["def"] == "none":
            continue
        d, vis = s["def"], s.get("vis", "default")
        visline = {"default": "", "hidden": f".hidden {n}", "protected": f".protected {n}"}[vis]
        ident = ID_BASE + def_id(fi, ni)
        if d in ("weak", "strong", "unique"):
            defs += [f'.section .data.d_{n},"aw",@progbits', ".balign 8"]
            if d == "weak":
                defs.append(f".weak {n}")
            else:
                defs.append(f".globl {n}")
            defs.append(f".type {n},%gnu_unique_object" if d == "unique" else f".type {n},@object")
            if visline:
                defs.append(visline)
            defs += [f"{n}:", f"    .quad {ident:#x}", f".size {n}, 8"]
        elif d.startswith("common"):
            sz = int(d[6:])
            defs.append(f".comm {n},{sz},{sz}")
            if visline:
                defs.append(visline)
        elif d == "undef":
            defs.append(f".globl {n}")
            if visline:
                defs.append(visline)
        elif d == "weakundef":
            defs.append(f".weak {n}")
            if visline:
                defs.append(visline)
        else:
            raise ToolError(f"def kind {d}")
        refs.append(n)
    if fill != (0, 0):
        # globals are numbered in order of first appearance: the fillers must come before every name
        out += filler_asm(fi, fill[0], fill[1])
    out += defs
    out += ['.section .data.vrefs,"aw",@progbits', ".balign 8", f'.ascii "{rmark(fi)}"']
    for n in refs:
        out.append(f"    .quad {n}")
    out.append("    .quad 0x1dffffffffffffff")
    return "\n".join(out) + "\n"


START_ASM = """.section .text._start,"ax",@progbits
.globl _start
.type _start,@function
_start:
    mov $60, %eax
    xor %edi, %edi
    syscall
"""

_obj_cache = {}


def _assemble(text, path):
    sh(["as", "--64", "-o", path, "-"], stdin=text.encode(), timeout=60, check=True)


def _ar(d, name, members, thin):
    """ar with relative member names (a thin archive records the path it was given: keep replays relocatable)."""
    p = Path(d) / name
    if p.exists():
        p.unlink()
    sh(["ar", "rcT" if thin else "rc", name] + list(members), cwd=d, timeout=120, check=True)


def emit(cfg, d, variant=0):
    """Create the inputs of cfg in directory d. Returns the list of link-line tokens (relative to d)
    common to all three linkers (without -o / linker-specific flags).
    variant bit0: thin archives; bit1: group adjacent plain members into one archive;
    bit2: use --start-lib/--end-lib instead of an archive for plain members."""
    d = Path(d)
    names = all_names(cfg)
    thin, group, startlib = bool(variant & 1), bool(variant & 2), bool(variant & 4)
    _assemble(START_ASM, d / "start.o")
    line = ["start.o"]
    for u in cfg.get("opts", {}).get("undef", []):
        line += ["-u", u]
    for w in cfg.get("opts", {}).get("wrap", []):
        line.append(f"--wrap={w}")
    if cfg.get("opts", {}).get("allowMultiple"):
        line.append("--allow-multiple-definition")
    files = cfg["files"]
    objs = {}
    pad = cfg.get("opts", {}).get("pad_index")
    for fi, f in enumerate(files, 1):
        text = file_asm(cfg, fi, names)
        (d / f"f{fi}.s").write_text(text)
        _assemble(text, d / f"f{fi}.o")
        objs[fi] = f"f{fi}.o"
        ref = first_strong_ref(cfg, fi, names)
        if pad and ref and f["kind"] not in ("shared", "asneeded"):
            # scaled replay: pad the symbol table so that the first non-weak reference is symbol number `pad`
            idx0 = symbol_index(d / f"f{fi}.o", ref)
            need = pad - idx0
            if idx0 is None or need < 0:
                raise ToolError(f"cannot pad file {fi}: reference {ref} at index {idx0}")
            text = file_asm(cfg, fi, names, fill=(need // 2, need - need // 2))
            (d / f"f{fi}.s").write_text(text)
            _assemble(text, d / f"f{fi}.o")
            got = symbol_index(d / f"f{fi}.o", ref)
            if got != pad:
                raise ToolError(f"padding of file {fi} put {ref} at symbol index {got}, wanted {pad}")
    fi = 1
    while fi <= len(files):
        k = files[fi - 1]["kind"]
        if k == "obj":
            line.append(objs[fi])
            fi += 1
        elif k in ("member", "wmember"):
            grp = [fi]
            if group:
                while fi + len(grp) <= len(files) and files[fi + len(grp) - 1]["kind"] == k:
                    grp.append(fi + len(grp))
            if k == "member" and startlib:
                line += ["--start-lib"] + [objs[g] for g in grp] + ["--end-lib"]
                _ar(d, f"lib{fi}.a", [objs[g] for g in grp], False)    # GNU ld has no --start-lib: see ld_line
            else:
                an = f"lib{fi}.a"
                _ar(d, an, [objs[g] for g in grp], thin)
                if k == "wmember":
                    line += ["--whole-archive", an, "--no-whole-archive"]
                else:
                    line.append(an)
            fi += len(grp)
        elif k in ("shared", "asneeded"):
            so = f"s{fi}.so"
            r = sh(["ld", "-shared", "-soname", so, "-o", so, objs[fi]], cwd=d, timeout=60)
            if r.rc != 0:
                raise ToolError(f"helper shared object could not be built by GNU ld: {r.err[-500:]}")
            if k == "asneeded":
                line += ["--as-needed", so, "--no-as-needed"]
            else:
                line += ["--no-as-needed", so]
            fi += 1
        else:
            raise ToolError(f"file kind {k}")
    return line


def has_shared(cfg):
    return any(f["kind"] in ("shared", "asneeded") for f in cfg["files"])


def ld_line(line):
    """GNU ld 2.40 has no --start-lib/--end-lib: use the equivalent archive emit() also built."""
    out, i = [], 0
    while i < len(line):
        if line[i] == "--start-lib":
            j = line.index("--end-lib", i)
            out.append("lib" + line[i + 1][1:-2] + ".a")
            i = j + 1
        else:
            out.append(line[i])
            i += 1
    return out


WILD_TIMEOUT = 120      # links take ~30 ms; the margin is for a machine shared with many other jobs
COMMON_FLAGS = ["--no-gc-sections", "--allow-shlib-undefined"]


_private = {}


def private_wild():
    """The hook-enabled build output is shared with other checks that may rebuild it while this
    check runs (the file disappears for a moment): pin the current binary with a hard link."""
    import os
    from .common import TMP, build_wild, locked
    if "w" in _private and _private["w"].exists():
        return _private["w"]
    src = build_wild()
    TMP.mkdir(parents=True, exist_ok=True)
    dst = TMP / f"wild-pinned-{os.getpid()}"
    with locked("cargo"):
        if dst.exists():
            dst.unlink()
        try:
            os.link(src, dst)
        except OSError:
            shutil.copy2(src, dst)
    import atexit
    atexit.register(lambda: dst.exists() and dst.unlink())
    _private["w"] = dst
    return dst


def link(linker, line, d, out, threads=None, env=None, extra=None):
    """Run one of the three linkers on the link line. Returns ShResult."""
    args = list(line) + ["-o", out] + (extra or [])
    if linker == "wild":
        a = COMMON_FLAGS + args
        if threads:
            a.append(f"--threads={threads}")
        return run_wild(a, cwd=d, env=env, timeout=WILD_TIMEOUT, wild=private_wild())
    if linker == "ld":
        return sh(["ld", "--allow-shlib-undefined", "-z", "noexecstack"] + ld_line(args), cwd=d, timeout=300)
    if linker == "lld":
        return sh(["ld.lld", "--allow-shlib-undefined"] + args, cwd=d, timeout=300)
    raise ToolError(linker)


_DUP = re.compile(r"duplicate symbol|multiple definition|Duplicate symbols", re.I)
_UNDEF = re.compile(r"undefined symbol|undefined reference|Undefined symbol|undefined hidden symbol|"
                    r"undefined protected symbol|hidden symbol .* isn't defined|is referenced by DSO", re.I)


def error_class(r):
    """none | duplicate | undefined | other:<first line>  from exit status + diagnostic text."""
    if r.timed_out:
        return "hang"
    if r.rc == 0:
        return "none"
    if r.rc < 0 or r.rc == 101 or "panicked at" in r.err:
        return "crash"
    t = r.err + r.out
    if _DUP.search(t):
        return "duplicate"
    if _UNDEF.search(t):
        return "undefined"
    return "other"


def observe(path, cfg):
    """Project a linked executable onto {loaded: [...], bind: {...}, needed: [...]}."""
    e = velf.Elf(path)
    names = all_names(cfg)
    files = cfg["files"]
    data = e.data
    loaded = []
    bind = {}
    # dynamic relocations by target address
    dynrel = {}
    dsyms = e.dynsym
    for r in e.all_dyn_relas():
        nm = dsyms[r["sym"]]["name"] if r["sym"] < len(dsyms) else "?"
        dynrel[r["offset"]] = (r["type"], nm)
    copy_syms = {nm for (t, nm) in dynrel.values() if t == R_X86_64_COPY}
    symsizes = {}
    sym_addrs = set()
    for s in e.symtab:
        if s["shndx"] != 0 and s["type"] not in (3, 4):
            sym_addrs.add(s["value"])
        if s["name"] in names and s["shndx"] != 0:
            symsizes[s["name"]] = (s["value"], s["size"])
    needed = e.needed
    for fi, f in enumerate(files, 1):
        if f["kind"] in ("shared", "asneeded"):
            if f"s{fi}.so" in needed:
                loaded.append(fi)
            continue
        if fmark(fi).encode() not in data:
            continue
        loaded.append(fi)
        offs = e.find_bytes(rmark(fi).encode())
        if len(offs) != 1:
            raise ToolError(f"reference table marker of file {fi} found {len(offs)} times")
        off = offs[0] + len(rmark(fi))
        va = e.off_to_vaddr(off)
        k = 0
        for ni, n in enumerate(names):
            s = f["syms"].get(n)
            if not s or s["def"] == "none":
                continue
            slot_va = va + 8 * k
            q = struct.unpack_from("<Q", data, off + 8 * k)[0]
            k += 1
            key = f"{fi}:{n}"
            if slot_va in dynrel and dynrel[slot_va][0] in (R_X86_64_64, R_X86_64_GLOB_DAT):
                nm = dynrel[slot_va][1]
                provided = any(g["kind"] in ("shared", "asneeded") and f"s{gi}.so" in needed
                               and g["syms"].get(nm, {}).get("def") in DEFS_DEFINED
                               for gi, g in enumerate(files, 1))
                # a dynamic reference no linked library satisfies is an undefined weak: 0 at run time
                bind[key] = "dyn" if provided else "zero"
                continue
            if q == 0:
                bind[key] = "zero"
                continue
            b = e.read_va(q, 8)
            if b is None:
                bind[key] = f"wild-pointer:{q:#x}"
                continue
            w = struct.unpack("<Q", b)[0]
            if (w >> 8) == (ID_BASE >> 8) or (ID_BASE <= w < ID_BASE + 4096):
                did = w - ID_BASE
                bind[key] = f"d{did // 16}:{names[did % 16 - 1]}"
                continue
            sec = e.section_containing_va(q)
            if n in copy_syms:
                bind[key] = "dyn"          # copy relocation: the definition lives in the shared object
                continue
            if sec is not None and sec["type"] == 8:
                # a COMMON: its identity is its SIZE - the st_size the output records for it, which must also
                # fit in what was really allocated (distance to the next symbol / the end of the section)
                sz = symsizes.get(n, (None, None))
                if sz[0] == q:
                    nxt = min([a for a in sym_addrs if a > q] + [sec["addr"] + sec["size"]])
                    bind[key] = f"common{sz[1]}" if nxt - q >= sz[1] else f"common{sz[1]}-but-{nxt - q}-bytes-allocated"
                else:
                    bind[key] = "common?"
                continue
            # PLT/GOT-style canonical address for an import?
            bind[key] = f"other:{q:#x}:{sec['name'] if sec else None}"
        end = struct.unpack_from("<Q", data, off + 8 * k)[0]
        if end != 0x1DFFFFFFFFFFFFFF:
            raise ToolError(f"reference table of file {fi} is not terminated where expected")
    return {"loaded": loaded, "bind": bind, "needed": needed}


import threading
_retry_lock = threading.Lock()


def run_case(cfg, d, linkers=("wild", "ld", "lld"), variant=0, threads=None, env=None, patch_wild=False,
             wild_extra=None):
    """Emit + link + observe. Returns {linker: {"error":..., "loaded":..., "bind":..., "msg":...}}, line."""
    line = emit(cfg, d, variant)
    res = {}
    for lk in linkers:
        out = f"out.{lk}"
        kw = dict(threads=threads if lk == "wild" else None, env=env if lk == "wild" else None,
                  extra=wild_extra if lk == "wild" else None)
        r = link(lk, line, d, out, **kw)
        if r.timed_out:
            # distinguish an overloaded machine from a deadlock: once more, alone, with a long timeout
            with _retry_lock:
                r = link(lk, line, d, out, **kw)
        ec = error_class(r)
        o = {"error": ec, "rc": r.rc, "msg": (r.err + r.out)[-600:] if ec != "none" else ""}
        if ec == "none":
            if lk == "wild" and (_PATCH_OBSERVATION or patch_wild):
                _patch_identity(Path(d) / out)
            try:
                o.update(observe(Path(d) / out, cfg))
            except velf.ElfError as ex:
                o["error"] = f"bad-output:{ex}"
        res[lk] = o
    return res, line


def _patch_identity(path):
    """Demonstration only: turn the first identity word in the output into the identity of another definition."""
    data = bytearray(Path(path).read_bytes())
    pat = struct.pack("<I", ID_BASE >> 8)[:4]
    for off in range(0, len(data) - 8):
        w = struct.unpack_from("<Q", data, off)[0]
        if ID_BASE < w < ID_BASE + 4096 and off % 8 == 0:
            struct.pack_into("<Q", data, off, w + 16 * 5)     # file index + 5: no such definition
            Path(path).write_bytes(bytes(data))
            return True
    return False


def cfg_key(cfg):
    return hashlib.sha1(repr(cfg).encode()).hexdigest()[:10]


# ---------------------------------------------------------------------------------------------
# Replay of TLC records with the three-way vote.

import json
import os
import random
import shutil
from concurrent.futures import ThreadPoolExecutor

from .common import save_replay, log


def norm_outcome(o, cfg):
    """{error, loaded (regular files only), bind} from a spec outcome or an observation."""
    files = cfg["files"]
    reg = [i for i in (o.get("loaded") or []) if files[i - 1]["kind"] not in ("shared", "asneeded")]
    b = o.get("bind") or {}
    if isinstance(b, list):
        b = {}
    return {"error": o["error"], "loaded": sorted(reg), "bind": dict(sorted(b.items()))}


def same(a, b, aspects):
    if a["error"] != b["error"]:
        return False
    if a["error"] != "none":
        return True
    return all(a[k] == b[k] for k in aspects if k != "error")


QUIRK_KEYS = {"uniqWeak": "gnu-unique-ranked-as-weak",
              "weakZero": "weak-ref-zero-when-name-owner-not-loaded",
              "wrapNoDef": "wrap-ignored-without-wrapper-definition"}


def divergence_key(rec, w, m, aspects):
    """Stable key of a mismatch between wild and the rule."""
    if same(w, m, aspects):
        if rec.get("causes"):
            return "+".join(sorted(QUIRK_KEYS[c] for c in rec["causes"]))
        if rec.get("loadDiv"):
            return "shadowed-lazy-definition"
        return "as-modelled-unclassified"
    return "unexpected"


def replay_one(rec, d, idx, seed, aspects, reference, skip_load_divergent=None):
    """Returns dict(status=..., ...). reference: 'both' | 'ld' | 'lld'."""
    cfg = {"files": rec["files"], "opts": {"allowMultiple": rec["opts"]["allowMultiple"],
                                           "undef": sorted(rec["opts"]["undefs"]),
                                           "wrap": sorted(rec["opts"]["wrap"])}}
    if rec.get("_pad_index"):
        cfg["opts"]["pad_index"] = rec["_pad_index"]
        cfg["opts"]["pad_name"] = rec.get("_pad_name")
    rng = random.Random(seed * 1000003 + idx)
    variant = rng.choice([0, 0, 1, 2, 3, 4])
    threads = rng.choice([1, 2, 4, 8])
    env = {"WILD_VERIF_YIELD_SEED": str(rng.getrandbits(31))} if rng.random() < 0.5 else {}
    # detection demonstration without rebuilding wild: VERIF_SYMRES_DEMO=patch-output:<n> corrupts the identity word
    # in wild's output of every n-th replayed case before it is observed -> the check must report a VIOLATION
    demo = os.environ.get("VERIF_SYMRES_DEMO", "")
    patch = demo.startswith("patch-output:") and idx > 0 and idx % int(demo.split(":")[1]) == 0
    res, line = run_case(cfg, d, variant=variant, threads=threads, env=env, patch_wild=patch,
                         wild_extra=rec.get("_wild_extra"))
    if rec.get("_pad_index"):
        line = line + [f"(every non-weak reference to {rec.get('_pad_name')} is symbol number {rec['_pad_index']} of its object)"]
    R = norm_outcome(rec["expect"], cfg)
    M = norm_outcome(rec["model"], cfg)
    W, G, L = (norm_outcome(res[k], cfg) for k in ("wild", "ld", "lld"))
    info = {"idx": idx, "line": line, "variant": variant, "threads": threads, "env": env, "cfg": cfg,
            "expect": R, "model": M, "wild": W, "ld": G, "lld": L,
            "flags": {k: rec.get(k) for k in ("causes", "loadDiv", "shadow", "commonLazy", "visShared")},
            "raw": {k: {kk: vv for kk, vv in v.items() if kk in ("rc", "msg", "needed", "error")} for k, v in res.items()}}
    if res["wild"]["error"] in ("crash", "hang", "other") or res["wild"]["error"].startswith("bad-output"):
        info["status"] = "wild-abnormal"
        return info
    for k in ("ld", "lld"):
        if res[k]["error"] in ("crash", "hang"):
            info["status"] = "tool-failure"
            return info
    okG, okL = same(G, R, aspects), same(L, R, aspects)
    support = {"both": okG or okL, "ld": okG, "lld": okL}[reference]
    refs_agree = same(G, L, aspects)
    info["support"] = support
    if same(W, R, aspects):
        if support:
            info["status"] = "ok"
        elif reference == "both":
            info["status"] = "spec-vs-oracles" if refs_agree else "ok-oracles-differ"
        else:
            has_m = any(f["kind"] == "member" for f in cfg["files"])
            info["status"] = "ok-oracles-differ" if has_m else "spec-vs-oracles"
        return info
    has_member = any(f["kind"] == "member" for f in cfg["files"])
    if not support:
        if reference == "both":
            info["status"] = "spec-vs-oracles" if refs_agree else "undecided"
        elif reference == "ld":
            # GNU ld scans archives in order: with lazy members its result may legitimately differ
            info["status"] = "undecided" if has_member else "spec-vs-oracles"
        else:
            info["status"] = "spec-vs-oracles"
        return info
    if rec.get("visShared"):
        # a hidden/protected reference + a shared definition: which regular definition is fetched instead is
        # not decided by the property text and the linkers differ
        info["status"] = "unspecified"
        return info
    if same(W, M, aspects) and isinstance(skip_load_divergent, dict):
        # wild behaves exactly as its model predicts and the deviation is fully explained by defects that are
        # the subject of ANOTHER property (recorded there): not reported twice
        own = skip_load_divergent
        causes = set(rec.get("causes") or [])
        if (causes and not (causes & own["quirks"])) or (not causes and rec.get("loadDiv") and not own["loading"]):
            info["status"] = "attributed-elsewhere"
            return info
    info["status"] = "mismatch"
    info["key"] = divergence_key(rec, W, M, aspects)
    return info


def replay_records(ctx, prop, records, aspects, reference, jobs=8, known_oracle_classes=None, label="",
                   skip_load_divergent=None):
    """Replay records (list of (idx, rec)). Reports violations through ctx.verdict. Returns stats."""
    from .common import scratch
    stats = {"replayed": 0, "ok": 0, "ok_oracles_differ": 0, "mismatch": {}, "undecided": 0, "spec_vs_oracles": 0,
             "samples": []}
    spec_bugs = []
    with scratch(f"{prop.lower()}{label}") as top:
        def job(item):
            idx, rec = item
            d = top / f"c{idx}"
            d.mkdir()
            try:
                info = replay_one(rec, d, idx, ctx.seed, aspects, reference, skip_load_divergent)
            except ToolError as e:
                info = {"status": "tool-failure", "idx": idx, "error": str(e)}
            info["dir"] = d
            return info

        with ThreadPoolExecutor(max_workers=jobs) as ex:
            for info in ex.map(job, records):
                stats["replayed"] += 1
                st = info["status"]
                d = info.pop("dir")
                if st == "ok":
                    stats["ok"] += 1
                    if len(stats["samples"]) < 3:
                        stats["samples"].append({"line": info["line"], "expect": info["expect"], "wild": info["wild"]})
                elif st == "ok-oracles-differ":
                    stats["ok"] += 1
                    stats["ok_oracles_differ"] += 1
                elif st in ("undecided", "unspecified", "attributed-elsewhere"):
                    stats[st.replace("-", "_")] = stats.get(st.replace("-", "_"), 0) + 1
                elif st == "spec-vs-oracles":
                    cls = (known_oracle_classes(info) if known_oracle_classes else None)
                    if cls:
                        stats.setdefault("oracle_known_" + cls, 0)
                        stats["oracle_known_" + cls] += 1
                    else:
                        stats["spec_vs_oracles"] += 1
                        spec_bugs.append(info)
                elif st == "tool-failure":
                    raise ToolError(f"reference linker / generator failed on case {info.get('idx')}: {info}")
                elif st == "wild-abnormal":
                    r = info["raw"]["wild"]
                    key = f"abnormal:{r['error']}"
                    stats.setdefault("wild_abnormal", {})
                    stats["wild_abnormal"][r["error"]] = stats["wild_abnormal"].get(r["error"], 0) + 1
                    if info["expect"]["error"] == "none" or r["error"] == "hang":
                        # the rule says this links and every reference binds; wild produced no program
                        ctx.verdict.report(key, f"wild ended abnormally ({r['error']}, rc={r['rc']}) on {info['line']}: {r['msg'][-200:]}",
                                           lambda: save_replay(prop, f"{key.replace(':', '-')}-{info['idx']}", d, meta=info))
                else:
                    key = info["key"]
                    stats["mismatch"][key] = stats["mismatch"].get(key, 0) + 1
                    text = (f"{' '.join(info['line'])}: expected {json.dumps(info['expect'])} "
                            f"(ld {'agrees' if same(info['ld'], info['expect'], aspects) else 'differs'}, "
                            f"lld {'agrees' if same(info['lld'], info['expect'], aspects) else 'differs'}) "
                            f"but wild gives {json.dumps(info['wild'])}")
                    ctx.verdict.report(key, text,
                                       lambda: save_replay(prop, f"{key.replace(':', '-').replace('+', '_')}-{info['idx']}", d, meta=info))
                shutil.rmtree(d, ignore_errors=True)
    if spec_bugs:
        ex = spec_bugs[0]
        raise ToolError(f"{len(spec_bugs)} configuration(s) where GNU ld and lld agree with each other but not with the "
                        f"rule (spec bug), first: {json.dumps({k: ex[k] for k in ('line', 'expect', 'ld', 'lld', 'wild')})}")
    return stats


# ---------------------------------------------------------------------------------------------
# TLC runs of MCSymRes shared by c02 / c03 / c33

EXPECTED_ACTIONS = ["Start", "PeekAny", "TakeAny", "Finish"]


def tlc_records(cfg, timeout, workers=8):
    """Exhaustive TLC run of one bounded family; returns (result, deduplicated REPLAY records).
    (-coverage makes TLC an order of magnitude slower on this module, so action coverage is
    established separately by coverage_run on a tiny family.)"""
    r = _tlc().run_tlc("MCSymRes", cfg, workers=workers, timeout=timeout, coverage=False)
    if r.timed_out:
        raise ToolError(f"TLC timed out on {cfg}")
    if not r.ok:
        raise ToolError(f"SymRes model check failed ({cfg}): {r.violated} {r.error_text}\n{r.out[-3000:] if not r.trace_text else r.trace_text[:3000]}")
    seen, recs = set(), []
    for rec in r.records:
        k = repr(sorted(rec["files"], key=repr) if False else rec["files"]) + repr(rec["opts"])
        if k in seen:
            continue
        seen.add(k)
        recs.append(rec)
    if not recs:
        raise ToolError(f"no REPLAY records from {cfg}")
    return r, recs


def coverage_run(cfg="mc/SymRes_cover.cfg"):
    r = _tlc().run_tlc("MCSymRes", cfg, workers=4, timeout=600, coverage=True)
    if not r.ok:
        raise ToolError(f"coverage run failed: {r.violated} {r.error_text}")
    missing = _tlc().zero_coverage_actions(r, EXPECTED_ACTIONS)
    if missing:
        raise ToolError(f"vacuous model: actions never taken: {missing}")
    return {"cfg": cfg, **r.summary(), "action_coverage": {a: r.coverage[a][1] for a in EXPECTED_ACTIONS}}


def racy_must_fail(cfg="mc/SymRes_racy.cfg"):
    r = _tlc().run_tlc("MCSymRes", cfg, workers=4, timeout=600, coverage=False)
    if r.ok or r.violated != "LoadedOnce":
        raise ToolError(f"racy variant of the take was NOT caught (violated={r.violated}): invariants are vacuous")
    return {"cfg": cfg, "expected_violation": r.violated, "states_to_find": r.distinct}


def sample(recs, seed, k):
    return [(i, rec) for i, rec in enumerate(recs) if (i + seed) % k == 0]




def _tlc():
    from . import tlc
    return tlc


def run_plan(ctx, prop, plan, aspects, reference, oracle_known=None, skip_load_divergent=None):
    """plan: [(cfg, tlc_timeout, sample_every_k)].  Returns the coverage dict.
    The TLC runs (the families of the plan, the coverage run and the racy variant) are independent and run
    concurrently; the replays follow."""
    from .common import build_wild, trim_samples
    build_wild()
    private_wild()
    cov = {"samples": []}
    states = trans = replayed = 0
    runs = []
    demo_pool = []
    w = max(2, 16 // (len(plan) + 2))
    with ThreadPoolExecutor(max_workers=len(plan) + 2) as ex:
        futs = [ex.submit(tlc_records, cfg, to, min(8, w)) for cfg, to, _k in plan]
        fcov = ex.submit(coverage_run)
        fracy = ex.submit(racy_must_fail)
        tlc_results = [f.result() for f in futs]
        cover, racy = fcov.result(), fracy.result()
    for (cfg, to, k), (r, recs) in zip(plan, tlc_results):
        states += r.distinct
        trans += r.generated
        chosen = sample(recs, ctx.seed, k)
        demo_pool += [rec for _, rec in chosen[:400]]
        log(f"{cfg}: {r.distinct} states ({r.wall:.0f}s), {len(recs)} configurations, replaying {len(chosen)}")
        st = replay_records(ctx, prop, chosen, aspects, reference, jobs=8, known_oracle_classes=oracle_known,
                            skip_load_divergent=skip_load_divergent, label="-" + Path(cfg).stem.split("_", 1)[-1])
        replayed += st["replayed"]
        runs.append({"cfg": cfg, **r.summary(), "configurations": len(recs),
                     **{kk: vv for kk, vv in st.items() if kk != "samples"}})
        cov["samples"] += st["samples"]
    runs.append(cover)
    runs.append(racy)
    cov["binding_demo"] = binding_demo(ctx, prop, demo_pool, aspects, reference)
    cov["_pool"] = demo_pool
    cov["states"] = states
    cov["transitions"] = trans
    cov["traces_validated_against_impl"] = replayed
    cov["tlc_runs"] = runs
    cov["samples"] = trim_samples(cov["samples"], 3, 900)
    return cov


def binding_demo(ctx, prop, pool, aspects, reference):
    """Anti-vacuity of the binding: a configuration wild gets right must be reported as a mismatch once the
    expectation (one predicted binding / the predicted error class) or the observation (one byte of the
    identity word in wild's output) is corrupted."""
    import copy
    from .common import scratch
    cand = None
    for rec in pool:
        b = rec["expect"].get("bind")
        if rec["expect"]["error"] == "none" and isinstance(b, dict) and any(v.startswith("d") and v[1].isdigit() for v in b.values()) \
                and not rec.get("causes") and not rec.get("loadDiv") and not rec.get("visShared") and not rec.get("commonLazy"):
            cand = rec
            break
    if cand is None:
        raise ToolError("binding demonstration: no suitable configuration in the sample")
    out = []
    with scratch(f"{prop.lower()}-demo") as top:
        def go(rec, name, patch=False):
            d = top / name
            d.mkdir()
            global _PATCH_OBSERVATION
            _PATCH_OBSERVATION = patch
            try:
                return replay_one(rec, d, 0, ctx.seed, ("error", "loaded", "bind"), reference)
            finally:
                _PATCH_OBSERVATION = False
        base = go(cand, "base")
        if base["status"] not in ("ok", "ok-oracles-differ"):
            raise ToolError(f"binding demonstration: base case not ok: {base['status']}")
        r1 = copy.deepcopy(cand)
        k = next(k for k, v in r1["expect"]["bind"].items() if v.startswith("d") and v[1].isdigit())
        r1["expect"]["bind"][k] = "zero"
        r2 = copy.deepcopy(cand)
        r2["expect"] = {"error": "duplicate", "loaded": r2["expect"]["loaded"], "bind": {}}
        for label, info in (("flip-predicted-binding", go(r1, "m1")), ("flip-predicted-error", go(r2, "m2")),
                            ("patch-identity-word-in-output", go(cand, "m3", patch=True))):
            caught = info["status"] in ("mismatch", "undecided", "spec-vs-oracles") and not same(info["wild"], info["expect"], ("error", "loaded", "bind"))
            out.append({"mutation": label, "status": info["status"], "key": info.get("key"), "caught": caught})
            if not caught:
                raise ToolError(f"binding demonstration failed: {label} was not noticed ({info['status']})")
    return out


_PATCH_OBSERVATION = False


PAD_INDICES = (4998, 4999, 5000, 5001, 9999, 10000, 10001)


def _loaded_ignoring(files, ignore_name):
    """Input selection only (not an oracle): the loading fixpoint of a plain objects/members configuration when
    non-weak references to ignore_name are not seen."""
    names = sorted({n for f in files for n in f["syms"]})
    prov = {}
    for n in names:
        for i, f in enumerate(files, 1):
            if f["syms"][n]["def"] in DEFS_DEFINED:
                prov[n] = i
                break
    L = {i for i, f in enumerate(files, 1) if f["kind"] != "member"}
    while True:
        N = set(L)
        for i in L:
            for n, s in files[i - 1]["syms"].items():
                if s["def"] == "undef" and n != ignore_name and n in prov:
                    N.add(prov[n])
        if N == L:
            return L
        L = N


def scaled_replay(ctx, prop, pool, n_cfgs, aspects, reference="both", indices=PAD_INDICES):
    """Input-SIZE dimension the small-scope enumeration cannot contain: wild resolves the symbols of an object
    in chunks of MAX_SYMBOLS_PER_WORK_ITEM = 5000.  Sampled (configuration, name) pairs in which a member is
    loaded only because of non-weak references to that name are replayed with every object that holds such a
    reference padded with filler symbols (half local, half global) so that the reference is symbol number i of
    the object, for i around the chunk boundaries; the rule's expectation is unchanged (the spec does not depend
    on symbol positions).  wild links with --strip-all so that the loaded-member set stays observable even when
    resolution went wrong."""
    import copy
    cands = []
    for rec in pool:
        e = rec["expect"]
        if e["error"] != "none" or rec.get("causes") or rec.get("loadDiv") or rec.get("visShared") or rec.get("commonLazy") \
                or rec["opts"]["wrap"] or rec["opts"]["undefs"]:
            continue
        files = rec["files"]
        if any(f["kind"] not in ("obj", "member", "wmember") for f in files):
            continue
        full = _loaded_ignoring(files, None)
        if full != set(e["loaded"]):
            continue
        for n in sorted({n for f in files for n in f["syms"]}):
            if _loaded_ignoring(files, n) != full:
                cands.append((rec, n))
    if not cands:
        raise ToolError("scaled replay: no configuration with a member loaded through a non-weak reference in the sample")
    rng = random.Random(ctx.seed)
    rng.shuffle(cands)
    items = []
    k = 0
    for rec, n in cands[:n_cfgs]:
        for i in indices:
            r2 = copy.deepcopy(rec)
            r2["_pad_index"] = i
            r2["_pad_name"] = n
            r2["_wild_extra"] = ["--strip-all"]
            items.append((900000 + k, r2))
            k += 1
    st = replay_records(ctx, prop, items, aspects, reference, jobs=8, label="-scaled")
    return {"configurations": min(n_cfgs, len(cands)), "symbol_indices": list(indices),
            **{kk: vv for kk, vv in st.items() if kk != "samples"}}
