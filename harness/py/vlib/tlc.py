"""Running TLC: exhaustive model checking, simulation, REPLAY record extraction, trace validation."""
import json
import os
import re
import shutil
import time
from pathlib import Path

from .common import CACHE, SPECS, ToolError, log, sh

JAR = "/opt/veriftools/tla/tla2tools.jar"
CM_JAR_CANDIDATES = ["/opt/veriftools/tla/CommunityModules-deps.jar", "/opt/veriftools/tla/CommunityModules.jar"]


class TlcResult:
    def __init__(self):
        self.rc = None
        self.ok = False                 # completed with no error
        self.generated = 0
        self.distinct = 0
        self.depth = 0
        self.violated = None            # name of violated invariant / property, if any
        self.error_text = ""
        self.trace_text = ""            # counterexample as printed
        self.coverage = {}              # action name -> (distinct, total)
        self.records = []               # parsed REPLAY records
        self.out = ""
        self.wall = 0.0
        self.timed_out = False
        self.trace_states = 0           # number of states in the printed counterexample

    def summary(self):
        return {"states": self.distinct, "transitions": self.generated, "depth": self.depth,
                "ok": self.ok, "violated": self.violated, "wall_s": round(self.wall, 1)}


_REPLAY_RE = re.compile(r'^<<"REPLAY", (.*)>>$')


def _unescape_tla_string(s):
    # TLC prints strings with \" and \\ escapes.
    return json.loads('"' + s.replace("\\\\", "\\\\").replace('\t', '\\t') + '"') if False else \
        s.encode().decode("unicode_escape")


def parse_tlc_output(out, res):
    for line in out.splitlines():
        m = re.search(r"^(\d+) states generated, (\d+) distinct states found", line)
        if m:
            res.generated, res.distinct = int(m.group(1)), int(m.group(2))
        m = re.search(r"depth of the complete state graph search is (\d+)", line)
        if m:
            res.depth = int(m.group(1))
        m = re.search(r"Invariant (\S+) is violated", line)
        if m:
            res.violated = m.group(1)
        m = re.search(r"Temporal properties were violated|Action property (\S+) .*violated", line)
        if m and not res.violated:
            res.violated = m.group(1) or "temporal"
        if line.startswith("Error:") and not res.error_text:
            res.error_text = line
        m = re.match(r"^<(\w+) line \d+, col \d+ to line \d+, col \d+ of module (\w+)>: (\d+):(\d+)", line)
        if m:
            name = m.group(1)
            d, t = int(m.group(3)), int(m.group(4))
            pd, pt = res.coverage.get(name, (0, 0))
            res.coverage[name] = (pd + d, pt + t)
        m = _REPLAY_RE.match(line.strip())
        if m:
            body = m.group(1).strip()
            if body.startswith('"') and body.endswith('"'):
                try:
                    res.records.append(json.loads(_unescape_tla_string(body[1:-1])))
                except Exception as e:  # noqa
                    raise ToolError(f"unparsable REPLAY record: {body[:200]} ({e})")
    if "The behavior up to this point is" in out or "is violated" in out:
        i = out.find("Error:")
        res.trace_text = out[i:i + 20000]
        res.trace_states = len(re.findall(r"^State \d+:", res.trace_text, re.M))
    res.ok = ("Model checking completed. No error has been found." in out) or \
             ("Finished in" in out and "Error:" not in out and res.violated is None and
              ("states generated" in out or "Simulation" in out or "simulat" in out))


def run_tlc(module, cfg, *, workers=8, timeout=900, simulate=None, depth=None, coverage=True,
            env=None, jvm_opts=None, dfs=False, name=None, seed=None, extra=None, deadlock=False):
    """Run TLC on specs/<module>.tla with specs/<cfg>. Returns TlcResult (never raises on a property
    violation; raises ToolError on parse/semantic errors or abnormal termination)."""
    name = name or f"{module}.{Path(cfg).stem}.{os.getpid()}"
    meta = CACHE / "tlc" / name
    if meta.exists():
        shutil.rmtree(meta, ignore_errors=True)
    meta.mkdir(parents=True)
    opts = ["-XX:+UseParallelGC"]
    if jvm_opts:
        opts += jvm_opts
    if dfs:
        opts += ["-Dtlc2.tool.queue.IStateQueue=StateDeque"]
    cmd = ["java"] + opts + ["-cp", JAR + ":" + ":".join(CM_JAR_CANDIDATES), "tlc2.TLC"]
    cmd = ["tlc"]  # wrapper on PATH sets up the classpath incl. CommunityModules
    e = dict(env or {})
    jto = " ".join(opts)
    e["JAVA_TOOL_OPTIONS"] = (os.environ.get("JAVA_TOOL_OPTIONS", "") + " " + jto).strip()
    cmd += ["-workers", str(workers), "-metadir", str(meta), "-cleanup", "-noGenerateSpecTE",
            "-config", str(cfg)]
    if not deadlock:
        pass
    if coverage:
        cmd += ["-coverage", "1"]
    if simulate is not None:
        cmd += ["-simulate", f"num={simulate}"]
        if depth:
            cmd += ["-depth", str(depth)]
    if seed is not None:
        cmd += ["-seed", str(seed)]
    if extra:
        cmd += extra
    cmd += [f"{module}.tla"]
    t0 = time.time()
    r = sh(cmd, timeout=timeout, env=e, cwd=SPECS)
    res = TlcResult()
    res.rc, res.out, res.wall, res.timed_out = r.rc, r.out, time.time() - t0, r.timed_out
    shutil.rmtree(meta, ignore_errors=True)
    if "Parsing or semantic analysis failed" in r.out or "Semantic errors" in r.out or \
            "TLC threw an unexpected exception" in r.out and "POSTCONDITION" not in r.out:
        raise ToolError(f"TLC could not run {module}/{cfg}:\n" + r.out[-3000:] + r.err[-1000:])
    parse_tlc_output(r.out, res)
    if r.timed_out:
        res.ok = False
    return res


def zero_coverage_actions(res, expected):
    """Actions in `expected` that TLC never took (vacuity guard)."""
    return [a for a in expected if res.coverage.get(a, (0, 0))[1] == 0]


def validate_trace(module, cfg, trace_path, *, timeout=300, env=None, name=None):
    """Trace validation: specs/trace/<module>.tla reads IOEnv.TRACE.
    Returns (accepted: bool, info: dict)."""
    e = {"TRACE": str(trace_path)}
    e.update(env or {})
    res = run_tlc(module, cfg, workers=1, timeout=timeout, coverage=False, env=e, dfs=True,
                  jvm_opts=["-Xss1g", "-Xmx2g", "-XX:ParallelGCThreads=2", "-XX:TieredStopAtLevel=1"], name=name)
    info = {"distinct": res.distinct, "depth": res.depth, "rc": res.rc}
    m = re.search(r'"TRACE-UNMATCHED",\s*(\d+),\s*(.*?)>>', res.out, re.S)
    if m:
        info["unmatched_index"] = int(m.group(1))
        info["unmatched_event"] = m.group(2)[:600]
    m = re.search(r'"TRACE-ACCEPTED", (\d+)', res.out)
    if m:
        info["accepted_len"] = int(m.group(1))
    if res.timed_out:
        raise ToolError(f"trace validation timed out: {module} {trace_path}")
    accepted = "TRACE-ACCEPTED" in res.out and res.violated is None and "is violated" not in res.out
    if not accepted and "TRACE-UNMATCHED" not in res.out and res.violated is None:
        # neither accepted nor rejected by the postcondition: TLC itself failed
        if "Error:" in res.out and "POSTCONDITION" not in res.out.upper() and "postcondition" not in res.out:
            raise ToolError(f"trace validation did not run properly:\n{res.out[-3000:]}")
    info["violated"] = res.violated
    info["out_tail"] = res.out[-1500:]
    return accepted, info
