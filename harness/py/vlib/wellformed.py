"""C04 observer: project a real ELF output onto the image vocabulary of specs/Layout.tla and let TLC
evaluate `WellFormed` (specs/LayoutObs.tla) on it.

    observe_for_tla(elf_path)            -> dict  (one observation, JSON-able, all numbers < 2^30)
    check_outputs_wellformed(paths, ...) -> list of failures [{path, id, conjunct, bad}]

Other checks can call check_outputs_wellformed() on the files they produce.

Numbers: TLC integers are 32-bit.  File coordinates are passed exactly (outputs >= 2^30 bytes are
refused).  Memory coordinates are passed through `squeeze`: an order-preserving map that keeps every
residue modulo M (M = the largest alignment that occurs in the image, at least 64 KiB) and only
shortens gaps between consecutive coordinates that are longer than 2*M to a length in [M, 2M) with
the same residue.  Every conjunct of WellFormed uses only order, equality, residues modulo
alignments / the page size, page rounding (the rounded values are coordinates themselves) and
equality of (address - file offset), which is passed as a separate id ("bias"), so the predicate has
the same value on the squeezed image as on the real one.
"""
import json
import re
import struct
from pathlib import Path

from . import tlc
from .common import ToolError, scratch
from .elf import Elf, PT, SHT, SHF_ALLOC, SHF_EXECINSTR, SHF_TLS, SHF_WRITE

LIMIT = 1 << 30
COMMON_PAGE = 4096

RELRO_MUST_NAMES = {".init_array", ".fini_array", ".preinit_array", ".ctors", ".dtors", ".jcr", ".dynamic",
                    ".tdata", ".data.rel.ro"}
RELRO_MAY_NAMES = {".got", ".got.plt", ".tbss", ".relro_padding"}
RELRO_MUST_TYPES = {6, 14, 15, 16}   # DYNAMIC, INIT_ARRAY, FINI_ARRAY, PREINIT_ARRAY


class ObserveError(Exception):
    pass


def relro_class(s, scripted=False):
    """GNU ld convention for the default layout: which writable sections must / may / must not be
    covered by PT_GNU_RELRO.  Under a user SECTIONS script the script decides, so nothing is
    mandatory there ("must" becomes "may")."""
    if not (s["flags"] & SHF_ALLOC) or not (s["flags"] & SHF_WRITE):
        return "never"
    n = s["name"]
    if s["flags"] & SHF_TLS:
        c = "may" if s["type"] == 8 else "must"
    elif n in RELRO_MUST_NAMES or n.startswith(".data.rel.ro.") or s["type"] in RELRO_MUST_TYPES:
        c = "must"
    elif n in RELRO_MAY_NAMES:
        c = "may"
    else:
        c = "never"
    if scripted and c == "must":
        c = "may"
    return c


def _is_pow2(a):
    return a > 0 and a & (a - 1) == 0


def squeeze_map(points, modulus):
    pts = sorted(set(points))
    out = {}
    prev = None
    for p in pts:
        if prev is None:
            out[p] = p % modulus
        else:
            g = p - prev
            if g > 2 * modulus:
                g = modulus + (g % modulus)
            out[p] = out[prev] + g
        prev = p
    return out


def observe_for_tla(elf_path, ident=None, data=None, scripted=False):
    e = Elf(elf_path, data=data)
    d = e.data
    if len(d) >= LIMIT:
        raise ObserveError("file too large for the TLC encoding")
    kind = "rel" if e.e_type == 1 else "exec"
    nsec = len(e.sections)
    shstr = e.sections[e.e_shstrndx] if e.e_shstrndx < nsec else None

    # memory coordinates and the squeeze map
    mem_pts = []
    aligns = [65536]
    segs_in = [p for p in e.segments]
    for s in e.sections:
        if s["flags"] & SHF_ALLOC and s["type"] != 0 and kind == "exec":
            mem_pts += [s["addr"], s["addr"] + s["size"]]
            if _is_pow2(s["addralign"]):
                aligns.append(s["addralign"])
    for p in segs_in:
        if p["type"] == 0x6474e551:   # GNU_STACK has no extent
            continue
        mem_pts += [p["vaddr"], p["vaddr"] + p["filesz"], p["vaddr"] + p["memsz"]]
        if _is_pow2(p["align"]):
            aligns.append(p["align"])
    modulus = max(aligns)
    if modulus > (1 << 24):
        raise ObserveError(f"alignment {modulus:#x} too large for the TLC encoding")
    pts = set(mem_pts)
    for x in list(pts):
        pts.add(x - x % COMMON_PAGE)
        pts.add(x + (-x) % COMMON_PAGE)
    sq = squeeze_map(pts, modulus)
    if sq and max(sq.values()) >= LIMIT:
        raise ObserveError("image does not fit the TLC encoding even after squeezing")

    bias_ids = {}

    def bias(v):
        return bias_ids.setdefault(v, len(bias_ids) + 1)

    def tname(table, t):
        return table.get(t, f"T{t:x}")

    secs = []
    for s in e.sections:
        alloc = bool(s["flags"] & SHF_ALLOC)
        nobits = s["type"] == 8
        in_mem = alloc and s["type"] != 0 and kind == "exec"
        link_t = tname(SHT, e.sections[s["link"]]["type"]) if s["link"] < nsec else "NONE"
        if s["offset"] >= LIMIT or s["size"] >= LIMIT and not nobits:
            raise ObserveError("section extent too large")
        secs.append(dict(
            idx=s["index"], name=s["name"], type=tname(SHT, s["type"]),
            alloc=alloc, write=bool(s["flags"] & SHF_WRITE), exec=bool(s["flags"] & SHF_EXECINSTR),
            tls=bool(s["flags"] & SHF_TLS), nobits=nobits,
            addr=sq[s["addr"]] if in_mem else 0,
            aend=sq[s["addr"] + s["size"]] if in_mem else 0,
            off=s["offset"], oend=s["offset"] if nobits else s["offset"] + s["size"],
            align=s["addralign"] if s["addralign"] < LIMIT else LIMIT - 1,
            link=s["link"] if s["link"] < LIMIT else LIMIT - 1, linktype=link_t,
            relro=relro_class(s, scripted), bias=bias(s["addr"] - s["offset"]) if in_mem else 0,
            nameok=bool(shstr is not None and shstr["type"] == 3 and s["name_off"] < max(shstr["size"], 1)),
            rawzero=all(s[k] == 0 for k in ("name_off", "type", "flags", "addr", "offset", "size", "link", "info",
                                             "addralign", "entsize"))))
    segs = []
    for p in segs_in:
        stack = p["type"] == 0x6474e551
        if p["offset"] + p["filesz"] >= LIMIT:
            raise ObserveError("segment extent too large")
        segs.append(dict(
            idx=p["index"], type=tname(PT, p["type"]), r=bool(p["flags"] & 4), w=bool(p["flags"] & 2),
            x=bool(p["flags"] & 1), off=p["offset"], oend=p["offset"] + p["filesz"],
            vaddr=0 if stack else sq[p["vaddr"]], vfend=0 if stack else sq[p["vaddr"] + p["filesz"]],
            vend=0 if stack else sq[p["vaddr"] + p["memsz"]],
            align=p["align"] if p["align"] < LIMIT else LIMIT - 1,
            bias=0 if stack else bias(p["vaddr"] - p["offset"])))

    # initial image of .tbss inside PT_TLS must be zero
    tail_zero = True
    for p in segs_in:
        if p["type"] == 7:
            prog_end = p["vaddr"]
            for s in e.sections:
                if s["flags"] & SHF_TLS and s["flags"] & SHF_ALLOC and s["type"] != 8 and s["size"] > 0:
                    prog_end = max(prog_end, s["addr"] + s["size"])
            lo = p["offset"] + (prog_end - p["vaddr"])
            hi = p["offset"] + p["filesz"]
            if lo < hi:
                tail_zero = not any(d[lo:hi])
    return dict(
        id=ident or str(elf_path), kind=kind, machine=e.e_machine, page=COMMON_PAGE, ehsize=e.e_ehsize,
        phoff=min(e.e_phoff, LIMIT - 1), phnum=e.e_phnum, phentsize=e.e_phentsize,
        shoff=min(e.e_shoff, LIMIT - 1), shnum=e.e_shnum, shentsize=e.e_shentsize, shstrndx=e.e_shstrndx,
        filesize=len(d), tlsTailZero=tail_zero, secs=secs, segs=segs)


_FAIL_RE = re.compile(r'^<<"WF-FAIL", "((?:[^"\\]|\\.)*)", "(\w+)", (.*)>>$')
_CHK_RE = re.compile(r'^<<"WF-CHECKED", "((?:[^"\\]|\\.)*)", (\d+)>>$')


def run_layout_obs(observations, name="layoutobs", timeout=600, workers=1):
    """One TLC run over a batch of observations. Returns (failures, checked_ids, TlcResult)."""
    if not observations:
        return [], [], None
    with scratch("wfobs") as d:
        p = d / "obs.ndjson"
        with open(p, "w") as f:
            for o in observations:
                f.write(json.dumps(o) + "\n")
        res = tlc.run_tlc("LayoutObs", "mc/LayoutObs.cfg", workers=workers, timeout=timeout, coverage=False,
                          env={"OBS": str(p)}, name=name, jvm_opts=["-Xss64m"])
    fails, checked = [], []
    for line in res.out.splitlines():
        line = line.strip()
        m = _FAIL_RE.match(line)
        if m:
            fails.append(dict(id=m.group(1), conjunct=m.group(2), bad=m.group(3)))
            continue
        m = _CHK_RE.match(line)
        if m:
            checked.append(m.group(1))
    if res.timed_out:
        raise ToolError("LayoutObs TLC run timed out")
    if sorted(checked) != sorted(o["id"] for o in observations):
        raise ToolError("LayoutObs did not evaluate every observation:\n" + res.out[-3000:])
    return fails, checked, res


def check_outputs_wellformed(paths, ids=None, name="layoutobs", scripted=False):
    """Observe every ELF file in `paths` and evaluate WellFormed on it with TLC.
    Returns a list of failures: dict(path, id, conjunct, bad).  Pass scripted=True for outputs of
    links that used a SECTIONS linker script.  On the pinned tree every wild output fails the
    conjunct "Null0" (recorded finding C04 shdr0-nonzero): callers that are not C04 should ignore it."""
    obs, by_id = [], {}
    for i, p in enumerate(paths):
        ident = ids[i] if ids else str(p)
        o = observe_for_tla(p, ident, scripted=scripted)
        obs.append(o)
        by_id[ident] = p
    fails, _checked, _res = run_layout_obs(obs, name=name)
    for f in fails:
        f["path"] = str(by_id[f["id"]])
    return fails


# ---------------------------------------------------------------------------------------------
# Cross-check of the observer against binutils readelf (independent parser).


def readelf_tables(path):
    from .common import sh
    r = sh(["readelf", "-lSW", str(path)], timeout=60)
    secs, segs = [], []
    for line in r.out.splitlines():
        m = re.match(r"^\s*\[\s*(\d+)\]\s(.*)$", line)
        if m:
            toks = m.group(2).split()
            ai = next((i for i, t in enumerate(toks) if re.fullmatch(r"[0-9a-f]{16}", t)), None)
            if ai is None or ai < 1:
                continue
            rest = toks[ai + 1:]
            if len(rest) not in (6, 7):
                continue
            flags = rest[3] if len(rest) == 7 else ""
            secs.append(dict(index=int(m.group(1)), name=" ".join(toks[:ai - 1]), addr=int(toks[ai], 16),
                             offset=int(rest[0], 16), size=int(rest[1], 16), flags=flags, addralign=int(rest[-1])))
            continue
        m = re.match(r"^\s+(\S+)\s+0x([0-9a-f]+)\s+0x([0-9a-f]+)\s+0x([0-9a-f]+)\s+0x([0-9a-f]+)\s+0x([0-9a-f]+)\s+([RWE ]{3})\s+0x([0-9a-f]+)\s*$", line)
        if m:
            segs.append(dict(type=m.group(1), offset=int(m.group(2), 16), vaddr=int(m.group(3), 16),
                             filesz=int(m.group(5), 16), memsz=int(m.group(6), 16),
                             flags=m.group(7).replace(" ", ""), align=int(m.group(8), 16)))
    return secs, segs


def crosscheck_with_readelf(path):
    """Returns a list of discrepancies between vlib.elf and readelf for this file."""
    e = Elf(path)
    rs, rp = readelf_tables(path)
    out = []
    if len(rs) != len(e.sections):
        out.append(f"section count {len(rs)} vs {len(e.sections)}")
    for a, b in zip(rs, e.sections):
        for k in ("addr", "offset", "size", "addralign"):
            if a[k] != b[k]:
                out.append(f"section {b['index']} {k}: readelf {a[k]:#x} observer {b[k]:#x}")
        fl = ("W" if b["flags"] & 1 else "") + ("A" if b["flags"] & 2 else "") + ("X" if b["flags"] & 4 else "")
        if [c for c in a["flags"] if c in "WAX"] != list(fl):
            out.append(f"section {b['index']} flags: readelf {a['flags']} observer {fl}")
    if len(rp) != len(e.segments):
        out.append(f"segment count {len(rp)} vs {len(e.segments)}")
    for a, b in zip(rp, e.segments):
        for k in ("offset", "vaddr", "filesz", "memsz", "align"):
            if a[k] != b[k]:
                out.append(f"segment {b['index']} {k}: readelf {a[k]:#x} observer {b[k]:#x}")
        fl = ("R" if b["flags"] & 4 else "") + ("W" if b["flags"] & 2 else "") + ("E" if b["flags"] & 1 else "")
        if a["flags"] != fl:
            out.append(f"segment {b['index']} flags: readelf {a['flags']} observer {fl}")
        if PT.get(b["type"], "?") != a["type"] and not a["type"].startswith("LOOS") and PT.get(b["type"]) is not None:
            out.append(f"segment {b['index']} type: readelf {a['type']} observer {PT.get(b['type'])}")
    return out


# ---------------------------------------------------------------------------------------------
# Byte patching helpers used by the detection demonstration.


def patch_u64(data, off, fn):
    v = struct.unpack_from("<Q", data, off)[0]
    struct.pack_into("<Q", data, off, fn(v) & 0xffffffffffffffff)


def phdr_field_off(e, index, field):
    offs = {"type": 0, "flags": 4, "offset": 8, "vaddr": 16, "paddr": 24, "filesz": 32, "memsz": 40, "align": 48}
    return e.e_phoff + index * e.e_phentsize + offs[field]


def shdr_field_off(e, index, field):
    offs = {"name": 0, "type": 4, "flags": 8, "addr": 16, "offset": 24, "size": 32, "link": 40, "info": 44,
            "addralign": 48, "entsize": 56}
    return e.e_shoff + index * e.e_shentsize + offs[field]
