"""Freestanding x86-64 test programs for C14: each test executes one relaxable instruction form against
one symbol, stores the destination register and the flags, then executes the same operation with the
symbol's value in a register (no GOT, nothing to relax) as the hardware reference, and finally the
program writes all results to stdout.  Works as a position-dependent executable and as a static PIE
(the program applies its own R_X86_64_RELATIVE relocations first)."""

R64 = ["rax", "rcx", "rdx", "rbx", "rsp", "rbp", "rsi", "rdi", "r8", "r9", "r10", "r11", "r12", "r13", "r14", "r15"]
R32 = ["eax", "ecx", "edx", "ebx", "esp", "ebp", "esi", "edi", "r8d", "r9d", "r10d", "r11d", "r12d", "r13d", "r14d", "r15d"]
REG0 = 0x0123456789abcdef
FLAG_MASK = 0x8d5            # CF PF AF ZF SF OF
FLAG_MASK_LOGIC = 0x8c5      # AF is undefined after and/or/xor/test
MARK = 0x600d0000

SELF_RELOC = r"""
    # ---- static PIE: apply our own R_X86_64_RELATIVE relocations (auxv -> phdrs -> PT_DYNAMIC -> DT_RELA)
    mov %rsp, %rsi
    mov (%rsi), %rax              # argc
    lea 16(%rsi,%rax,8), %rsi     # envp
1:  mov (%rsi), %rax
    add $8, %rsi
    test %rax, %rax
    jnz 1b
    xor %r8d, %r8d                # AT_PHDR
    xor %r9d, %r9d                # AT_PHNUM
2:  mov (%rsi), %rax
    test %rax, %rax
    jz 4f
    cmp $3, %rax
    jne 3f
    mov 8(%rsi), %r8
3:  cmp $5, %rax
    jne 33f
    mov 8(%rsi), %r9
33: add $16, %rsi
    jmp 2b
4:  mov %r8, %rbx
    sub $64, %rbx                 # load base = address of the ELF header (program headers follow it)
    cmpl $0x464c457f, (%rbx)
    jne 99f
    xor %r10d, %r10d              # dynamic
    cmpw $3, 16(%rbx)             # ET_DYN ?
    jne 9f
5:  test %r9, %r9
    jz 9f
    cmpl $2, (%r8)                # PT_DYNAMIC
    jne 6f
    mov 16(%r8), %r10
    add %rbx, %r10
6:  add $56, %r8
    dec %r9
    jmp 5b
99: mov $60, %eax
    mov $3, %edi
    syscall
9:  test %r10, %r10
    jz 8f
    xor %r11d, %r11d              # DT_RELA
    xor %r12d, %r12d              # DT_RELASZ
7:  mov (%r10), %rax
    test %rax, %rax
    jz 77f
    cmp $7, %rax
    jne 71f
    mov 8(%r10), %r11
71: cmp $8, %rax
    jne 72f
    mov 8(%r10), %r12
72: add $16, %r10
    jmp 7b
77: test %r11, %r11
    jz 8f
    add %rbx, %r11
78: test %r12, %r12
    jz 8f
    cmpl $8, 8(%r11)              # R_X86_64_RELATIVE
    jne 79f
    mov (%r11), %rax
    mov 16(%r11), %rcx
    add %rbx, %rcx
    mov %rcx, (%rax,%rbx)
79: add $24, %r11
    sub $24, %r12
    jmp 78b
8:
"""


def stub_setup(stubs):
    """mmap two pages at each absolute function address and place `mov $marker,%eax; ret` there."""
    out = ""
    for addr, marker in stubs:
        page = addr & ~0xfff
        out += f"""
    mov $9, %eax
    movabs $0x{page:x}, %rdi
    mov $8192, %esi
    mov $7, %edx
    mov $0x32, %r10d
    mov $-1, %r8
    xor %r9d, %r9d
    syscall
    movabs $0x{page:x}, %rcx
    cmp %rcx, %rax
    jne 99f
    movabs $0x{addr:x}, %rcx
    movb $0xb8, (%rcx)
    movl $0x{marker:x}, 1(%rcx)
    movb $0xc3, 5(%rcx)
"""
    if stubs:
        out += "    jmp 98f\n99: mov $60, %eax\n    mov $4, %edi\n    syscall\n98:\n"
    return out


def scratch_for(reg):
    return 11 if reg != 11 else 10


def alu_test(i, op, w, reg, sym, ref_load):
    """ref_load: assembly that puts the symbol's value into %SCR (format with scr=...)."""
    names = R64 if w == 64 else R32
    scr = scratch_for(reg)
    sfx = "q" if w == 64 else "l"
    pre = "stc"
    return f"""
    # test {i}: {op}{sfx} {sym}@GOTPCREL(%rip), %{names[reg]}
    mov %rsp, save_sp(%rip)
    movabs $0x{REG0:x}, %{R64[reg]}
    {pre}
    {op}{sfx} {sym}@GOTPCREL(%rip), %{names[reg]}
    mov %{R64[reg]}, res+{8 * i}(%rip)
    mov save_sp(%rip), %rsp
    pushfq
    popq flg+{8 * i}(%rip)
    {ref_load.format(scr=R64[scr])}
    mov %rsp, save_sp(%rip)
    movabs $0x{REG0:x}, %{R64[reg]}
    {pre}
    {op}{sfx} %{names[scr]}, %{names[reg]}
    mov %{R64[reg]}, rres+{8 * i}(%rip)
    mov save_sp(%rip), %rsp
    pushfq
    popq rflg+{8 * i}(%rip)
"""


def branch_test(i, op, sym, marker):
    if op == "call":
        body = f"    call *{sym}@GOTPCREL(%rip)\n"
    else:
        body = f"    lea 1f(%rip), %rcx\n    push %rcx\n    jmp *{sym}@GOTPCREL(%rip)\n1:\n"
    return f"""
    # test {i}: {op} *{sym}@GOTPCREL(%rip)
    xor %eax, %eax
{body}    mov %rax, res+{8 * i}(%rip)
    movq $0, flg+{8 * i}(%rip)
    movq $0x{marker:x}, rres+{8 * i}(%rip)
    movq $0, rflg+{8 * i}(%rip)
"""


def program(tests_asm, n, stubs, local_defs=""):
    return f"""
    .globl _start
    .text
_start:
{SELF_RELOC}
{stub_setup(stubs)}
{tests_asm}
    mov $1, %eax
    mov $1, %edi
    lea res(%rip), %rsi
    mov ${32 * n}, %edx
    syscall
    mov $60, %eax
    xor %edi, %edi
    syscall
{local_defs}
    .bss
    .balign 8
save_sp: .skip 8
res:  .skip {8 * n}
flg:  .skip {8 * n}
rres: .skip {8 * n}
rflg: .skip {8 * n}
"""


# ---------------------------------------------------------------------------------------------
# TLS forms (C14): every test computes the address of a thread-local variable through a relaxable
# access sequence (res) and through the local-exec sequence `mov %fs:0; lea x@tpoff` (rres).

TLS_SETUP = """
    # thread pointer: an aligned address inside tls_area with room below it; %fs:0 holds the pointer itself
    lea tls_area+4*4096(%rip), %rsi
    and $-4096, %rsi
    mov %rsi, (%rsi)
    mov $158, %eax
    mov $0x1002, %edi
    syscall
"""


def tls_test(i, form, reg, var):
    r = R64[reg]
    if form == "gd":
        seq = f"""    .byte 0x66
    leaq {var}@tlsgd(%rip), %rdi
    .word 0x6666
    rex64
    call __tls_get_addr@PLT
"""
        got = "rax"
    elif form == "ld":
        seq = f"""    leaq {var}@tlsld(%rip), %rdi
    call __tls_get_addr@PLT
    leaq {var}@dtpoff(%rax), %rax
"""
        got = "rax"
    elif form == "ie-mov":
        seq = f"""    movq {var}@gottpoff(%rip), %{r}
    addq %fs:0, %{r}
"""
        got = r
    elif form == "ie-add":
        seq = f"""    movq %fs:0, %{r}
    addq {var}@gottpoff(%rip), %{r}
"""
        got = r
    elif form == "desc":
        seq = f"""    leaq {var}@tlsdesc(%rip), %rax
    call *{var}@tlscall(%rax)
    addq %fs:0, %rax
"""
        got = "rax"
    else:
        raise ValueError(form)
    return f"""
    # test {i}: TLS {form} {var} -> %{got}
    .globl T_{i}
T_{i}:
{seq}    mov %{got}, res+{8 * i}(%rip)
    movq $0, flg+{8 * i}(%rip)
    movq %fs:0, %rax
    leaq {var}@tpoff(%rax), %rax
    mov %rax, rres+{8 * i}(%rip)
    movq $0, rflg+{8 * i}(%rip)
"""


TLS_DEFS = """
    .text
    .globl __tls_get_addr
__tls_get_addr:                 # must never run: every GD/LD sequence has to be relaxed in an executable
    mov $0xdead, %eax
    ret
    .section .tdata,"awT",@progbits
    .balign 8
y0: .quad 0x7777
    .section .tbss,"awT",@nobits
    .balign 8
x0: .skip 8
x1: .skip 8
    .skip 4096
xfar: .skip 8
    .bss
    .balign 4096
tls_area: .skip 8*4096
"""


def tls_program(tests_asm, n):
    return program(TLS_SETUP + tests_asm, n, [], TLS_DEFS)
