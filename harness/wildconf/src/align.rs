//! C29: replay into libwild's `Alignment::{new, value, align_up, align_down, align_modulo}`.
//!
//! Point records return the raw result of the real function; the comparison with the TLA+ model's
//! prediction happens in the python check. `sweep` evaluates many seeded random 64-bit inputs here
//! and tests the *characterisation* proved for the model in specs/Align_proofs.tla (multiple of a,
//! not below v, less than a above v; congruent to the reference) with 128-bit arithmetic; it
//! returns counts and the concrete failing inputs (re-verified in python before being reported).
//!
//! ops:  {"op":"new","raw":R}              -> {"ok":bool,"exp":k?,"err":msg?}
//!       {"op":"value","exp":k}            -> {"r":..}
//!       {"op":"up"|"down","exp":k,"v":V}  -> {"r":..}
//!       {"op":"modulo","exp":k,"ref":R,"v":V} -> {"r":..}
//!       {"op":"sweep","exp":k,"n":N,"seed":S} -> {"evaluated":..,"unrepresentable":..,"failures":[..]}

use crate::common::Rng;
use crate::common::get_str;
use crate::common::get_u64;
use libwild::verif_api as api;
use serde_json::Value;
use serde_json::json;

pub fn handle(case: &Value) -> Result<Value, String> {
    let op = get_str(case, "op")?;
    match op {
        "new" => {
            let raw = get_u64(case, "raw")?;
            Ok(match api::alignment_new(raw) {
                Ok(exp) => json!({"ok": true, "exp": exp}),
                Err(e) => json!({"ok": false, "err": e}),
            })
        }
        "value" => Ok(json!({"r": api::alignment_value(exp_of(case)?)})),
        "up" => Ok(json!({"r": api::align_up(exp_of(case)?, get_u64(case, "v")?)})),
        "down" => Ok(json!({"r": api::align_down(exp_of(case)?, get_u64(case, "v")?)})),
        "modulo" => Ok(json!({
            "r": api::align_modulo(exp_of(case)?, get_u64(case, "ref")?, get_u64(case, "v")?)
        })),
        "sweep" => sweep(exp_of(case)?, get_u64(case, "n")?, get_u64(case, "seed")?),
        _ => Err(format!("unknown op `{op}`")),
    }
}

fn exp_of(case: &Value) -> Result<u8, String> {
    let e = get_u64(case, "exp")?;
    if e > 63 {
        return Err(format!("exp {e} out of range"));
    }
    Ok(e as u8)
}

/// Random 64-bit values with a mix of magnitudes (uniform 64-bit values alone would never be small
/// or near a boundary).
fn pick(rng: &mut Rng, a: u64) -> u64 {
    let x = rng.next();
    match rng.next() % 8 {
        0 => x,
        1 => x >> 32,
        2 => x >> 48,
        3 => (x & !(a - 1)).wrapping_add(rng.next() % 3).wrapping_sub(1), // multiple of a, +-1
        4 => u64::MAX - (x >> 44),
        5 => (1u64 << (rng.next() % 64)).wrapping_add(rng.next() % 5).wrapping_sub(2),
        6 => x >> (rng.next() % 64),
        _ => x & 0xFFFF_FFFF_FFFF,
    }
}

fn sweep(exp: u8, n: u64, seed: u64) -> Result<Value, String> {
    let a = 1u128 << exp;
    let a64 = 1u64 << exp;
    let mut rng = Rng(seed ^ (u64::from(exp) << 56));
    let mut failures = Vec::new();
    let mut evaluated = 0u64;
    let mut unrepresentable = 0u64;
    let mut fail = |what: &str, v: u64, r: u64, got: Option<u64>, panic: Option<String>| {
        if failures.len() < 20 {
            failures.push(json!({"what": what, "exp": exp, "v": v, "ref": r, "got": got, "panic": panic}));
        }
    };
    for _ in 0..n {
        let v = pick(&mut rng, a64);
        let r = pick(&mut rng, a64);
        // align_down: always representable
        match crate::common::catch(move || api::align_down(exp, v)) {
            Ok(d) => {
                evaluated += 1;
                let (d, v) = (u128::from(d), u128::from(v));
                if !(d % a == 0 && d <= v && v - d < a) {
                    fail("down", v as u64, 0, Some(d as u64), None);
                }
            }
            Err(p) => fail("down", v, 0, None, Some(p)),
        }
        // align_up: representable iff the mathematical result is < 2^64
        let up_math = u128::from(v).div_ceil(a) * a;
        if up_math > u128::from(u64::MAX) {
            unrepresentable += 1;
            continue;
        }
        match crate::common::catch(move || api::align_up(exp, v)) {
            Ok(u) => {
                evaluated += 1;
                let (u, v) = (u128::from(u), u128::from(v));
                if !(u % a == 0 && u >= v && u - v < a) {
                    fail("up", v as u64, 0, Some(u as u64), None);
                }
            }
            Err(p) => fail("up", v, 0, None, Some(p)),
        }
        // align_modulo: smallest m >= up(v) with m = r (mod a); representable iff < 2^64
        let m_math = up_math + (u128::from(r) % a);
        if m_math > u128::from(u64::MAX) {
            unrepresentable += 1;
            continue;
        }
        match crate::common::catch(move || api::align_modulo(exp, r, v)) {
            Ok(m) => {
                evaluated += 1;
                let m = u128::from(m);
                if !(m >= up_math && m % a == u128::from(r) % a && m - up_math < a) {
                    fail("modulo", v, r, Some(m as u64), None);
                }
            }
            Err(p) => fail("modulo", v, r, None, Some(p)),
        }
    }
    Ok(json!({"evaluated": evaluated, "unrepresentable": unrepresentable, "failures": failures}))
}
