//! Helpers shared by the subcommands.
#![allow(dead_code)]

use serde_json::Value;

/// An integer field: JSON number (u64, or negative i64 taken as two's complement) or "0x.." / decimal
/// string.
pub fn as_u64(v: &Value) -> Result<u64, String> {
    if let Some(u) = v.as_u64() {
        return Ok(u);
    }
    if let Some(i) = v.as_i64() {
        return Ok(i as u64);
    }
    if let Some(s) = v.as_str() {
        let s = s.trim();
        if let Some(neg) = s.strip_prefix('-') {
            return parse_unsigned(neg).map(|u| (u as i64).wrapping_neg() as u64);
        }
        return parse_unsigned(s);
    }
    Err(format!("not an integer: {v}"))
}

fn parse_unsigned(s: &str) -> Result<u64, String> {
    if let Some(h) = s.strip_prefix("0x").or_else(|| s.strip_prefix("0X")) {
        u64::from_str_radix(h, 16).map_err(|e| format!("bad hex `{s}`: {e}"))
    } else {
        s.parse::<u64>().map_err(|e| format!("bad integer `{s}`: {e}"))
    }
}

pub fn get_u64(case: &Value, key: &str) -> Result<u64, String> {
    as_u64(case.get(key).ok_or_else(|| format!("missing field `{key}`"))?)
        .map_err(|e| format!("field `{key}`: {e}"))
}

pub fn get_u64_or(case: &Value, key: &str, default: u64) -> Result<u64, String> {
    match case.get(key) {
        None | Some(Value::Null) => Ok(default),
        Some(v) => as_u64(v).map_err(|e| format!("field `{key}`: {e}")),
    }
}

pub fn get_str<'a>(case: &'a Value, key: &str) -> Result<&'a str, String> {
    case.get(key)
        .and_then(Value::as_str)
        .ok_or_else(|| format!("missing string field `{key}`"))
}

pub fn get_bool_or(case: &Value, key: &str, default: bool) -> bool {
    case.get(key).and_then(Value::as_bool).unwrap_or(default)
}

pub fn get_array<'a>(case: &'a Value, key: &str) -> Result<&'a Vec<Value>, String> {
    case.get(key)
        .and_then(Value::as_array)
        .ok_or_else(|| format!("missing array field `{key}`"))
}

pub fn hex_to_bytes(s: &str) -> Result<Vec<u8>, String> {
    let s = s.trim();
    if s.len() % 2 != 0 {
        return Err(format!("odd-length hex `{s}`"));
    }
    (0..s.len())
        .step_by(2)
        .map(|i| u8::from_str_radix(&s[i..i + 2], 16).map_err(|e| format!("bad hex `{s}`: {e}")))
        .collect()
}

pub fn bytes_to_hex(b: &[u8]) -> String {
    b.iter().map(|x| format!("{x:02x}")).collect()
}

pub fn panic_message(payload: &Box<dyn std::any::Any + Send>) -> String {
    if let Some(s) = payload.downcast_ref::<&str>() {
        (*s).to_string()
    } else if let Some(s) = payload.downcast_ref::<String>() {
        s.clone()
    } else {
        "panic".to_string()
    }
}

/// Runs `f`, turning a panic of the code under test into `Err(message)`.
pub fn catch<T>(f: impl FnOnce() -> T + std::panic::UnwindSafe) -> Result<T, String> {
    std::panic::catch_unwind(f).map_err(|p| panic_message(&p))
}

/// splitmix64: the seeded generator used for the random sweeps (same algorithm on the python side is
/// not needed: sweeps are evaluated entirely in here against the spec-exported tables).
pub struct Rng(pub u64);

impl Rng {
    pub fn next(&mut self) -> u64 {
        self.0 = self.0.wrapping_add(0x9E37_79B9_7F4A_7C15);
        let mut z = self.0;
        z = (z ^ (z >> 30)).wrapping_mul(0xBF58_476D_1CE4_E5B9);
        z = (z ^ (z >> 27)).wrapping_mul(0x94D0_49BB_1331_11EB);
        z ^ (z >> 31)
    }
}
