//! C13: replay into linker-utils' `{AArch64,RiscV,LoongArch64}Instruction::{write_to_value,read_value}`.
//!
//! The field layouts (mask, segments) are NOT known to this file: they arrive in the records,
//! exported by TLC from specs/InsnFields.tla.  An instruction window is carried as a little-endian
//! integer of `bytes` (2, 4 or 8) bytes.
//!
//! {"op":"vector","arch":A,"insn":I,"bytes":n,"word":W,"value":V,"negative":b}
//!    -> {"out":W',"read":[value,negative]}
//! {"op":"sweep","arch":A,"insn":I,"bytes":n,"mask":M,"segs":[[vlo,w,ilo,off],..],"movnz":b,
//!  "vmode":"bits"|"signed","width":k,"valign":a,"init_words":[..],"n_random":N,
//!  "exhaustive_limit":L,"seed":S}
//!    -> {"values":..,"calls":..,"exhaustive":b,"fail":{"local":n,"oblivious":n,"encode":n,
//!        "read_value":n},"examples":{..}}
//!
//! A segment [vlo,w,ilo,off] says: bits vlo..vlo+w-1 of (value + off) (64-bit wrapping) are stored
//! in instruction bits ilo..ilo+w-1.  `movnz`: the MOVN/MOVZ rule (negative -> field holds the
//! inverted bits and bit 30 is 0; otherwise bit 30 is 1; bit 30 belongs to the mask).
//!
//! Sub-properties tested for every (initial word w, value v):
//!   local      bits outside `mask` are unchanged by the write
//!   oblivious  the field content after the write is the same as when the field is cleared first
//!   encode     the field content (written over a cleared field) equals the spec's placement, i.e.
//!              decoding by the ISA layout gives back v
//!   read_value the crate's own `read_value` gives back v on the bits the field covers

use crate::common::Rng;
use crate::common::as_u64;
use crate::common::get_array;
use crate::common::get_bool_or;
use crate::common::get_str;
use crate::common::get_u64;
use crate::common::get_u64_or;
use linker_utils::elf::AArch64Instruction as A;
use linker_utils::elf::LoongArch64Instruction as L;
use linker_utils::elf::RelocationInstruction;
use linker_utils::elf::RiscVInstruction as R;
use serde_json::Value;
use serde_json::json;

fn lookup(arch: &str, insn: &str) -> Result<RelocationInstruction, String> {
    Ok(match (arch, insn) {
        ("aarch64", "Adr") => RelocationInstruction::AArch64(A::Adr),
        ("aarch64", "Movkz") => RelocationInstruction::AArch64(A::Movkz),
        ("aarch64", "Movnz") => RelocationInstruction::AArch64(A::Movnz),
        ("aarch64", "Ldr") => RelocationInstruction::AArch64(A::Ldr),
        ("aarch64", "LdrRegister") => RelocationInstruction::AArch64(A::LdrRegister),
        ("aarch64", "Add") => RelocationInstruction::AArch64(A::Add),
        ("aarch64", "LdSt") => RelocationInstruction::AArch64(A::LdSt),
        ("aarch64", "TstBr") => RelocationInstruction::AArch64(A::TstBr),
        ("aarch64", "Bcond") => RelocationInstruction::AArch64(A::Bcond),
        ("aarch64", "JumpCall") => RelocationInstruction::AArch64(A::JumpCall),
        ("riscv64", "UiType") => RelocationInstruction::RiscV(R::UiType),
        ("riscv64", "UType") => RelocationInstruction::RiscV(R::UType),
        ("riscv64", "IType") => RelocationInstruction::RiscV(R::IType),
        ("riscv64", "SType") => RelocationInstruction::RiscV(R::SType),
        ("riscv64", "BType") => RelocationInstruction::RiscV(R::BType),
        ("riscv64", "JType") => RelocationInstruction::RiscV(R::JType),
        ("riscv64", "CbType") => RelocationInstruction::RiscV(R::CbType),
        ("riscv64", "CjType") => RelocationInstruction::RiscV(R::CjType),
        ("riscv64", "CluiType") => RelocationInstruction::RiscV(R::CluiType),
        ("loongarch64", "Shift5") => RelocationInstruction::LoongArch64(L::Shift5),
        ("loongarch64", "Shift10") => RelocationInstruction::LoongArch64(L::Shift10),
        ("loongarch64", "Branch21") => RelocationInstruction::LoongArch64(L::Branch21),
        ("loongarch64", "Branch26") => RelocationInstruction::LoongArch64(L::Branch26),
        ("loongarch64", "Call30") => RelocationInstruction::LoongArch64(L::Call30),
        ("loongarch64", "Call36") => RelocationInstruction::LoongArch64(L::Call36),
        _ => return Err(format!("unknown instruction {arch}/{insn}")),
    })
}

fn to_bytes(word: u64, bytes: usize) -> [u8; 8] {
    let mut b = word.to_le_bytes();
    for x in &mut b[bytes..] {
        *x = 0;
    }
    b
}

fn from_bytes(b: &[u8; 8], bytes: usize) -> u64 {
    let mut c = *b;
    for x in &mut c[bytes..] {
        *x = 0;
    }
    u64::from_le_bytes(c)
}

fn write(insn: RelocationInstruction, bytes: usize, word: u64, value: u64, negative: bool) -> u64 {
    let mut b = to_bytes(word, bytes);
    insn.write_to_value(value, negative, &mut b[..bytes]);
    from_bytes(&b, bytes)
}

fn read(insn: RelocationInstruction, bytes: usize, word: u64) -> (u64, bool) {
    // read_value documents that it needs at least 4 bytes; give it the whole 8-byte window with the
    // bytes beyond the instruction zeroed.
    let b = to_bytes(word, bytes);
    insn.read_value(&b)
}

#[derive(Clone, Copy)]
struct Seg {
    vlo: u32,
    w: u32,
    ilo: u32,
    off: u64,
}

fn ones(w: u32) -> u64 {
    if w >= 64 { u64::MAX } else { (1u64 << w) - 1 }
}

fn place(segs: &[Seg], movnz: bool, value: u64, negative: bool) -> u64 {
    let v = if movnz && negative { !value } else { value };
    let mut out = 0u64;
    for s in segs {
        out |= ((v.wrapping_add(s.off) >> s.vlo) & ones(s.w)) << s.ilo;
    }
    if movnz && !negative {
        out |= 1 << 30;
    }
    out
}

pub fn handle(case: &Value) -> Result<Value, String> {
    let op = get_str(case, "op")?;
    let insn = lookup(get_str(case, "arch")?, get_str(case, "insn")?)?;
    let bytes = get_u64(case, "bytes")? as usize;
    if !matches!(bytes, 2 | 4 | 8) {
        return Err("bytes must be 2, 4 or 8".into());
    }
    match op {
        "vector" => {
            let word = get_u64(case, "word")?;
            let value = get_u64(case, "value")?;
            let negative = get_bool_or(case, "negative", false);
            let out = write(insn, bytes, word, value, negative);
            let rd = crate::common::catch(move || read(insn, bytes, out));
            Ok(match rd {
                Ok((rv, rn)) => json!({"out": out, "read": [rv, rn]}),
                Err(p) => json!({"out": out, "read_panic": p}),
            })
        }
        "sweep" => sweep(case, insn, bytes),
        _ => Err(format!("unknown op `{op}`")),
    }
}

fn sweep(case: &Value, insn: RelocationInstruction, bytes: usize) -> Result<Value, String> {
    let mask = get_u64(case, "mask")?;
    let movnz = get_bool_or(case, "movnz", false);
    let mut segs = Vec::new();
    for s in get_array(case, "segs")? {
        let a = s.as_array().ok_or("seg must be [vlo,w,ilo,off]")?;
        if a.len() != 4 {
            return Err("seg must be [vlo,w,ilo,off]".into());
        }
        segs.push(Seg {
            vlo: as_u64(&a[0])? as u32,
            w: as_u64(&a[1])? as u32,
            ilo: as_u64(&a[2])? as u32,
            off: as_u64(&a[3])?,
        });
    }
    let signed = match get_str(case, "vmode")? {
        "bits" => false,
        "signed" => true,
        m => return Err(format!("vmode `{m}`")),
    };
    let width = get_u64(case, "width")? as u32;
    if width == 0 || width > 63 {
        return Err("width must be 1..63".into());
    }
    let valign = get_u64_or(case, "valign", 1)?.max(1);
    let init_words: Vec<u64> = get_array(case, "init_words")?
        .iter()
        .map(as_u64)
        .collect::<Result<_, _>>()?;
    let n_random = get_u64_or(case, "n_random", 0)?;
    let limit = get_u64_or(case, "exhaustive_limit", 1 << 16)?;
    let check_read = get_bool_or(case, "read_check", true);
    let mut rng = Rng(get_u64_or(case, "seed", 1)?);
    let word_mask = ones(bytes as u32 * 8);

    let count = (1u64 << width) / valign;
    let exhaustive = count <= limit;
    // i-th in-range value (i in 0..count), as the 64-bit two's complement the writer receives
    let nth = |i: u64| -> u64 {
        if signed {
            ((i * valign) as i64 - (1i64 << (width - 1))) as u64
        } else {
            i * valign
        }
    };

    let mut fail = [0u64; 4];
    let names = ["local", "oblivious", "encode", "read_value"];
    let mut examples: [Vec<Value>; 4] = Default::default();
    let mut calls = 0u64;
    let mut values = 0u64;
    // extra random initial words, per value, in addition to the fixed ones
    let total = if exhaustive { count } else { n_random };
    for i in 0..total {
        let value = if exhaustive { nth(i) } else { nth(rng.next() % count) };
        values += 1;
        let negs: &[bool] = if movnz { &[false, true] } else { &[(value as i64) < 0] };
        for &negative in negs {
            let expected_field = place(&segs, movnz, value, negative) & mask;
            let random_word = rng.next() & word_mask;
            for &w in init_words.iter().chain(std::iter::once(&random_word)) {
                let w = w & word_mask;
                let out = write(insn, bytes, w, value, negative);
                let out0 = write(insn, bytes, w & !mask, value, negative);
                calls += 2;
                let mut record = |k: usize, extra: Value| {
                    fail[k] += 1;
                    if examples[k].len() < 3 {
                        examples[k].push(json!({
                            "word": w, "value": value, "negative": negative, "out": out,
                            "out_cleared_first": out0,
                            "expected": (w & !mask) | expected_field, "detail": extra,
                        }));
                    }
                };
                if (out ^ w) & !mask & word_mask != 0 {
                    record(0, json!({"changed_outside_mask": (out ^ w) & !mask & word_mask}));
                }
                if (out & mask) != (out0 & mask) {
                    record(1, Value::Null);
                }
                if (out0 & mask) != expected_field {
                    record(2, json!({"field_got": out0 & mask, "field_expected": expected_field}));
                }
                if check_read {
                    match crate::common::catch(move || read(insn, bytes, out0)) {
                        Ok((rv, rn)) => {
                            // compare on the value bits the field covers
                            let rv_eff = if movnz && negative { !rv } else { rv };
                            let back = place(&segs, false, rv_eff, false)
                                | if movnz && !rn { 1 << 30 } else { 0 };
                            let back = if movnz { back } else { back & mask };
                            if back & mask != expected_field || (movnz && rn != negative) {
                                record(3, json!({"read": [rv, rn]}));
                            }
                        }
                        Err(p) => record(3, json!({"read_panic": p})),
                    }
                }
            }
        }
    }
    let mut f = serde_json::Map::new();
    let mut e = serde_json::Map::new();
    for k in 0..4 {
        f.insert(names[k].into(), json!(fail[k]));
        if !examples[k].is_empty() {
            e.insert(names[k].into(), Value::Array(std::mem::take(&mut examples[k])));
        }
    }
    Ok(json!({"values": values, "calls": calls, "exhaustive": exhaustive, "fail": f, "examples": e}))
}
