//! wildconf: in-process conformance harness for /verif.
//!
//!   wildconf <subcommand>   reads ndjson case records on stdin, writes one ndjson result per record
//!   wildconf --list         lists subcommands
//!
//! Every result echoes the record's `"id"` (if present). A panic of the code under test is caught
//! per record and reported as `{"id":..,"panic":"<message>"}` — it is data, not a harness failure.
//! A malformed record is a harness failure: message on stderr, exit status 2.
//!
//! Adding a subcommand: create `src/<topic>.rs` with `pub fn handle(case: &Value) -> Result<Value,
//! String>` (one record in, one JSON object out; use the helpers in `common.rs`), declare the
//! module below and add one line to `COMMANDS`.  Integers may be given as JSON numbers (u64 or
//! negative i64, two's complement) or as "0x.." strings; results use plain JSON numbers (u64).

mod align;
mod common;
mod insn;
mod reloc_range;
mod thunks;

use serde_json::Value;
use std::io::BufRead;
use std::io::Write;

type Handler = fn(&Value) -> Result<Value, String>;

const COMMANDS: &[(&str, &str, Handler)] = &[
    ("align", "C29: Alignment::{new,align_up,align_down,align_modulo} via libwild::verif_api", align::handle),
    ("thunks", "C11: thunks::assign_thunk_blocks via libwild::verif_api", thunks::handle),
    ("insn", "C13: {AArch64,RiscV,LoongArch64}Instruction::{write_to_value,read_value} (linker-utils)", insn::handle),
    ("reloc-range", "C12: <arch>::relocation_*_from_raw + RelocationKindInfo::write_to_buffer (linker-utils)", reloc_range::handle),
];

fn main() {
    let args: Vec<String> = std::env::args().collect();
    if args.len() != 2 {
        eprintln!("usage: wildconf <subcommand> | --list   (ndjson on stdin/stdout)");
        std::process::exit(2);
    }
    if args[1] == "--list" {
        for (name, what, _) in COMMANDS {
            println!("{name}\t{what}");
        }
        return;
    }
    let Some((_, _, handler)) = COMMANDS.iter().find(|(n, _, _)| *n == args[1]) else {
        eprintln!("wildconf: unknown subcommand `{}`", args[1]);
        std::process::exit(2);
    };
    // Panics of the code under test are reported in the result record, not on stderr.
    std::panic::set_hook(Box::new(|_| {}));

    let stdin = std::io::stdin();
    let stdout = std::io::stdout();
    let mut out = std::io::BufWriter::new(stdout.lock());
    for (lineno, line) in stdin.lock().lines().enumerate() {
        let line = match line {
            Ok(l) => l,
            Err(e) => {
                eprintln!("wildconf: read error: {e}");
                std::process::exit(2);
            }
        };
        if line.trim().is_empty() {
            continue;
        }
        let case: Value = match serde_json::from_str(&line) {
            Ok(v) => v,
            Err(e) => {
                eprintln!("wildconf: line {}: bad JSON: {e}", lineno + 1);
                std::process::exit(2);
            }
        };
        let id = case.get("id").cloned();
        let result = std::panic::catch_unwind(|| handler(&case));
        let mut obj = match result {
            Ok(Ok(Value::Object(m))) => m,
            Ok(Ok(other)) => {
                let mut m = serde_json::Map::new();
                m.insert("result".into(), other);
                m
            }
            Ok(Err(msg)) => {
                eprintln!("wildconf: line {}: bad record: {msg}", lineno + 1);
                std::process::exit(2);
            }
            Err(payload) => {
                let mut m = serde_json::Map::new();
                m.insert("panic".into(), Value::String(common::panic_message(&payload)));
                m
            }
        };
        if let Some(id) = id {
            obj.insert("id".into(), id);
        }
        if writeln!(out, "{}", Value::Object(obj)).is_err() {
            std::process::exit(2);
        }
    }
    let _ = out.flush();
}
