//! C12: replay into linker-utils' relocation tables and `RelocationKindInfo::write_to_buffer`.
//!
//!   {"arch":"x86_64"|"aarch64"|"riscv64"|"loongarch64","r_type":N,"value":V,"init":"<hex bytes>"?}
//!     -> {"known":false}
//!      | {"known":true,"ok":bool,"err":msg?,"out":"<hex bytes after the call>",
//!         "byte_size":n|null,"bit_range":[lo,hi]|null,"min":i64,"max":i64,"alignment":n}
//!
//! `value` is the already computed relocation value (S+A, S+A-P, ... as the writer would pass it).
//! `init` is the initial content of the 16-byte window the relocation is applied to (default zero).

use crate::common::bytes_to_hex;
use crate::common::get_str;
use crate::common::get_u64;
use crate::common::hex_to_bytes;
use linker_utils::elf::RelocationKindInfo;
use linker_utils::elf::RelocationSize;
use serde_json::Value;
use serde_json::json;

pub fn lookup(arch: &str, r_type: u32) -> Result<Option<RelocationKindInfo>, String> {
    Ok(match arch {
        "x86_64" => linker_utils::x86_64::relocation_from_raw(r_type),
        "aarch64" => linker_utils::aarch64::relocation_type_from_raw(r_type),
        "riscv64" => linker_utils::riscv64::relocation_type_from_raw(r_type),
        "loongarch64" => linker_utils::loongarch64::relocation_type_from_raw(r_type),
        _ => return Err(format!("unknown arch `{arch}`")),
    })
}

pub fn handle(case: &Value) -> Result<Value, String> {
    let arch = get_str(case, "arch")?;
    let r_type = get_u64(case, "r_type")? as u32;
    let value = get_u64(case, "value")?;
    let mut buf = match case.get("init").and_then(Value::as_str) {
        Some(h) => hex_to_bytes(h)?,
        None => vec![0u8; 16],
    };
    let Some(info) = lookup(arch, r_type)? else {
        return Ok(json!({"known": false}));
    };
    let (byte_size, bit_range) = match info.size {
        RelocationSize::ByteSize(n) => (Some(n), None),
        RelocationSize::BitMasking(m) => (None, Some([m.range.start, m.range.end])),
    };
    let res = info.write_to_buffer(value, &mut buf);
    Ok(json!({
        "known": true,
        "ok": res.is_ok(),
        "err": res.err().map(|e| e.to_string()),
        "out": bytes_to_hex(&buf),
        "byte_size": byte_size,
        "bit_range": bit_range,
        "min": info.range.min,
        "max": info.range.max,
        "alignment": info.alignment,
    }))
}
