//! C11: replay into libwild's `thunks::assign_thunk_blocks`, or (records with "parts") into
//! `ThunkLayoutBuilder::compute_non_primary_text_size` + the real output order of executable parts.
//!
//!   {"parts":[[section name, alignment exponent, size],..],"primary":size}
//!     -> {"non_primary_text_size":n,"primary_part":id,"part_ids":[..],"output_order":[part id,..]}
//!
//!   {"objects":[[start,end],..],"range":R}
//!     -> {"num_blocks":n,
//!         "calls":[[object,block,is_owner],..],      every `assign` callback, in call order
//!         "final":[[block,is_owner]|null,..]}        last callback per object (what the linker keeps)

use crate::common::as_u64;
use crate::common::get_array;
use crate::common::get_u64;
use libwild::verif_api as api;
use serde_json::Value;
use serde_json::json;

fn handle_parts(case: &Value) -> Result<Value, String> {
    let mut parts = Vec::new();
    for p in get_array(case, "parts")? {
        let t = p.as_array().ok_or("part must be [name,exponent,size]")?;
        if t.len() != 3 {
            return Err("part must be [name,exponent,size]".into());
        }
        let name = t[0].as_str().ok_or("part name must be a string")?.to_owned();
        parts.push((name, as_u64(&t[1])? as u8, as_u64(&t[2])?));
    }
    let r = api::aarch64_exec_parts(&parts, get_u64(case, "primary")?)?;
    Ok(json!({
        "non_primary_text_size": r.non_primary_text_size,
        "primary_part": r.primary_part,
        "part_ids": r.part_ids,
        "output_order": r.output_order,
    }))
}

pub fn handle(case: &Value) -> Result<Value, String> {
    if case.get("parts").is_some() {
        return handle_parts(case);
    }
    let range = get_u64(case, "range")?;
    let mut objects = Vec::new();
    for o in get_array(case, "objects")? {
        let pair = o.as_array().ok_or("object must be [start,end]")?;
        if pair.len() != 2 {
            return Err("object must be [start,end]".into());
        }
        objects.push((as_u64(&pair[0])?, as_u64(&pair[1])?));
    }
    let (num_blocks, calls) = api::assign_thunk_blocks(&objects, range);
    let mut last: Vec<Value> = vec![Value::Null; objects.len()];
    for c in &calls {
        if c.object >= last.len() {
            return Err(format!("callback for unknown object {}", c.object));
        }
        last[c.object] = json!([c.block, c.is_owner]);
    }
    Ok(json!({
        "num_blocks": num_blocks,
        "calls": calls.iter().map(|c| json!([c.object, c.block, c.is_owner])).collect::<Vec<_>>(),
        "final": last,
    }))
}
