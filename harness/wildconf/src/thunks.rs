//! C11: replay into libwild's `thunks::assign_thunk_blocks`.
//!
//!   {"objects":[[start,end],..],"range":R}
//!     -> {"num_blocks":n,
//!         "calls":[[object,block,is_owner],..],      every `assign` callback, in call order
//!         "final":[[block,is_owner]|null,..]}        last callback per object (what the linker keeps)

use crate::common::as_u64;
use crate::common::get_array;
use crate::common::get_u64;
use libwild::verif_api as api;
use serde_json::Value;
use serde_json::json;

pub fn handle(case: &Value) -> Result<Value, String> {
    let range = get_u64(case, "range")?;
    let mut objects = Vec::new();
    for o in get_array(case, "objects")? {
        let pair = o.as_array().ok_or("object must be [start,end]")?;
        if pair.len() != 2 {
            return Err("object must be [start,end]".into());
        }
        objects.push((as_u64(&pair[0])?, as_u64(&pair[1])?));
    }
    let (num_blocks, calls) = api::assign_thunk_blocks(&objects, range);
    let mut last: Vec<Value> = vec![Value::Null; objects.len()];
    for c in &calls {
        if c.object >= last.len() {
            return Err(format!("callback for unknown object {}", c.object));
        }
        last[c.object] = json!([c.block, c.is_owner]);
    }
    Ok(json!({
        "num_blocks": num_blocks,
        "calls": calls.iter().map(|c| json!([c.object, c.block, c.is_owner])).collect::<Vec<_>>(),
        "final": last,
    }))
}
