------------------------------- MODULE Align -------------------------------
(***************************************************************************)
(* C29 - Alignment arithmetic is exact.                                    *)
(*                                                                         *)
(* Model of libwild/src/alignment.rs over the (unbounded) naturals:        *)
(*   Alignment::new          -> Valid                                      *)
(*   Alignment::align_up     -> AlignUp      (u64::next_multiple_of)       *)
(*   Alignment::align_down   -> AlignDown    (value & !mask)               *)
(*   Alignment::align_modulo -> AlignModulo  (transcribed step by step)    *)
(* and the property the text of C29 states, as characterisations:          *)
(*   IsAlignUp(a,v,u)      u is the smallest multiple of a not below v     *)
(*   IsAlignDown(a,v,d)    d is the largest multiple of a not above v      *)
(*   IsAlignModulo(a,r,v,m) m is the smallest value >= AlignUp(a,v) that   *)
(*                          is congruent to r modulo a                     *)
(* The `Is...` forms are stated twice: with an explicit "least/greatest"   *)
(* quantifier (Least..., what the text says) and quantifier-free (what the *)
(* conformance harness evaluates on 64-bit results and what TLAPS proves   *)
(* in Align_proofs.tla); MCAlign checks with TLC that both forms agree.    *)
(* Mask arithmetic (x & (a-1), x & !(a-1)) is written as % and \div: equal *)
(* for powers of two; that equivalence is covered by the replay into the   *)
(* real functions, not by the model.                                       *)
(***************************************************************************)
EXTENDS Naturals

MaxExp == 16
Pow2(k) == 2^k
Alignments == {Pow2(k) : k \in 0..MaxExp}

(* Alignment::new accepts exactly the powers of two up to 2^16 *)
Valid(raw) == \E k \in 0..MaxExp : raw = Pow2(k)

AlignUp(a, v) == ((v + a - 1) \div a) * a
AlignDown(a, v) == (v \div a) * a

(* fn align_modulo(self, ref_offset, mut offset):
     offset = self.align_up(offset);
     if offset & mask == ref_offset & mask { return offset; }
     let mut adjustment = (ref_offset & mask) + self.value() - (offset & mask);
     if adjustment > self.value() { adjustment -= self.value(); }
     offset + adjustment                                                   *)
AlignModulo(a, r, v) ==
    LET off == AlignUp(a, v)
        om  == off % a
        rm  == r % a
    IN  IF om = rm THEN off
        ELSE LET adj0 == rm + a - om
                 adj  == IF adj0 > a THEN adj0 - a ELSE adj0
             IN  off + adj

-----------------------------------------------------------------------------
(* The property, quantifier-free *)
IsAlignUp(a, v, u)   == u % a = 0 /\ u >= v /\ u - v < a
IsAlignDown(a, v, d) == d % a = 0 /\ d <= v /\ v - d < a
IsAlignModulo(a, r, v, m) ==
    /\ m >= AlignUp(a, v)
    /\ m % a = r % a
    /\ m - AlignUp(a, v) < a

(* The property, as the text states it (bounded quantifier so that TLC can evaluate it;
   a candidate better than the result would have to lie within a of it) *)
LeastAlignUp(a, v, u) ==
    /\ u % a = 0 /\ u >= v
    /\ \A x \in 0..(v + a) : (x % a = 0 /\ x >= v) => x >= u
GreatestAlignDown(a, v, d) ==
    /\ d % a = 0 /\ d <= v
    /\ \A x \in 0..v : (x % a = 0) => x <= d
LeastAlignModulo(a, r, v, m) ==
    /\ m >= AlignUp(a, v) /\ m % a = r % a
    /\ \A x \in 0..(v + 2 * a) : (x >= AlignUp(a, v) /\ x % a = r % a) => x >= m

Correct(a, r, v) ==
    /\ IsAlignUp(a, v, AlignUp(a, v))
    /\ IsAlignDown(a, v, AlignDown(a, v))
    /\ IsAlignModulo(a, r, v, AlignModulo(a, r, v))
=============================================================================
