--------------------------- MODULE Align_proofs ---------------------------
(***************************************************************************)
(* TLAPS proofs for Align.tla (C29): for each of the 17 supported          *)
(* alignments a = 2^k (as a literal: the general non-linear statement does *)
(* not go through the SMT backends, the concrete instances do), for ALL    *)
(* natural numbers v, r (hence all 64-bit values):                         *)
(*   Up_k      AlignUp(a,v) is a multiple of a, >= v, less than a above v  *)
(*   UpLeast_k every multiple of a that is >= v is >= AlignUp(a,v)         *)
(*   Down_k / DownGreatest_k   dually                                      *)
(*   Mod_k     AlignModulo(a,r,v) >= AlignUp(a,v), congruent to r mod a,   *)
(*             less than a above AlignUp(a,v)                              *)
(*   ModLeast_k every x >= AlignUp(a,v) congruent to r is >= AlignModulo   *)
(* Checked with `tlapm Align_proofs.tla` (generated file: do not edit by   *)
(* hand; the generator is in harness/py/checks/c29.py: gen_proofs()).      *)
(***************************************************************************)
EXTENDS Align, TLAPS


THEOREM Up_0 == \A v \in Nat : IsAlignUp(1, v, AlignUp(1, v))
  BY Z3 DEF IsAlignUp, AlignUp
THEOREM UpLeast_0 == \A v \in Nat, x \in Nat : (x % 1 = 0 /\ x >= v) => x >= AlignUp(1, v)
  BY Z3 DEF AlignUp
THEOREM Down_0 == \A v \in Nat : IsAlignDown(1, v, AlignDown(1, v))
  BY Z3 DEF IsAlignDown, AlignDown
THEOREM DownGreatest_0 == \A v \in Nat, x \in Nat : (x % 1 = 0 /\ x <= v) => x <= AlignDown(1, v)
  BY Z3 DEF AlignDown
THEOREM Mod_0 == \A v \in Nat, r \in Nat : IsAlignModulo(1, r, v, AlignModulo(1, r, v))
  BY Z3 DEF IsAlignModulo, AlignModulo, AlignUp
THEOREM ModLeast_0 == \A v \in Nat, r \in Nat, x \in Nat :
    (x >= AlignUp(1, v) /\ x % 1 = r % 1) => x >= AlignModulo(1, r, v)
  BY Z3 DEF AlignModulo, AlignUp

THEOREM Up_1 == \A v \in Nat : IsAlignUp(2, v, AlignUp(2, v))
  BY Z3 DEF IsAlignUp, AlignUp
THEOREM UpLeast_1 == \A v \in Nat, x \in Nat : (x % 2 = 0 /\ x >= v) => x >= AlignUp(2, v)
  BY Z3 DEF AlignUp
THEOREM Down_1 == \A v \in Nat : IsAlignDown(2, v, AlignDown(2, v))
  BY Z3 DEF IsAlignDown, AlignDown
THEOREM DownGreatest_1 == \A v \in Nat, x \in Nat : (x % 2 = 0 /\ x <= v) => x <= AlignDown(2, v)
  BY Z3 DEF AlignDown
THEOREM Mod_1 == \A v \in Nat, r \in Nat : IsAlignModulo(2, r, v, AlignModulo(2, r, v))
  BY Z3 DEF IsAlignModulo, AlignModulo, AlignUp
THEOREM ModLeast_1 == \A v \in Nat, r \in Nat, x \in Nat :
    (x >= AlignUp(2, v) /\ x % 2 = r % 2) => x >= AlignModulo(2, r, v)
  BY Z3 DEF AlignModulo, AlignUp

THEOREM Up_2 == \A v \in Nat : IsAlignUp(4, v, AlignUp(4, v))
  BY Z3 DEF IsAlignUp, AlignUp
THEOREM UpLeast_2 == \A v \in Nat, x \in Nat : (x % 4 = 0 /\ x >= v) => x >= AlignUp(4, v)
  BY Z3 DEF AlignUp
THEOREM Down_2 == \A v \in Nat : IsAlignDown(4, v, AlignDown(4, v))
  BY Z3 DEF IsAlignDown, AlignDown
THEOREM DownGreatest_2 == \A v \in Nat, x \in Nat : (x % 4 = 0 /\ x <= v) => x <= AlignDown(4, v)
  BY Z3 DEF AlignDown
THEOREM Mod_2 == \A v \in Nat, r \in Nat : IsAlignModulo(4, r, v, AlignModulo(4, r, v))
  BY Z3 DEF IsAlignModulo, AlignModulo, AlignUp
THEOREM ModLeast_2 == \A v \in Nat, r \in Nat, x \in Nat :
    (x >= AlignUp(4, v) /\ x % 4 = r % 4) => x >= AlignModulo(4, r, v)
  BY Z3 DEF AlignModulo, AlignUp

THEOREM Up_3 == \A v \in Nat : IsAlignUp(8, v, AlignUp(8, v))
  BY Z3 DEF IsAlignUp, AlignUp
THEOREM UpLeast_3 == \A v \in Nat, x \in Nat : (x % 8 = 0 /\ x >= v) => x >= AlignUp(8, v)
  BY Z3 DEF AlignUp
THEOREM Down_3 == \A v \in Nat : IsAlignDown(8, v, AlignDown(8, v))
  BY Z3 DEF IsAlignDown, AlignDown
THEOREM DownGreatest_3 == \A v \in Nat, x \in Nat : (x % 8 = 0 /\ x <= v) => x <= AlignDown(8, v)
  BY Z3 DEF AlignDown
THEOREM Mod_3 == \A v \in Nat, r \in Nat : IsAlignModulo(8, r, v, AlignModulo(8, r, v))
  BY Z3 DEF IsAlignModulo, AlignModulo, AlignUp
THEOREM ModLeast_3 == \A v \in Nat, r \in Nat, x \in Nat :
    (x >= AlignUp(8, v) /\ x % 8 = r % 8) => x >= AlignModulo(8, r, v)
  BY Z3 DEF AlignModulo, AlignUp

THEOREM Up_4 == \A v \in Nat : IsAlignUp(16, v, AlignUp(16, v))
  BY Z3 DEF IsAlignUp, AlignUp
THEOREM UpLeast_4 == \A v \in Nat, x \in Nat : (x % 16 = 0 /\ x >= v) => x >= AlignUp(16, v)
  BY Z3 DEF AlignUp
THEOREM Down_4 == \A v \in Nat : IsAlignDown(16, v, AlignDown(16, v))
  BY Z3 DEF IsAlignDown, AlignDown
THEOREM DownGreatest_4 == \A v \in Nat, x \in Nat : (x % 16 = 0 /\ x <= v) => x <= AlignDown(16, v)
  BY Z3 DEF AlignDown
THEOREM Mod_4 == \A v \in Nat, r \in Nat : IsAlignModulo(16, r, v, AlignModulo(16, r, v))
  BY Z3 DEF IsAlignModulo, AlignModulo, AlignUp
THEOREM ModLeast_4 == \A v \in Nat, r \in Nat, x \in Nat :
    (x >= AlignUp(16, v) /\ x % 16 = r % 16) => x >= AlignModulo(16, r, v)
  BY Z3 DEF AlignModulo, AlignUp

THEOREM Up_5 == \A v \in Nat : IsAlignUp(32, v, AlignUp(32, v))
  BY Z3 DEF IsAlignUp, AlignUp
THEOREM UpLeast_5 == \A v \in Nat, x \in Nat : (x % 32 = 0 /\ x >= v) => x >= AlignUp(32, v)
  BY Z3 DEF AlignUp
THEOREM Down_5 == \A v \in Nat : IsAlignDown(32, v, AlignDown(32, v))
  BY Z3 DEF IsAlignDown, AlignDown
THEOREM DownGreatest_5 == \A v \in Nat, x \in Nat : (x % 32 = 0 /\ x <= v) => x <= AlignDown(32, v)
  BY Z3 DEF AlignDown
THEOREM Mod_5 == \A v \in Nat, r \in Nat : IsAlignModulo(32, r, v, AlignModulo(32, r, v))
  BY Z3 DEF IsAlignModulo, AlignModulo, AlignUp
THEOREM ModLeast_5 == \A v \in Nat, r \in Nat, x \in Nat :
    (x >= AlignUp(32, v) /\ x % 32 = r % 32) => x >= AlignModulo(32, r, v)
  BY Z3 DEF AlignModulo, AlignUp

THEOREM Up_6 == \A v \in Nat : IsAlignUp(64, v, AlignUp(64, v))
  BY Z3 DEF IsAlignUp, AlignUp
THEOREM UpLeast_6 == \A v \in Nat, x \in Nat : (x % 64 = 0 /\ x >= v) => x >= AlignUp(64, v)
  BY Z3 DEF AlignUp
THEOREM Down_6 == \A v \in Nat : IsAlignDown(64, v, AlignDown(64, v))
  BY Z3 DEF IsAlignDown, AlignDown
THEOREM DownGreatest_6 == \A v \in Nat, x \in Nat : (x % 64 = 0 /\ x <= v) => x <= AlignDown(64, v)
  BY Z3 DEF AlignDown
THEOREM Mod_6 == \A v \in Nat, r \in Nat : IsAlignModulo(64, r, v, AlignModulo(64, r, v))
  BY Z3 DEF IsAlignModulo, AlignModulo, AlignUp
THEOREM ModLeast_6 == \A v \in Nat, r \in Nat, x \in Nat :
    (x >= AlignUp(64, v) /\ x % 64 = r % 64) => x >= AlignModulo(64, r, v)
  BY Z3 DEF AlignModulo, AlignUp

THEOREM Up_7 == \A v \in Nat : IsAlignUp(128, v, AlignUp(128, v))
  BY Z3 DEF IsAlignUp, AlignUp
THEOREM UpLeast_7 == \A v \in Nat, x \in Nat : (x % 128 = 0 /\ x >= v) => x >= AlignUp(128, v)
  BY Z3 DEF AlignUp
THEOREM Down_7 == \A v \in Nat : IsAlignDown(128, v, AlignDown(128, v))
  BY Z3 DEF IsAlignDown, AlignDown
THEOREM DownGreatest_7 == \A v \in Nat, x \in Nat : (x % 128 = 0 /\ x <= v) => x <= AlignDown(128, v)
  BY Z3 DEF AlignDown
THEOREM Mod_7 == \A v \in Nat, r \in Nat : IsAlignModulo(128, r, v, AlignModulo(128, r, v))
  BY Z3 DEF IsAlignModulo, AlignModulo, AlignUp
THEOREM ModLeast_7 == \A v \in Nat, r \in Nat, x \in Nat :
    (x >= AlignUp(128, v) /\ x % 128 = r % 128) => x >= AlignModulo(128, r, v)
  BY Z3 DEF AlignModulo, AlignUp

THEOREM Up_8 == \A v \in Nat : IsAlignUp(256, v, AlignUp(256, v))
  BY Z3 DEF IsAlignUp, AlignUp
THEOREM UpLeast_8 == \A v \in Nat, x \in Nat : (x % 256 = 0 /\ x >= v) => x >= AlignUp(256, v)
  BY Z3 DEF AlignUp
THEOREM Down_8 == \A v \in Nat : IsAlignDown(256, v, AlignDown(256, v))
  BY Z3 DEF IsAlignDown, AlignDown
THEOREM DownGreatest_8 == \A v \in Nat, x \in Nat : (x % 256 = 0 /\ x <= v) => x <= AlignDown(256, v)
  BY Z3 DEF AlignDown
THEOREM Mod_8 == \A v \in Nat, r \in Nat : IsAlignModulo(256, r, v, AlignModulo(256, r, v))
  BY Z3 DEF IsAlignModulo, AlignModulo, AlignUp
THEOREM ModLeast_8 == \A v \in Nat, r \in Nat, x \in Nat :
    (x >= AlignUp(256, v) /\ x % 256 = r % 256) => x >= AlignModulo(256, r, v)
  BY Z3 DEF AlignModulo, AlignUp

THEOREM Up_9 == \A v \in Nat : IsAlignUp(512, v, AlignUp(512, v))
  BY Z3 DEF IsAlignUp, AlignUp
THEOREM UpLeast_9 == \A v \in Nat, x \in Nat : (x % 512 = 0 /\ x >= v) => x >= AlignUp(512, v)
  BY Z3 DEF AlignUp
THEOREM Down_9 == \A v \in Nat : IsAlignDown(512, v, AlignDown(512, v))
  BY Z3 DEF IsAlignDown, AlignDown
THEOREM DownGreatest_9 == \A v \in Nat, x \in Nat : (x % 512 = 0 /\ x <= v) => x <= AlignDown(512, v)
  BY Z3 DEF AlignDown
THEOREM Mod_9 == \A v \in Nat, r \in Nat : IsAlignModulo(512, r, v, AlignModulo(512, r, v))
  BY Z3 DEF IsAlignModulo, AlignModulo, AlignUp
THEOREM ModLeast_9 == \A v \in Nat, r \in Nat, x \in Nat :
    (x >= AlignUp(512, v) /\ x % 512 = r % 512) => x >= AlignModulo(512, r, v)
  BY Z3 DEF AlignModulo, AlignUp

THEOREM Up_10 == \A v \in Nat : IsAlignUp(1024, v, AlignUp(1024, v))
  BY Z3 DEF IsAlignUp, AlignUp
THEOREM UpLeast_10 == \A v \in Nat, x \in Nat : (x % 1024 = 0 /\ x >= v) => x >= AlignUp(1024, v)
  BY Z3 DEF AlignUp
THEOREM Down_10 == \A v \in Nat : IsAlignDown(1024, v, AlignDown(1024, v))
  BY Z3 DEF IsAlignDown, AlignDown
THEOREM DownGreatest_10 == \A v \in Nat, x \in Nat : (x % 1024 = 0 /\ x <= v) => x <= AlignDown(1024, v)
  BY Z3 DEF AlignDown
THEOREM Mod_10 == \A v \in Nat, r \in Nat : IsAlignModulo(1024, r, v, AlignModulo(1024, r, v))
  BY Z3 DEF IsAlignModulo, AlignModulo, AlignUp
THEOREM ModLeast_10 == \A v \in Nat, r \in Nat, x \in Nat :
    (x >= AlignUp(1024, v) /\ x % 1024 = r % 1024) => x >= AlignModulo(1024, r, v)
  BY Z3 DEF AlignModulo, AlignUp

THEOREM Up_11 == \A v \in Nat : IsAlignUp(2048, v, AlignUp(2048, v))
  BY Z3 DEF IsAlignUp, AlignUp
THEOREM UpLeast_11 == \A v \in Nat, x \in Nat : (x % 2048 = 0 /\ x >= v) => x >= AlignUp(2048, v)
  BY Z3 DEF AlignUp
THEOREM Down_11 == \A v \in Nat : IsAlignDown(2048, v, AlignDown(2048, v))
  BY Z3 DEF IsAlignDown, AlignDown
THEOREM DownGreatest_11 == \A v \in Nat, x \in Nat : (x % 2048 = 0 /\ x <= v) => x <= AlignDown(2048, v)
  BY Z3 DEF AlignDown
THEOREM Mod_11 == \A v \in Nat, r \in Nat : IsAlignModulo(2048, r, v, AlignModulo(2048, r, v))
  BY Z3 DEF IsAlignModulo, AlignModulo, AlignUp
THEOREM ModLeast_11 == \A v \in Nat, r \in Nat, x \in Nat :
    (x >= AlignUp(2048, v) /\ x % 2048 = r % 2048) => x >= AlignModulo(2048, r, v)
  BY Z3 DEF AlignModulo, AlignUp

THEOREM Up_12 == \A v \in Nat : IsAlignUp(4096, v, AlignUp(4096, v))
  BY Z3 DEF IsAlignUp, AlignUp
THEOREM UpLeast_12 == \A v \in Nat, x \in Nat : (x % 4096 = 0 /\ x >= v) => x >= AlignUp(4096, v)
  BY Z3 DEF AlignUp
THEOREM Down_12 == \A v \in Nat : IsAlignDown(4096, v, AlignDown(4096, v))
  BY Z3 DEF IsAlignDown, AlignDown
THEOREM DownGreatest_12 == \A v \in Nat, x \in Nat : (x % 4096 = 0 /\ x <= v) => x <= AlignDown(4096, v)
  BY Z3 DEF AlignDown
THEOREM Mod_12 == \A v \in Nat, r \in Nat : IsAlignModulo(4096, r, v, AlignModulo(4096, r, v))
  BY Z3 DEF IsAlignModulo, AlignModulo, AlignUp
THEOREM ModLeast_12 == \A v \in Nat, r \in Nat, x \in Nat :
    (x >= AlignUp(4096, v) /\ x % 4096 = r % 4096) => x >= AlignModulo(4096, r, v)
  BY Z3 DEF AlignModulo, AlignUp

THEOREM Up_13 == \A v \in Nat : IsAlignUp(8192, v, AlignUp(8192, v))
  BY Z3 DEF IsAlignUp, AlignUp
THEOREM UpLeast_13 == \A v \in Nat, x \in Nat : (x % 8192 = 0 /\ x >= v) => x >= AlignUp(8192, v)
  BY Z3 DEF AlignUp
THEOREM Down_13 == \A v \in Nat : IsAlignDown(8192, v, AlignDown(8192, v))
  BY Z3 DEF IsAlignDown, AlignDown
THEOREM DownGreatest_13 == \A v \in Nat, x \in Nat : (x % 8192 = 0 /\ x <= v) => x <= AlignDown(8192, v)
  BY Z3 DEF AlignDown
THEOREM Mod_13 == \A v \in Nat, r \in Nat : IsAlignModulo(8192, r, v, AlignModulo(8192, r, v))
  BY Z3 DEF IsAlignModulo, AlignModulo, AlignUp
THEOREM ModLeast_13 == \A v \in Nat, r \in Nat, x \in Nat :
    (x >= AlignUp(8192, v) /\ x % 8192 = r % 8192) => x >= AlignModulo(8192, r, v)
  BY Z3 DEF AlignModulo, AlignUp

THEOREM Up_14 == \A v \in Nat : IsAlignUp(16384, v, AlignUp(16384, v))
  BY Z3 DEF IsAlignUp, AlignUp
THEOREM UpLeast_14 == \A v \in Nat, x \in Nat : (x % 16384 = 0 /\ x >= v) => x >= AlignUp(16384, v)
  BY Z3 DEF AlignUp
THEOREM Down_14 == \A v \in Nat : IsAlignDown(16384, v, AlignDown(16384, v))
  BY Z3 DEF IsAlignDown, AlignDown
THEOREM DownGreatest_14 == \A v \in Nat, x \in Nat : (x % 16384 = 0 /\ x <= v) => x <= AlignDown(16384, v)
  BY Z3 DEF AlignDown
THEOREM Mod_14 == \A v \in Nat, r \in Nat : IsAlignModulo(16384, r, v, AlignModulo(16384, r, v))
  BY Z3 DEF IsAlignModulo, AlignModulo, AlignUp
THEOREM ModLeast_14 == \A v \in Nat, r \in Nat, x \in Nat :
    (x >= AlignUp(16384, v) /\ x % 16384 = r % 16384) => x >= AlignModulo(16384, r, v)
  BY Z3 DEF AlignModulo, AlignUp

THEOREM Up_15 == \A v \in Nat : IsAlignUp(32768, v, AlignUp(32768, v))
  BY Z3 DEF IsAlignUp, AlignUp
THEOREM UpLeast_15 == \A v \in Nat, x \in Nat : (x % 32768 = 0 /\ x >= v) => x >= AlignUp(32768, v)
  BY Z3 DEF AlignUp
THEOREM Down_15 == \A v \in Nat : IsAlignDown(32768, v, AlignDown(32768, v))
  BY Z3 DEF IsAlignDown, AlignDown
THEOREM DownGreatest_15 == \A v \in Nat, x \in Nat : (x % 32768 = 0 /\ x <= v) => x <= AlignDown(32768, v)
  BY Z3 DEF AlignDown
THEOREM Mod_15 == \A v \in Nat, r \in Nat : IsAlignModulo(32768, r, v, AlignModulo(32768, r, v))
  BY Z3 DEF IsAlignModulo, AlignModulo, AlignUp
THEOREM ModLeast_15 == \A v \in Nat, r \in Nat, x \in Nat :
    (x >= AlignUp(32768, v) /\ x % 32768 = r % 32768) => x >= AlignModulo(32768, r, v)
  BY Z3 DEF AlignModulo, AlignUp

THEOREM Up_16 == \A v \in Nat : IsAlignUp(65536, v, AlignUp(65536, v))
  BY Z3 DEF IsAlignUp, AlignUp
THEOREM UpLeast_16 == \A v \in Nat, x \in Nat : (x % 65536 = 0 /\ x >= v) => x >= AlignUp(65536, v)
  BY Z3 DEF AlignUp
THEOREM Down_16 == \A v \in Nat : IsAlignDown(65536, v, AlignDown(65536, v))
  BY Z3 DEF IsAlignDown, AlignDown
THEOREM DownGreatest_16 == \A v \in Nat, x \in Nat : (x % 65536 = 0 /\ x <= v) => x <= AlignDown(65536, v)
  BY Z3 DEF AlignDown
THEOREM Mod_16 == \A v \in Nat, r \in Nat : IsAlignModulo(65536, r, v, AlignModulo(65536, r, v))
  BY Z3 DEF IsAlignModulo, AlignModulo, AlignUp
THEOREM ModLeast_16 == \A v \in Nat, r \in Nat, x \in Nat :
    (x >= AlignUp(65536, v) /\ x % 65536 = r % 65536) => x >= AlignModulo(65536, r, v)
  BY Z3 DEF AlignModulo, AlignUp

=============================================================================
