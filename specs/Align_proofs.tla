--------------------------- MODULE Align_proofs ---------------------------
(***************************************************************************)
(* TLAPS proofs for Align.tla (C29): for each of the 17 supported          *)
(* alignments a = 2^k (as a literal: the general non-linear statement does *)
(* not go through the SMT backends, the concrete instances do), for ALL    *)
(* natural numbers v, r (hence all 64-bit values):                         *)
(*   Up_k      AlignUp(a,v) is a multiple of a, >= v, less than a above v  *)
(*   UpLeast_k every multiple of a that is >= v is >= AlignUp(a,v)         *)
(*   Down_k / DownGreatest_k   dually                                      *)
(*   Mod_k     AlignModulo(a,r,v) >= AlignUp(a,v), congruent to r mod a,   *)
(*             less than a above AlignUp(a,v)                              *)
(*   ModLeast_k every x >= AlignUp(a,v) congruent to r is >= AlignModulo   *)
(*   (via ModClosed_k: AlignModulo(a,r,v) = AlignUp(a,v) + r % a)          *)
(* Checked with `tlapm Align_proofs.tla` (generated file: do not edit by   *)
(* hand; the generator is in harness/py/checks/c29.py: gen_proofs()).      *)
(***************************************************************************)
EXTENDS Align, TLAPS


THEOREM Up_0 == \A v \in Nat : IsAlignUp(1, v, AlignUp(1, v))
  BY Z3T(60) DEF IsAlignUp, AlignUp
THEOREM UpLeast_0 == \A v \in Nat, x \in Nat : (x % 1 = 0 /\ x >= v) => x >= AlignUp(1, v)
  BY Z3T(60) DEF AlignUp
THEOREM Down_0 == \A v \in Nat : IsAlignDown(1, v, AlignDown(1, v))
  BY Z3T(60) DEF IsAlignDown, AlignDown
THEOREM DownGreatest_0 == \A v \in Nat, x \in Nat : (x % 1 = 0 /\ x <= v) => x <= AlignDown(1, v)
  BY Z3T(60) DEF AlignDown
LEMMA UpNat_0 == \A v \in Nat : AlignUp(1, v) \in Nat /\ AlignUp(1, v) % 1 = 0
  BY Z3T(60) DEF AlignUp
LEMMA ModClosed_0 == \A v \in Nat, r \in Nat : AlignModulo(1, r, v) = AlignUp(1, v) + (r % 1)
  BY UpNat_0, Z3T(60) DEF AlignModulo
THEOREM Mod_0 == \A v \in Nat, r \in Nat : IsAlignModulo(1, r, v, AlignModulo(1, r, v))
<1> TAKE v \in Nat, r \in Nat
<1>1. AlignUp(1, v) \in Nat /\ AlignUp(1, v) % 1 = 0
  BY UpNat_0
<1>2. AlignModulo(1, r, v) = AlignUp(1, v) + (r % 1)
  BY ModClosed_0
<1>3. r % 1 \in 0..0
  BY Z3T(60)
<1>4. (AlignUp(1, v) + (r % 1)) % 1 = r % 1
  BY <1>1, <1>3, Z3T(60)
<1> QED
  BY <1>1, <1>2, <1>3, <1>4, Z3T(60) DEF IsAlignModulo
THEOREM ModLeast_0 == \A v \in Nat, r \in Nat, x \in Nat :
    (x >= AlignUp(1, v) /\ x % 1 = r % 1) => x >= AlignModulo(1, r, v)
  BY UpNat_0, ModClosed_0, Z3T(60)

THEOREM Up_1 == \A v \in Nat : IsAlignUp(2, v, AlignUp(2, v))
  BY Z3T(60) DEF IsAlignUp, AlignUp
THEOREM UpLeast_1 == \A v \in Nat, x \in Nat : (x % 2 = 0 /\ x >= v) => x >= AlignUp(2, v)
  BY Z3T(60) DEF AlignUp
THEOREM Down_1 == \A v \in Nat : IsAlignDown(2, v, AlignDown(2, v))
  BY Z3T(60) DEF IsAlignDown, AlignDown
THEOREM DownGreatest_1 == \A v \in Nat, x \in Nat : (x % 2 = 0 /\ x <= v) => x <= AlignDown(2, v)
  BY Z3T(60) DEF AlignDown
LEMMA UpNat_1 == \A v \in Nat : AlignUp(2, v) \in Nat /\ AlignUp(2, v) % 2 = 0
  BY Z3T(60) DEF AlignUp
LEMMA ModClosed_1 == \A v \in Nat, r \in Nat : AlignModulo(2, r, v) = AlignUp(2, v) + (r % 2)
  BY UpNat_1, Z3T(60) DEF AlignModulo
THEOREM Mod_1 == \A v \in Nat, r \in Nat : IsAlignModulo(2, r, v, AlignModulo(2, r, v))
<1> TAKE v \in Nat, r \in Nat
<1>1. AlignUp(2, v) \in Nat /\ AlignUp(2, v) % 2 = 0
  BY UpNat_1
<1>2. AlignModulo(2, r, v) = AlignUp(2, v) + (r % 2)
  BY ModClosed_1
<1>3. r % 2 \in 0..1
  BY Z3T(60)
<1>4. (AlignUp(2, v) + (r % 2)) % 2 = r % 2
  BY <1>1, <1>3, Z3T(60)
<1> QED
  BY <1>1, <1>2, <1>3, <1>4, Z3T(60) DEF IsAlignModulo
THEOREM ModLeast_1 == \A v \in Nat, r \in Nat, x \in Nat :
    (x >= AlignUp(2, v) /\ x % 2 = r % 2) => x >= AlignModulo(2, r, v)
  BY UpNat_1, ModClosed_1, Z3T(60)

THEOREM Up_2 == \A v \in Nat : IsAlignUp(4, v, AlignUp(4, v))
  BY Z3T(60) DEF IsAlignUp, AlignUp
THEOREM UpLeast_2 == \A v \in Nat, x \in Nat : (x % 4 = 0 /\ x >= v) => x >= AlignUp(4, v)
  BY Z3T(60) DEF AlignUp
THEOREM Down_2 == \A v \in Nat : IsAlignDown(4, v, AlignDown(4, v))
  BY Z3T(60) DEF IsAlignDown, AlignDown
THEOREM DownGreatest_2 == \A v \in Nat, x \in Nat : (x % 4 = 0 /\ x <= v) => x <= AlignDown(4, v)
  BY Z3T(60) DEF AlignDown
LEMMA UpNat_2 == \A v \in Nat : AlignUp(4, v) \in Nat /\ AlignUp(4, v) % 4 = 0
  BY Z3T(60) DEF AlignUp
LEMMA ModClosed_2 == \A v \in Nat, r \in Nat : AlignModulo(4, r, v) = AlignUp(4, v) + (r % 4)
  BY UpNat_2, Z3T(60) DEF AlignModulo
THEOREM Mod_2 == \A v \in Nat, r \in Nat : IsAlignModulo(4, r, v, AlignModulo(4, r, v))
<1> TAKE v \in Nat, r \in Nat
<1>1. AlignUp(4, v) \in Nat /\ AlignUp(4, v) % 4 = 0
  BY UpNat_2
<1>2. AlignModulo(4, r, v) = AlignUp(4, v) + (r % 4)
  BY ModClosed_2
<1>3. r % 4 \in 0..3
  BY Z3T(60)
<1>4. (AlignUp(4, v) + (r % 4)) % 4 = r % 4
  BY <1>1, <1>3, Z3T(60)
<1> QED
  BY <1>1, <1>2, <1>3, <1>4, Z3T(60) DEF IsAlignModulo
THEOREM ModLeast_2 == \A v \in Nat, r \in Nat, x \in Nat :
    (x >= AlignUp(4, v) /\ x % 4 = r % 4) => x >= AlignModulo(4, r, v)
  BY UpNat_2, ModClosed_2, Z3T(60)

THEOREM Up_3 == \A v \in Nat : IsAlignUp(8, v, AlignUp(8, v))
  BY Z3T(60) DEF IsAlignUp, AlignUp
THEOREM UpLeast_3 == \A v \in Nat, x \in Nat : (x % 8 = 0 /\ x >= v) => x >= AlignUp(8, v)
  BY Z3T(60) DEF AlignUp
THEOREM Down_3 == \A v \in Nat : IsAlignDown(8, v, AlignDown(8, v))
  BY Z3T(60) DEF IsAlignDown, AlignDown
THEOREM DownGreatest_3 == \A v \in Nat, x \in Nat : (x % 8 = 0 /\ x <= v) => x <= AlignDown(8, v)
  BY Z3T(60) DEF AlignDown
LEMMA UpNat_3 == \A v \in Nat : AlignUp(8, v) \in Nat /\ AlignUp(8, v) % 8 = 0
  BY Z3T(60) DEF AlignUp
LEMMA ModClosed_3 == \A v \in Nat, r \in Nat : AlignModulo(8, r, v) = AlignUp(8, v) + (r % 8)
  BY UpNat_3, Z3T(60) DEF AlignModulo
THEOREM Mod_3 == \A v \in Nat, r \in Nat : IsAlignModulo(8, r, v, AlignModulo(8, r, v))
<1> TAKE v \in Nat, r \in Nat
<1>1. AlignUp(8, v) \in Nat /\ AlignUp(8, v) % 8 = 0
  BY UpNat_3
<1>2. AlignModulo(8, r, v) = AlignUp(8, v) + (r % 8)
  BY ModClosed_3
<1>3. r % 8 \in 0..7
  BY Z3T(60)
<1>4. (AlignUp(8, v) + (r % 8)) % 8 = r % 8
  BY <1>1, <1>3, Z3T(60)
<1> QED
  BY <1>1, <1>2, <1>3, <1>4, Z3T(60) DEF IsAlignModulo
THEOREM ModLeast_3 == \A v \in Nat, r \in Nat, x \in Nat :
    (x >= AlignUp(8, v) /\ x % 8 = r % 8) => x >= AlignModulo(8, r, v)
  BY UpNat_3, ModClosed_3, Z3T(60)

THEOREM Up_4 == \A v \in Nat : IsAlignUp(16, v, AlignUp(16, v))
  BY Z3T(60) DEF IsAlignUp, AlignUp
THEOREM UpLeast_4 == \A v \in Nat, x \in Nat : (x % 16 = 0 /\ x >= v) => x >= AlignUp(16, v)
  BY Z3T(60) DEF AlignUp
THEOREM Down_4 == \A v \in Nat : IsAlignDown(16, v, AlignDown(16, v))
  BY Z3T(60) DEF IsAlignDown, AlignDown
THEOREM DownGreatest_4 == \A v \in Nat, x \in Nat : (x % 16 = 0 /\ x <= v) => x <= AlignDown(16, v)
  BY Z3T(60) DEF AlignDown
LEMMA UpNat_4 == \A v \in Nat : AlignUp(16, v) \in Nat /\ AlignUp(16, v) % 16 = 0
  BY Z3T(60) DEF AlignUp
LEMMA ModClosed_4 == \A v \in Nat, r \in Nat : AlignModulo(16, r, v) = AlignUp(16, v) + (r % 16)
  BY UpNat_4, Z3T(60) DEF AlignModulo
THEOREM Mod_4 == \A v \in Nat, r \in Nat : IsAlignModulo(16, r, v, AlignModulo(16, r, v))
<1> TAKE v \in Nat, r \in Nat
<1>1. AlignUp(16, v) \in Nat /\ AlignUp(16, v) % 16 = 0
  BY UpNat_4
<1>2. AlignModulo(16, r, v) = AlignUp(16, v) + (r % 16)
  BY ModClosed_4
<1>3. r % 16 \in 0..15
  BY Z3T(60)
<1>4. (AlignUp(16, v) + (r % 16)) % 16 = r % 16
  BY <1>1, <1>3, Z3T(60)
<1> QED
  BY <1>1, <1>2, <1>3, <1>4, Z3T(60) DEF IsAlignModulo
THEOREM ModLeast_4 == \A v \in Nat, r \in Nat, x \in Nat :
    (x >= AlignUp(16, v) /\ x % 16 = r % 16) => x >= AlignModulo(16, r, v)
  BY UpNat_4, ModClosed_4, Z3T(60)

THEOREM Up_5 == \A v \in Nat : IsAlignUp(32, v, AlignUp(32, v))
  BY Z3T(60) DEF IsAlignUp, AlignUp
THEOREM UpLeast_5 == \A v \in Nat, x \in Nat : (x % 32 = 0 /\ x >= v) => x >= AlignUp(32, v)
  BY Z3T(60) DEF AlignUp
THEOREM Down_5 == \A v \in Nat : IsAlignDown(32, v, AlignDown(32, v))
  BY Z3T(60) DEF IsAlignDown, AlignDown
THEOREM DownGreatest_5 == \A v \in Nat, x \in Nat : (x % 32 = 0 /\ x <= v) => x <= AlignDown(32, v)
  BY Z3T(60) DEF AlignDown
LEMMA UpNat_5 == \A v \in Nat : AlignUp(32, v) \in Nat /\ AlignUp(32, v) % 32 = 0
  BY Z3T(60) DEF AlignUp
LEMMA ModClosed_5 == \A v \in Nat, r \in Nat : AlignModulo(32, r, v) = AlignUp(32, v) + (r % 32)
  BY UpNat_5, Z3T(60) DEF AlignModulo
THEOREM Mod_5 == \A v \in Nat, r \in Nat : IsAlignModulo(32, r, v, AlignModulo(32, r, v))
<1> TAKE v \in Nat, r \in Nat
<1>1. AlignUp(32, v) \in Nat /\ AlignUp(32, v) % 32 = 0
  BY UpNat_5
<1>2. AlignModulo(32, r, v) = AlignUp(32, v) + (r % 32)
  BY ModClosed_5
<1>3. r % 32 \in 0..31
  BY Z3T(60)
<1>4. (AlignUp(32, v) + (r % 32)) % 32 = r % 32
  BY <1>1, <1>3, Z3T(60)
<1> QED
  BY <1>1, <1>2, <1>3, <1>4, Z3T(60) DEF IsAlignModulo
THEOREM ModLeast_5 == \A v \in Nat, r \in Nat, x \in Nat :
    (x >= AlignUp(32, v) /\ x % 32 = r % 32) => x >= AlignModulo(32, r, v)
  BY UpNat_5, ModClosed_5, Z3T(60)

THEOREM Up_6 == \A v \in Nat : IsAlignUp(64, v, AlignUp(64, v))
  BY Z3T(60) DEF IsAlignUp, AlignUp
THEOREM UpLeast_6 == \A v \in Nat, x \in Nat : (x % 64 = 0 /\ x >= v) => x >= AlignUp(64, v)
  BY Z3T(60) DEF AlignUp
THEOREM Down_6 == \A v \in Nat : IsAlignDown(64, v, AlignDown(64, v))
  BY Z3T(60) DEF IsAlignDown, AlignDown
THEOREM DownGreatest_6 == \A v \in Nat, x \in Nat : (x % 64 = 0 /\ x <= v) => x <= AlignDown(64, v)
  BY Z3T(60) DEF AlignDown
LEMMA UpNat_6 == \A v \in Nat : AlignUp(64, v) \in Nat /\ AlignUp(64, v) % 64 = 0
  BY Z3T(60) DEF AlignUp
LEMMA ModClosed_6 == \A v \in Nat, r \in Nat : AlignModulo(64, r, v) = AlignUp(64, v) + (r % 64)
  BY UpNat_6, Z3T(60) DEF AlignModulo
THEOREM Mod_6 == \A v \in Nat, r \in Nat : IsAlignModulo(64, r, v, AlignModulo(64, r, v))
<1> TAKE v \in Nat, r \in Nat
<1>1. AlignUp(64, v) \in Nat /\ AlignUp(64, v) % 64 = 0
  BY UpNat_6
<1>2. AlignModulo(64, r, v) = AlignUp(64, v) + (r % 64)
  BY ModClosed_6
<1>3. r % 64 \in 0..63
  BY Z3T(60)
<1>4. (AlignUp(64, v) + (r % 64)) % 64 = r % 64
  BY <1>1, <1>3, Z3T(60)
<1> QED
  BY <1>1, <1>2, <1>3, <1>4, Z3T(60) DEF IsAlignModulo
THEOREM ModLeast_6 == \A v \in Nat, r \in Nat, x \in Nat :
    (x >= AlignUp(64, v) /\ x % 64 = r % 64) => x >= AlignModulo(64, r, v)
  BY UpNat_6, ModClosed_6, Z3T(60)

THEOREM Up_7 == \A v \in Nat : IsAlignUp(128, v, AlignUp(128, v))
  BY Z3T(60) DEF IsAlignUp, AlignUp
THEOREM UpLeast_7 == \A v \in Nat, x \in Nat : (x % 128 = 0 /\ x >= v) => x >= AlignUp(128, v)
  BY Z3T(60) DEF AlignUp
THEOREM Down_7 == \A v \in Nat : IsAlignDown(128, v, AlignDown(128, v))
  BY Z3T(60) DEF IsAlignDown, AlignDown
THEOREM DownGreatest_7 == \A v \in Nat, x \in Nat : (x % 128 = 0 /\ x <= v) => x <= AlignDown(128, v)
  BY Z3T(60) DEF AlignDown
LEMMA UpNat_7 == \A v \in Nat : AlignUp(128, v) \in Nat /\ AlignUp(128, v) % 128 = 0
  BY Z3T(60) DEF AlignUp
LEMMA ModClosed_7 == \A v \in Nat, r \in Nat : AlignModulo(128, r, v) = AlignUp(128, v) + (r % 128)
  BY UpNat_7, Z3T(60) DEF AlignModulo
THEOREM Mod_7 == \A v \in Nat, r \in Nat : IsAlignModulo(128, r, v, AlignModulo(128, r, v))
<1> TAKE v \in Nat, r \in Nat
<1>1. AlignUp(128, v) \in Nat /\ AlignUp(128, v) % 128 = 0
  BY UpNat_7
<1>2. AlignModulo(128, r, v) = AlignUp(128, v) + (r % 128)
  BY ModClosed_7
<1>3. r % 128 \in 0..127
  BY Z3T(60)
<1>4. (AlignUp(128, v) + (r % 128)) % 128 = r % 128
  BY <1>1, <1>3, Z3T(60)
<1> QED
  BY <1>1, <1>2, <1>3, <1>4, Z3T(60) DEF IsAlignModulo
THEOREM ModLeast_7 == \A v \in Nat, r \in Nat, x \in Nat :
    (x >= AlignUp(128, v) /\ x % 128 = r % 128) => x >= AlignModulo(128, r, v)
  BY UpNat_7, ModClosed_7, Z3T(60)

THEOREM Up_8 == \A v \in Nat : IsAlignUp(256, v, AlignUp(256, v))
  BY Z3T(60) DEF IsAlignUp, AlignUp
THEOREM UpLeast_8 == \A v \in Nat, x \in Nat : (x % 256 = 0 /\ x >= v) => x >= AlignUp(256, v)
  BY Z3T(60) DEF AlignUp
THEOREM Down_8 == \A v \in Nat : IsAlignDown(256, v, AlignDown(256, v))
  BY Z3T(60) DEF IsAlignDown, AlignDown
THEOREM DownGreatest_8 == \A v \in Nat, x \in Nat : (x % 256 = 0 /\ x <= v) => x <= AlignDown(256, v)
  BY Z3T(60) DEF AlignDown
LEMMA UpNat_8 == \A v \in Nat : AlignUp(256, v) \in Nat /\ AlignUp(256, v) % 256 = 0
  BY Z3T(60) DEF AlignUp
LEMMA ModClosed_8 == \A v \in Nat, r \in Nat : AlignModulo(256, r, v) = AlignUp(256, v) + (r % 256)
  BY UpNat_8, Z3T(60) DEF AlignModulo
THEOREM Mod_8 == \A v \in Nat, r \in Nat : IsAlignModulo(256, r, v, AlignModulo(256, r, v))
<1> TAKE v \in Nat, r \in Nat
<1>1. AlignUp(256, v) \in Nat /\ AlignUp(256, v) % 256 = 0
  BY UpNat_8
<1>2. AlignModulo(256, r, v) = AlignUp(256, v) + (r % 256)
  BY ModClosed_8
<1>3. r % 256 \in 0..255
  BY Z3T(60)
<1>4. (AlignUp(256, v) + (r % 256)) % 256 = r % 256
  BY <1>1, <1>3, Z3T(60)
<1> QED
  BY <1>1, <1>2, <1>3, <1>4, Z3T(60) DEF IsAlignModulo
THEOREM ModLeast_8 == \A v \in Nat, r \in Nat, x \in Nat :
    (x >= AlignUp(256, v) /\ x % 256 = r % 256) => x >= AlignModulo(256, r, v)
  BY UpNat_8, ModClosed_8, Z3T(60)

THEOREM Up_9 == \A v \in Nat : IsAlignUp(512, v, AlignUp(512, v))
  BY Z3T(60) DEF IsAlignUp, AlignUp
THEOREM UpLeast_9 == \A v \in Nat, x \in Nat : (x % 512 = 0 /\ x >= v) => x >= AlignUp(512, v)
  BY Z3T(60) DEF AlignUp
THEOREM Down_9 == \A v \in Nat : IsAlignDown(512, v, AlignDown(512, v))
  BY Z3T(60) DEF IsAlignDown, AlignDown
THEOREM DownGreatest_9 == \A v \in Nat, x \in Nat : (x % 512 = 0 /\ x <= v) => x <= AlignDown(512, v)
  BY Z3T(60) DEF AlignDown
LEMMA UpNat_9 == \A v \in Nat : AlignUp(512, v) \in Nat /\ AlignUp(512, v) % 512 = 0
  BY Z3T(60) DEF AlignUp
LEMMA ModClosed_9 == \A v \in Nat, r \in Nat : AlignModulo(512, r, v) = AlignUp(512, v) + (r % 512)
  BY UpNat_9, Z3T(60) DEF AlignModulo
THEOREM Mod_9 == \A v \in Nat, r \in Nat : IsAlignModulo(512, r, v, AlignModulo(512, r, v))
<1> TAKE v \in Nat, r \in Nat
<1>1. AlignUp(512, v) \in Nat /\ AlignUp(512, v) % 512 = 0
  BY UpNat_9
<1>2. AlignModulo(512, r, v) = AlignUp(512, v) + (r % 512)
  BY ModClosed_9
<1>3. r % 512 \in 0..511
  BY Z3T(60)
<1>4. (AlignUp(512, v) + (r % 512)) % 512 = r % 512
  BY <1>1, <1>3, Z3T(60)
<1> QED
  BY <1>1, <1>2, <1>3, <1>4, Z3T(60) DEF IsAlignModulo
THEOREM ModLeast_9 == \A v \in Nat, r \in Nat, x \in Nat :
    (x >= AlignUp(512, v) /\ x % 512 = r % 512) => x >= AlignModulo(512, r, v)
  BY UpNat_9, ModClosed_9, Z3T(60)

THEOREM Up_10 == \A v \in Nat : IsAlignUp(1024, v, AlignUp(1024, v))
  BY Z3T(60) DEF IsAlignUp, AlignUp
THEOREM UpLeast_10 == \A v \in Nat, x \in Nat : (x % 1024 = 0 /\ x >= v) => x >= AlignUp(1024, v)
  BY Z3T(60) DEF AlignUp
THEOREM Down_10 == \A v \in Nat : IsAlignDown(1024, v, AlignDown(1024, v))
  BY Z3T(60) DEF IsAlignDown, AlignDown
THEOREM DownGreatest_10 == \A v \in Nat, x \in Nat : (x % 1024 = 0 /\ x <= v) => x <= AlignDown(1024, v)
  BY Z3T(60) DEF AlignDown
LEMMA UpNat_10 == \A v \in Nat : AlignUp(1024, v) \in Nat /\ AlignUp(1024, v) % 1024 = 0
  BY Z3T(60) DEF AlignUp
LEMMA ModClosed_10 == \A v \in Nat, r \in Nat : AlignModulo(1024, r, v) = AlignUp(1024, v) + (r % 1024)
  BY UpNat_10, Z3T(60) DEF AlignModulo
THEOREM Mod_10 == \A v \in Nat, r \in Nat : IsAlignModulo(1024, r, v, AlignModulo(1024, r, v))
<1> TAKE v \in Nat, r \in Nat
<1>1. AlignUp(1024, v) \in Nat /\ AlignUp(1024, v) % 1024 = 0
  BY UpNat_10
<1>2. AlignModulo(1024, r, v) = AlignUp(1024, v) + (r % 1024)
  BY ModClosed_10
<1>3. r % 1024 \in 0..1023
  BY Z3T(60)
<1>4. (AlignUp(1024, v) + (r % 1024)) % 1024 = r % 1024
  BY <1>1, <1>3, Z3T(60)
<1> QED
  BY <1>1, <1>2, <1>3, <1>4, Z3T(60) DEF IsAlignModulo
THEOREM ModLeast_10 == \A v \in Nat, r \in Nat, x \in Nat :
    (x >= AlignUp(1024, v) /\ x % 1024 = r % 1024) => x >= AlignModulo(1024, r, v)
  BY UpNat_10, ModClosed_10, Z3T(60)

THEOREM Up_11 == \A v \in Nat : IsAlignUp(2048, v, AlignUp(2048, v))
  BY Z3T(60) DEF IsAlignUp, AlignUp
THEOREM UpLeast_11 == \A v \in Nat, x \in Nat : (x % 2048 = 0 /\ x >= v) => x >= AlignUp(2048, v)
  BY Z3T(60) DEF AlignUp
THEOREM Down_11 == \A v \in Nat : IsAlignDown(2048, v, AlignDown(2048, v))
  BY Z3T(60) DEF IsAlignDown, AlignDown
THEOREM DownGreatest_11 == \A v \in Nat, x \in Nat : (x % 2048 = 0 /\ x <= v) => x <= AlignDown(2048, v)
  BY Z3T(60) DEF AlignDown
LEMMA UpNat_11 == \A v \in Nat : AlignUp(2048, v) \in Nat /\ AlignUp(2048, v) % 2048 = 0
  BY Z3T(60) DEF AlignUp
LEMMA ModClosed_11 == \A v \in Nat, r \in Nat : AlignModulo(2048, r, v) = AlignUp(2048, v) + (r % 2048)
  BY UpNat_11, Z3T(60) DEF AlignModulo
THEOREM Mod_11 == \A v \in Nat, r \in Nat : IsAlignModulo(2048, r, v, AlignModulo(2048, r, v))
<1> TAKE v \in Nat, r \in Nat
<1>1. AlignUp(2048, v) \in Nat /\ AlignUp(2048, v) % 2048 = 0
  BY UpNat_11
<1>2. AlignModulo(2048, r, v) = AlignUp(2048, v) + (r % 2048)
  BY ModClosed_11
<1>3. r % 2048 \in 0..2047
  BY Z3T(60)
<1>4. (AlignUp(2048, v) + (r % 2048)) % 2048 = r % 2048
  BY <1>1, <1>3, Z3T(60)
<1> QED
  BY <1>1, <1>2, <1>3, <1>4, Z3T(60) DEF IsAlignModulo
THEOREM ModLeast_11 == \A v \in Nat, r \in Nat, x \in Nat :
    (x >= AlignUp(2048, v) /\ x % 2048 = r % 2048) => x >= AlignModulo(2048, r, v)
  BY UpNat_11, ModClosed_11, Z3T(60)

THEOREM Up_12 == \A v \in Nat : IsAlignUp(4096, v, AlignUp(4096, v))
  BY Z3T(60) DEF IsAlignUp, AlignUp
THEOREM UpLeast_12 == \A v \in Nat, x \in Nat : (x % 4096 = 0 /\ x >= v) => x >= AlignUp(4096, v)
  BY Z3T(60) DEF AlignUp
THEOREM Down_12 == \A v \in Nat : IsAlignDown(4096, v, AlignDown(4096, v))
  BY Z3T(60) DEF IsAlignDown, AlignDown
THEOREM DownGreatest_12 == \A v \in Nat, x \in Nat : (x % 4096 = 0 /\ x <= v) => x <= AlignDown(4096, v)
  BY Z3T(60) DEF AlignDown
LEMMA UpNat_12 == \A v \in Nat : AlignUp(4096, v) \in Nat /\ AlignUp(4096, v) % 4096 = 0
  BY Z3T(60) DEF AlignUp
LEMMA ModClosed_12 == \A v \in Nat, r \in Nat : AlignModulo(4096, r, v) = AlignUp(4096, v) + (r % 4096)
  BY UpNat_12, Z3T(60) DEF AlignModulo
THEOREM Mod_12 == \A v \in Nat, r \in Nat : IsAlignModulo(4096, r, v, AlignModulo(4096, r, v))
<1> TAKE v \in Nat, r \in Nat
<1>1. AlignUp(4096, v) \in Nat /\ AlignUp(4096, v) % 4096 = 0
  BY UpNat_12
<1>2. AlignModulo(4096, r, v) = AlignUp(4096, v) + (r % 4096)
  BY ModClosed_12
<1>3. r % 4096 \in 0..4095
  BY Z3T(60)
<1>4. (AlignUp(4096, v) + (r % 4096)) % 4096 = r % 4096
  BY <1>1, <1>3, Z3T(60)
<1> QED
  BY <1>1, <1>2, <1>3, <1>4, Z3T(60) DEF IsAlignModulo
THEOREM ModLeast_12 == \A v \in Nat, r \in Nat, x \in Nat :
    (x >= AlignUp(4096, v) /\ x % 4096 = r % 4096) => x >= AlignModulo(4096, r, v)
  BY UpNat_12, ModClosed_12, Z3T(60)

THEOREM Up_13 == \A v \in Nat : IsAlignUp(8192, v, AlignUp(8192, v))
  BY Z3T(60) DEF IsAlignUp, AlignUp
THEOREM UpLeast_13 == \A v \in Nat, x \in Nat : (x % 8192 = 0 /\ x >= v) => x >= AlignUp(8192, v)
  BY Z3T(60) DEF AlignUp
THEOREM Down_13 == \A v \in Nat : IsAlignDown(8192, v, AlignDown(8192, v))
  BY Z3T(60) DEF IsAlignDown, AlignDown
THEOREM DownGreatest_13 == \A v \in Nat, x \in Nat : (x % 8192 = 0 /\ x <= v) => x <= AlignDown(8192, v)
  BY Z3T(60) DEF AlignDown
LEMMA UpNat_13 == \A v \in Nat : AlignUp(8192, v) \in Nat /\ AlignUp(8192, v) % 8192 = 0
  BY Z3T(60) DEF AlignUp
LEMMA ModClosed_13 == \A v \in Nat, r \in Nat : AlignModulo(8192, r, v) = AlignUp(8192, v) + (r % 8192)
  BY UpNat_13, Z3T(60) DEF AlignModulo
THEOREM Mod_13 == \A v \in Nat, r \in Nat : IsAlignModulo(8192, r, v, AlignModulo(8192, r, v))
<1> TAKE v \in Nat, r \in Nat
<1>1. AlignUp(8192, v) \in Nat /\ AlignUp(8192, v) % 8192 = 0
  BY UpNat_13
<1>2. AlignModulo(8192, r, v) = AlignUp(8192, v) + (r % 8192)
  BY ModClosed_13
<1>3. r % 8192 \in 0..8191
  BY Z3T(60)
<1>4. (AlignUp(8192, v) + (r % 8192)) % 8192 = r % 8192
  BY <1>1, <1>3, Z3T(60)
<1> QED
  BY <1>1, <1>2, <1>3, <1>4, Z3T(60) DEF IsAlignModulo
THEOREM ModLeast_13 == \A v \in Nat, r \in Nat, x \in Nat :
    (x >= AlignUp(8192, v) /\ x % 8192 = r % 8192) => x >= AlignModulo(8192, r, v)
  BY UpNat_13, ModClosed_13, Z3T(60)

THEOREM Up_14 == \A v \in Nat : IsAlignUp(16384, v, AlignUp(16384, v))
  BY Z3T(60) DEF IsAlignUp, AlignUp
THEOREM UpLeast_14 == \A v \in Nat, x \in Nat : (x % 16384 = 0 /\ x >= v) => x >= AlignUp(16384, v)
  BY Z3T(60) DEF AlignUp
THEOREM Down_14 == \A v \in Nat : IsAlignDown(16384, v, AlignDown(16384, v))
  BY Z3T(60) DEF IsAlignDown, AlignDown
THEOREM DownGreatest_14 == \A v \in Nat, x \in Nat : (x % 16384 = 0 /\ x <= v) => x <= AlignDown(16384, v)
  BY Z3T(60) DEF AlignDown
LEMMA UpNat_14 == \A v \in Nat : AlignUp(16384, v) \in Nat /\ AlignUp(16384, v) % 16384 = 0
  BY Z3T(60) DEF AlignUp
LEMMA ModClosed_14 == \A v \in Nat, r \in Nat : AlignModulo(16384, r, v) = AlignUp(16384, v) + (r % 16384)
  BY UpNat_14, Z3T(60) DEF AlignModulo
THEOREM Mod_14 == \A v \in Nat, r \in Nat : IsAlignModulo(16384, r, v, AlignModulo(16384, r, v))
<1> TAKE v \in Nat, r \in Nat
<1>1. AlignUp(16384, v) \in Nat /\ AlignUp(16384, v) % 16384 = 0
  BY UpNat_14
<1>2. AlignModulo(16384, r, v) = AlignUp(16384, v) + (r % 16384)
  BY ModClosed_14
<1>3. r % 16384 \in 0..16383
  BY Z3T(60)
<1>4. (AlignUp(16384, v) + (r % 16384)) % 16384 = r % 16384
  BY <1>1, <1>3, Z3T(60)
<1> QED
  BY <1>1, <1>2, <1>3, <1>4, Z3T(60) DEF IsAlignModulo
THEOREM ModLeast_14 == \A v \in Nat, r \in Nat, x \in Nat :
    (x >= AlignUp(16384, v) /\ x % 16384 = r % 16384) => x >= AlignModulo(16384, r, v)
  BY UpNat_14, ModClosed_14, Z3T(60)

THEOREM Up_15 == \A v \in Nat : IsAlignUp(32768, v, AlignUp(32768, v))
  BY Z3T(60) DEF IsAlignUp, AlignUp
THEOREM UpLeast_15 == \A v \in Nat, x \in Nat : (x % 32768 = 0 /\ x >= v) => x >= AlignUp(32768, v)
  BY Z3T(60) DEF AlignUp
THEOREM Down_15 == \A v \in Nat : IsAlignDown(32768, v, AlignDown(32768, v))
  BY Z3T(60) DEF IsAlignDown, AlignDown
THEOREM DownGreatest_15 == \A v \in Nat, x \in Nat : (x % 32768 = 0 /\ x <= v) => x <= AlignDown(32768, v)
  BY Z3T(60) DEF AlignDown
LEMMA UpNat_15 == \A v \in Nat : AlignUp(32768, v) \in Nat /\ AlignUp(32768, v) % 32768 = 0
  BY Z3T(60) DEF AlignUp
LEMMA ModClosed_15 == \A v \in Nat, r \in Nat : AlignModulo(32768, r, v) = AlignUp(32768, v) + (r % 32768)
  BY UpNat_15, Z3T(60) DEF AlignModulo
THEOREM Mod_15 == \A v \in Nat, r \in Nat : IsAlignModulo(32768, r, v, AlignModulo(32768, r, v))
<1> TAKE v \in Nat, r \in Nat
<1>1. AlignUp(32768, v) \in Nat /\ AlignUp(32768, v) % 32768 = 0
  BY UpNat_15
<1>2. AlignModulo(32768, r, v) = AlignUp(32768, v) + (r % 32768)
  BY ModClosed_15
<1>3. r % 32768 \in 0..32767
  BY Z3T(60)
<1>4. (AlignUp(32768, v) + (r % 32768)) % 32768 = r % 32768
  BY <1>1, <1>3, Z3T(60)
<1> QED
  BY <1>1, <1>2, <1>3, <1>4, Z3T(60) DEF IsAlignModulo
THEOREM ModLeast_15 == \A v \in Nat, r \in Nat, x \in Nat :
    (x >= AlignUp(32768, v) /\ x % 32768 = r % 32768) => x >= AlignModulo(32768, r, v)
  BY UpNat_15, ModClosed_15, Z3T(60)

THEOREM Up_16 == \A v \in Nat : IsAlignUp(65536, v, AlignUp(65536, v))
  BY Z3T(60) DEF IsAlignUp, AlignUp
THEOREM UpLeast_16 == \A v \in Nat, x \in Nat : (x % 65536 = 0 /\ x >= v) => x >= AlignUp(65536, v)
  BY Z3T(60) DEF AlignUp
THEOREM Down_16 == \A v \in Nat : IsAlignDown(65536, v, AlignDown(65536, v))
  BY Z3T(60) DEF IsAlignDown, AlignDown
THEOREM DownGreatest_16 == \A v \in Nat, x \in Nat : (x % 65536 = 0 /\ x <= v) => x <= AlignDown(65536, v)
  BY Z3T(60) DEF AlignDown
LEMMA UpNat_16 == \A v \in Nat : AlignUp(65536, v) \in Nat /\ AlignUp(65536, v) % 65536 = 0
  BY Z3T(60) DEF AlignUp
LEMMA ModClosed_16 == \A v \in Nat, r \in Nat : AlignModulo(65536, r, v) = AlignUp(65536, v) + (r % 65536)
  BY UpNat_16, Z3T(60) DEF AlignModulo
THEOREM Mod_16 == \A v \in Nat, r \in Nat : IsAlignModulo(65536, r, v, AlignModulo(65536, r, v))
<1> TAKE v \in Nat, r \in Nat
<1>1. AlignUp(65536, v) \in Nat /\ AlignUp(65536, v) % 65536 = 0
  BY UpNat_16
<1>2. AlignModulo(65536, r, v) = AlignUp(65536, v) + (r % 65536)
  BY ModClosed_16
<1>3. r % 65536 \in 0..65535
  BY Z3T(60)
<1>4. (AlignUp(65536, v) + (r % 65536)) % 65536 = r % 65536
  BY <1>1, <1>3, Z3T(60)
<1> QED
  BY <1>1, <1>2, <1>3, <1>4, Z3T(60) DEF IsAlignModulo
THEOREM ModLeast_16 == \A v \in Nat, r \in Nat, x \in Nat :
    (x >= AlignUp(65536, v) /\ x % 65536 = r % 65536) => x >= AlignModulo(65536, r, v)
  BY UpNat_16, ModClosed_16, Z3T(60)

=============================================================================
