------------------------------- MODULE Alloc -------------------------------
(***************************************************************************)
(* C23: size accounting.  For every generated part that a relocation site  *)
(* or a symbol resolution contributes to, two INDEPENDENT transcriptions:  *)
(*                                                                         *)
(*   layout side  (what is reserved)                                       *)
(*     SiteAlloc    process_relocation              libwild/src/elf.rs ~4766*)
(*     ResAlloc     allocate_resolution             libwild/src/elf.rs ~1398*)
(*   writer side  (what is consumed)                                       *)
(*     SiteConsume  write_absolute_relocation /                            *)
(*                  write_address_relocation  libwild/src/elf_writer.rs    *)
(*     ResConsume   process_resolution (and process_got_tls_ helpers)  *)
(*                                                                         *)
(* Parts: got, plt_got, rela_plt, rela_general, rela_relative, relr,       *)
(* and eh_frame / eh_frame_hdr (one FDE, see the last section)             *)
(* (counted in entries).  Property: for every case the two sides agree per *)
(* part, so insufficient_allocation / excessive_allocation are unreachable *)
(* (validate_empty).  The site-level case space is Reloc's product extended *)
(* by the parity of the relocation's offset in its input section and the   *)
(* parity of the output address (RELR); the symbol-level space is the      *)
(* product of the ValueFlags bits the two functions look at.               *)
(* Named deviations (defects of the tree, reproduced by the replay):        *)
(*   (relr-parity          RELR chosen by offset parity vs by place parity *)
(*                         - FIXED in the tree; survives only as the       *)
(*                         RelrRule = "old" variant, which TLC must reject)*)
(*   pcrel-interposable-w  non-absolute DIRECT reference to an interposable*)
(*                         symbol from a writable section reserves a       *)
(*                         dynamic relocation that only absolute           *)
(*                         relocations consume                             *)
(*   abs-readonly-nonaddr  absolute relocation from a read-only section to *)
(*                         an import / ifunc in a PI output consumes a     *)
(*                         relative relocation nobody reserved             *)
(***************************************************************************)
EXTENDS Reloc

Parts == {"got", "plt_got", "rela_plt", "rela_general", "rela_relative", "relr"}
Zero == [p \in Parts |-> 0]
Plus(a, b) == [p \in Parts |-> a[p] + b[p]]
One(p) == [Zero EXCEPT ![p] = 1]
N(p, n) == [Zero EXCEPT ![p] = n]

(* ------------------------------------------------------------------ site level *)
CONSTANT RelrRule   \* "code": the rule of the tree (elf::relr_eligible, used by layout AND writer):
                    \*         RELR iff enabled, the offset in the input section is even and the section
                    \*         is at least 2-aligned (which implies an even address);
                    \* "old":  the defect fixed by `fix: decide RELR eligibility the same way at layout and
                    \*         at write time`: layout by offset parity, writer by address parity.  Kept only
                    \*         as a deliberately broken variant that TLC must reject.

(* offpar / addrpar: 0 even, 1 odd.  aligned: the input section's alignment is >= 2.  sibling (old
   rule only): the group of files the writer processes together has another RELR reservation, so
   the writer owns a non-empty RELR table (TableWriter::new filters an empty part out) *)
RelrEligible(offpar, aligned) == offpar = 0 /\ aligned

SiteAlloc(c, offpar, aligned) ==
    LET pr == WProcess(c)
        relr == c.relr /\ (IF RelrRule = "code" THEN RelrEligible(offpar, aligned) ELSE offpar = 0)
    IN IF pr.err # "" THEN Zero
       ELSE IF pr.part = "rela-general" THEN One("rela_general")
       ELSE IF pr.part = "relative" THEN (IF relr THEN One("relr") ELSE One("rela_relative"))
       ELSE Zero

SiteConsume(c, offpar, addrpar, aligned, sibling) ==
    LET w == WWrite(c)
        relr == IF RelrRule = "code" THEN c.relr /\ RelrEligible(offpar, aligned)
                ELSE c.relr /\ (sibling \/ SiteAlloc(c, offpar, aligned)["relr"] > 0) /\ addrpar = 0
    IN IF WProcess(c).err # "" THEN Zero
       ELSE IF w = "rela-general" THEN One("rela_general")
       ELSE IF w = "relative" THEN (IF relr THEN One("relr") ELSE One("rela_relative"))
       ELSE Zero

(* a RELR entry can only describe an even address: the rule must never select an odd place *)
RelrPlaceEven(c, offpar, addrpar, aligned, sibling) ==
    SiteConsume(c, offpar, addrpar, aligned, sibling)["relr"] > 0 => addrpar = 0

SiteAgree(c, offpar, addrpar, aligned, sibling) ==
    SiteAlloc(c, offpar, aligned) = SiteConsume(c, offpar, addrpar, aligned, sibling)

SiteDev(c, offpar, addrpar, aligned, sibling) ==
    IF SiteAgree(c, offpar, addrpar, aligned, sibling) THEN ""
    ELSE IF WProcess(c).part = "relative" /\ WWrite(c) = "relative" THEN "relr-parity"
    ELSE IF WProcess(c).part = "rela-general" /\ WWrite(c) = "" THEN "pcrel-interposable-w"
    ELSE IF WProcess(c).part = "" /\ WWrite(c) = "relative" THEN "abs-readonly-nonaddr"
    ELSE "UNNAMED"
(* deviations still present in the tree; "relr-parity" is no longer one of them *)
OpenDevs == {"pcrel-interposable-w", "abs-readonly-nonaddr"}

(* which direction the writer reports *)
SiteFailure(c, offpar, addrpar, aligned, sibling) ==
    LET a == SiteAlloc(c, offpar, aligned)
        w == SiteConsume(c, offpar, addrpar, aligned, sibling)
    IN IF a = w THEN "none"
       ELSE IF \E p \in Parts : w[p] > a[p] THEN "insufficient" ELSE "excess"

(* ------------------------------------------------------------------ symbol level *)
(* f: record of BOOLEAN ValueFlags bits; o: output kind; relr: BOOLEAN *)
FlagBits == {"dynamic", "absolute", "ifunc", "interposable", "export", "got", "plt",
             "tlsoff", "tlsmod", "tlsdesc", "ifuncgot"}
HasDynSym(f) == f.dynamic \/ (f.export /\ f.interposable)
FAddress(f) == ~f.ifunc /\ ~f.dynamic /\ ~f.absolute
FTls(f) == f.tlsoff \/ f.tlsmod \/ f.tlsdesc

RelOrRelr(relr) == IF relr THEN One("relr") ELSE One("rela_relative")

ResAlloc(f, o, relr) ==
    LET a1 == IF f.got /\ ~FTls(f) THEN
                  Plus(Plus(One("got"), IF f.plt THEN One("plt_got") ELSE Zero),
                       IF f.ifunc THEN One("rela_plt")
                       ELSE IF HasDynSym(f) THEN One("rela_general")
                       ELSE IF FAddress(f) /\ PI(o) THEN RelOrRelr(relr) ELSE Zero)
              ELSE Zero
        a2 == IF f.ifuncgot THEN Plus(One("got"), IF PI(o) THEN RelOrRelr(relr) ELSE Zero) ELSE Zero
        a3 == IF f.tlsoff THEN Plus(One("got"), IF f.interposable \/ o = "shared" THEN One("rela_general") ELSE Zero)
              ELSE Zero
        a4 == IF f.tlsmod THEN Plus(N("got", 2),
                                    Plus(IF ~Exe(o) \/ f.dynamic THEN One("rela_general") ELSE Zero,
                                         IF HasDynSym(f) THEN One("rela_general") ELSE Zero))
              ELSE Zero
        a5 == IF f.tlsdesc THEN Plus(N("got", 2), One("rela_general")) ELSE Zero
    IN Plus(a1, Plus(a2, Plus(a3, Plus(a4, a5))))

(* process_resolution: returns early when the resolution has no GOT address *)
HasGotAddress(f) == f.got \/ FTls(f)
ResConsume(f, o, relr) ==
    IF ~HasGotAddress(f) THEN Zero
    ELSE IF FTls(f) THEN
        LET c3 == IF f.tlsoff THEN
                     Plus(One("got"),
                          IF f.dynamic \/ (f.export /\ f.interposable) THEN One("rela_general")
                          ELSE IF Exe(o) THEN Zero ELSE One("rela_general"))
                  ELSE Zero
            c4 == IF f.tlsmod THEN
                     Plus(N("got", 2),
                          Plus(IF Exe(o) /\ ~f.dynamic THEN Zero ELSE One("rela_general"),
                               IF HasDynSym(f) /\ f.interposable THEN One("rela_general") ELSE Zero))
                  ELSE Zero
            c5 == IF f.tlsdesc THEN Plus(N("got", 2), One("rela_general")) ELSE Zero
        IN Plus(c3, Plus(c4, c5))
    ELSE
        LET c1 == Plus(One("got"),
                       IF f.dynamic \/ ((f.export /\ f.interposable) /\ ~f.ifunc) THEN One("rela_general")
                       ELSE IF f.ifunc THEN One("rela_plt")
                       ELSE IF FAddress(f) /\ PI(o) THEN RelOrRelr(relr) ELSE Zero)
            c2 == IF f.plt THEN One("plt_got") ELSE Zero
            c6 == IF f.ifuncgot THEN Plus(One("got"), IF PI(o) THEN RelOrRelr(relr) ELSE Zero) ELSE Zero
        IN Plus(c1, Plus(c2, c6))

(* flag combinations the layout can produce *)
ReachableFlags(f, o) ==
    /\ f.plt => f.got
    /\ FTls(f) => ~(f.got \/ f.plt \/ f.ifunc \/ f.ifuncgot \/ f.absolute)
    /\ f.ifuncgot => (f.ifunc /\ f.got)
    /\ f.ifunc => ~(f.dynamic \/ f.absolute)
    /\ f.dynamic => (f.interposable /\ Dyn(o))
    /\ f.interposable => (f.dynamic \/ o = "shared")
    /\ (f.interposable /\ ~f.dynamic) => f.export      \* an interposable definition is exported
    /\ f.ifuncgot => ~PI(o) \/ TRUE
    /\ (f.tlsmod /\ f.dynamic) => TRUE
    /\ (f.tlsdesc /\ o \in {"static", "staticpie"}) => FALSE   \* rejected with a diagnostic

ResAgree(f, o, relr) == ResAlloc(f, o, relr) = ResConsume(f, o, relr)

(* ------------------------------------------------------------------ .eh_frame / .eh_frame_hdr *)
(* One FDE of an input .eh_frame whose pc-begin designates input section T.
   loaded: T is part of the output (not garbage collected / discarded): it has an address.
   empty:  T has sh_size = 0 (gcc: a function whose body is __builtin_unreachable(); assembly:
           .cfi_startproc / .cfi_endproc around nothing).
   layout side  ObjectLayoutState::load_section calls Elf::non_empty_section_loaded, which reserves
                the FDE's bytes in .eh_frame and its .eh_frame_hdr entry, only `if section.size > 0`;
   writer side  write_eh_frame_relocations keeps the FDE iff T has an address AND T.sh_size != 0.
   EhRule = "code" is that pair; "ignore-empty" is the writer without the size test (a loaded but
   empty section still has an address): it needs space nobody reserved.  Kept as a variant TLC must
   reject. *)
CONSTANT EhRule
EhParts == {"eh_frame", "eh_frame_hdr"}
EhAlloc(loaded, empty, hdr) ==
    [p \in EhParts |-> IF loaded /\ ~empty /\ (p = "eh_frame" \/ hdr) THEN 1 ELSE 0]
EhKeep(loaded, empty) == IF EhRule = "code" THEN loaded /\ ~empty ELSE loaded
EhConsume(loaded, empty, hdr) ==
    [p \in EhParts |-> IF EhKeep(loaded, empty) /\ (p = "eh_frame" \/ hdr) THEN 1 ELSE 0]
EhAgree(loaded, empty, hdr) == EhAlloc(loaded, empty, hdr) = EhConsume(loaded, empty, hdr)
=============================================================================
