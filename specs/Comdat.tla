------------------------------- MODULE Comdat -------------------------------
(***************************************************************************)
(* COMDAT section groups in symbol resolution (C02, extension of SymRes).  *)
(*                                                                         *)
(* ELF gABI, "Section groups": a group section with GRP_COMDAT is          *)
(* identified by its signature symbol name; when several loaded files      *)
(* carry a COMDAT group with the same signature the linker keeps exactly   *)
(* ONE of them - the first it meets - and discards the others TOGETHER     *)
(* WITH ALL THEIR MEMBER SECTIONS.  A global symbol defined in a discarded *)
(* member section is not a definition any more: in its own file it becomes *)
(* an undefined reference of the same binding.                             *)
(*                                                                         *)
(* Input: a sequence of files in command-line order, kind obj | member     *)
(* (a lazily extracted archive member), and a content                      *)
(*   ref / refh   only a caller: references f, fd (non-weak) and h (weak / *)
(*                non-weak)                                                *)
(*   g1s / g1w    COMDAT group, signature f, VARIANT 1: member sections    *)
(*                defining f and fd; symbols strong / weak (C++ inline)    *)
(*   g2s / g2w    COMDAT group, same signature, VARIANT 2: f and fd with   *)
(*                other sizes AND a third member section defining h        *)
(*   ngs / ngw    f and fd defined outside any group, strong / weak        *)
(* Every file also has the caller (outside any group), so a file whose     *)
(* group is discarded still references f, fd, h from its kept sections.    *)
(*                                                                         *)
(* Part 1  THE RULE    Scan = the sequential reading of the command line   *)
(*         (lazy members, extraction on a non-weak reference) in which a   *)
(*         file's group is kept iff no group with that signature was kept  *)
(*         before; Rule = ELF binding on the loaded files where symbols of *)
(*         discarded groups do not count.  Declaratively: kept group =     *)
(*         FIRST LOADED FILE IN COMMAND-LINE ORDER carrying the signature  *)
(*         (theorem ThOrder; unextracted members do not count).            *)
(* Part 2  wild AS CODED (libwild/src/symbol_db.rs): there is NO group     *)
(*         contest.  Every global symbol is resolved on its own: name      *)
(*         table (first definition in file order owns the name), archive   *)
(*         activation, select_symbol (first strong, else first weak, among *)
(*         LOADED definitions in file order - populate_symbol_db walks the *)
(*         input groups in order inside each bucket, so the choice is      *)
(*         order based, not timing based), and the duplicate check is      *)
(*         skipped for a pair of strong definitions that both sit in       *)
(*         SHF_GROUP sections (is_in_comdat_group; the signature is never  *)
(*         looked at).  The section of a losing definition is not          *)
(*         discarded; it only disappears when --gc-sections finds it       *)
(*         unreferenced.  These deviations are QUIRKS that can be switched *)
(*         off; with all of them off the model is the design that          *)
(*         implements the rule (ThDesign).                                 *)
(***************************************************************************)
EXTENDS Integers, Sequences, FiniteSets, TLC

CONSTANTS ConfigSpace,   \* set of candidate file sequences
          Broken         \* "none", or the name of a deliberately wrong reading of the rule (anti-vacuity)

Names == <<"f", "fd", "h">>
NameSet == {"f", "fd", "h"}
AllQuirks == {"noGroups", "weakZero", "keepBytes"}

IsGroup(c) == c \in {"g1s", "g1w", "g2s", "g2w"}
Variant(c) == CASE c \in {"g1s", "g1w"} -> 1 [] c \in {"g2s", "g2w"} -> 2 [] c \in {"ngs", "ngw"} -> 3 [] OTHER -> 0
DefNames(c) == CASE Variant(c) = 2 -> {"f", "fd", "h"} [] Variant(c) \in {1, 3} -> {"f", "fd"} [] OTHER -> {}
WeakC(c) == c \in {"g1w", "g2w", "ngw"}

FIdx(fs) == 1..Len(fs)
C(fs, i) == fs[i].c
IsMember(fs, i) == fs[i].kind = "member"
MinOf(S) == CHOOSE i \in S : \A j \in S : i <= j
Min0(S) == IF S = {} THEN 0 ELSE MinOf(S)
Carriers(fs, L) == {i \in L : IsGroup(C(fs, i))}

(* How file i refers to name n.  disc: i's group is discarded.
   "own"    i defines n and the definition counts
   "strong" a non-weak undefined reference   "weak" a weak undefined reference *)
RefKind(fs, i, n, disc) ==
    IF n \in DefNames(C(fs, i))
    THEN (IF IsGroup(C(fs, i)) /\ disc THEN (IF WeakC(C(fs, i)) THEN "weak" ELSE "strong") ELSE "own")
    ELSE IF n = "h" /\ C(fs, i) # "refh" THEN "weak" ELSE "strong"

-----------------------------------------------------------------------------
(* Part 1a: Scan.  State: ld loaded files, kept the file whose group is kept (0: none yet),
   defd names that have a definition, und names referenced non-weakly and still undefined,
   lazy[n] the unextracted member that would define n (0: none). *)
ScanInit == [ld |-> {}, kept |-> 0, defd |-> {}, und |-> {}, lazy |-> [n \in NameSet |-> 0]]

RECURSIVE Visit(_, _, _), VisitRefs(_, _, _, _, _)
Visit(st, fs, i) ==
    IF i \in st.ld THEN st
    ELSE LET c == C(fs, i)
             keeps == IsGroup(c) /\ st.kept = 0
             disc == IsGroup(c) /\ st.kept # 0
             newdefs == IF disc THEN {} ELSE DefNames(c)
             st1 == [st EXCEPT !.ld = @ \cup {i}, !.kept = IF keeps THEN i ELSE @,
                               !.defd = @ \cup newdefs, !.und = @ \ newdefs]
         IN VisitRefs(st1, fs, i, disc, 1)
VisitRefs(st, fs, i, disc, k) ==
    IF k > Len(Names) THEN st
    ELSE LET n == Names[k]
             st2 == IF RefKind(fs, i, n, disc) # "strong" \/ n \in st.defd THEN st
                    ELSE IF st.lazy[n] # 0 /\ st.lazy[n] \notin st.ld
                         THEN LET s3 == Visit(st, fs, st.lazy[n])     \* extract the member now
                              IN IF n \in s3.defd THEN s3 ELSE [s3 EXCEPT !.und = @ \cup {n}]
                    ELSE [st EXCEPT !.und = @ \cup {n}]
         IN VisitRefs(st2, fs, i, disc, k + 1)

(* a member is met: the archive's symbol table lists every global definition, inside a group or not *)
RECURSIVE MeetLazy(_, _, _, _)
MeetLazy(st, fs, i, k) ==
    IF k > Len(Names) \/ i \in st.ld THEN st
    ELSE LET n == Names[k]
             st2 == IF n \notin DefNames(C(fs, i)) THEN st
                    ELSE IF n \in st.und THEN Visit(st, fs, i)
                    ELSE IF n \notin st.defd /\ st.lazy[n] = 0 THEN [st EXCEPT !.lazy[n] = i]
                    ELSE st
         IN MeetLazy(st2, fs, i, k + 1)

RECURSIVE ScanFrom(_, _, _)
ScanFrom(st, fs, i) ==
    IF i > Len(fs) THEN st
    ELSE ScanFrom(IF IsMember(fs, i) THEN MeetLazy(st, fs, i, 1) ELSE Visit(st, fs, i), fs, i + 1)
Scan(fs) == ScanFrom(ScanInit, fs, 1)

(* Part 1b: the declarative reading.  Kept group = first LOADED file in command-line order that
   carries the signature.  (Broken readings: every carrier on the command line counts, loaded or
   not / the last loaded carrier wins.) *)
KeptByOrder(fs, L) ==
    CASE Broken = "countUnloaded" -> Min0(Carriers(fs, FIdx(fs)))
      [] Broken = "lastWins" -> (IF Carriers(fs, L) = {} THEN 0 ELSE CHOOSE i \in Carriers(fs, L) : \A j \in Carriers(fs, L) : j <= i)
      [] OTHER -> Min0(Carriers(fs, L))
Discarded(fs, L, K) == {i \in Carriers(fs, L) : i # K}

(* the definition of n in file i counts *)
Counts(fs, K, i, n) == n \in DefNames(C(fs, i)) /\ (IsGroup(C(fs, i)) => i = K)
StrongsIn(fs, S, n) == {i \in S : ~WeakC(C(fs, i))}
(* strong beats weak, the first in command-line order among equals; 0: undefined *)
Pick(fs, S) == IF {i \in S : ~WeakC(C(fs, i))} # {} THEN MinOf({i \in S : ~WeakC(C(fs, i))}) ELSE Min0(S)

RuleDefs(fs, L, K, n) == {i \in L : Counts(fs, K, i, n)}
RuleTarget(fs, L, K, n) == Pick(fs, RuleDefs(fs, L, K, n))
RuleDuplicate(fs, L, K) == \E n \in NameSet : Cardinality(StrongsIn(fs, RuleDefs(fs, L, K, n), n)) >= 2
RuleUndefined(fs, L, K) ==
    \E n \in NameSet : RuleTarget(fs, L, K, n) = 0 /\ \E i \in L : RefKind(fs, i, n, i \in Discarded(fs, L, K)) = "strong"

TStr(t) == IF t = 0 THEN "zero" ELSE "d" \o ToString(t)
KeyStr(i, n) == ToString(i) \o ":" \o n
Keys(L) == {KeyStr(i, n) : i \in L, n \in NameSet}
(* leak: definitions (file:name) whose bytes are in the output although they are not part of the link *)
Outcome(fs, L, K, dup, undef, T(_, _), leakGc, leakNoGc) ==
    LET err == IF dup THEN "duplicate" ELSE IF undef THEN "undefined" ELSE "none"
    IN [error |-> err, loaded |-> L, kept |-> K, discarded |-> Discarded(fs, L, K),
        bind |-> IF err # "none" THEN [k \in {} |-> ""]
                 ELSE [s \in Keys(L) |-> LET p == CHOOSE p \in L \X NameSet : KeyStr(p[1], p[2]) = s IN TStr(T(p[1], p[2]))],
        leakGc |-> IF err # "none" THEN {} ELSE leakGc, leakNoGc |-> IF err # "none" THEN {} ELSE leakNoGc]

RuleOutcome(fs, L, K) ==
    LET T(i, n) == RuleTarget(fs, L, K, n)
    IN Outcome(fs, L, K, RuleDuplicate(fs, L, K), RuleUndefined(fs, L, K), T, {}, {})

-----------------------------------------------------------------------------
(* Part 2: wild.  Q = the quirks switched on. *)
Owner(fs, n) == Min0({i \in FIdx(fs) : n \in DefNames(C(fs, i))})      \* the name table
(* the group contest of the design: first loaded carrier in file order *)
WKept(fs, L) == Min0(Carriers(fs, L))
WDisc(fs, Q, L, i) == "noGroups" \notin Q /\ i \in Discarded(fs, L, WKept(fs, L))
(* resolve_symbol: loaded file i requests the owner of every name it references non-weakly *)
WRequests(fs, Q, L, i) ==
    {Owner(fs, n) : n \in {m \in NameSet : RefKind(fs, i, m, WDisc(fs, Q, L, i)) = "strong"}} \ {0}
RECURSIVE WLfp(_, _, _)
WLfp(fs, Q, L) ==
    LET N == L \cup UNION {WRequests(fs, Q, L, i) : i \in L}
    IN IF N = L THEN L ELSE WLfp(fs, Q, N)
WLoaded(fs, Q) == WLfp(fs, Q, {i \in FIdx(fs) : ~IsMember(fs, i)})

WDefs(fs, Q, L, n) ==
    {i \in L : n \in DefNames(C(fs, i)) /\ ("noGroups" \in Q \/ Counts(fs, WKept(fs, L), i, n))}
WSelected(fs, Q, L, n) == Pick(fs, WDefs(fs, Q, L, n))
(* select_symbol: every later strong definition is compared with the FIRST strong one; the pair is
   excused when both are in SHF_GROUP sections *)
WDuplicate(fs, Q, L) ==
    \E n \in NameSet :
        LET S == StrongsIn(fs, WDefs(fs, Q, L, n), n)
        IN Cardinality(S) >= 2 /\
           ("noGroups" \in Q => \E j \in S \ {MinOf(S)} : ~(IsGroup(C(fs, MinOf(S))) /\ IsGroup(C(fs, j))))
(* 0: undefined reference (error), -1: undefined weak (zero) *)
WTarget(fs, Q, L, i, n) ==
    LET rk == RefKind(fs, i, n, WDisc(fs, Q, L, i))
        sel == WSelected(fs, Q, L, n)
    IN IF rk = "own" THEN sel
       ELSE IF rk = "weak" THEN (IF sel = 0 \/ ("weakZero" \in Q /\ Owner(fs, n) \notin L) THEN -1 ELSE sel)
       ELSE sel
WUndefined(fs, Q, L) == \E i \in L, n \in NameSet : WTarget(fs, Q, L, i, n) = 0
(* bytes of member sections of a losing group that reach the output: the sections whose symbol was
   selected, and (quirk keepBytes) every other one too unless --gc-sections finds it unreferenced (each
   loaded file's caller references the SELECTED f, fd and h, nothing else references a member section) *)
WLeak(fs, Q, L, gc) ==
    {KeyStr(p[1], p[2]) : p \in {q \in L \X NameSet :
        /\ IsGroup(C(fs, q[1])) /\ q[1] # WKept(fs, L) /\ q[2] \in DefNames(C(fs, q[1]))
        /\ (WSelected(fs, Q, L, q[2]) = q[1] \/ ("keepBytes" \in Q /\ ~gc))}}
WOutcome(fs, Q) ==
    LET L == WLoaded(fs, Q)
        T(i, n) == LET t == WTarget(fs, Q, L, i, n) IN IF t = -1 THEN 0 ELSE t
    IN Outcome(fs, L, WKept(fs, L), WDuplicate(fs, Q, L), WUndefined(fs, Q, L), T,
               WLeak(fs, Q, L, TRUE), WLeak(fs, Q, L, FALSE))

QuirkCauses(fs, model) == {q \in AllQuirks : WOutcome(fs, AllQuirks \ {q}) # model}

-----------------------------------------------------------------------------
(* Classes in which the linkers legitimately differ (not decided by the rule):
   loadDiv   the sequential reading and wild's name-table fixpoint load different files (the
             "shadowed lazy definition" matter recorded under C03, or a member that only a
             symbol of a discarded group asks for)
   timeOrder a member that precedes the kept carrier on the command line is extracted after it *)
Analysis(fs) ==
    LET st == Scan(fs)
        L == st.ld
        rule == RuleOutcome(fs, L, st.kept)
        design == WOutcome(fs, {})
        model == WOutcome(fs, AllQuirks)
        timeOrder == st.kept # Min0(Carriers(fs, L))
    IN [rule |-> rule, model |-> model, causes |-> QuirkCauses(fs, model),
        loadDiv |-> model.loaded # L, timeOrder |-> timeOrder,
        (* the kept group is the first loaded carrier in command-line order *)
        thOrder |-> timeOrder \/ st.kept = KeptByOrder(fs, L),
        (* exactly one group of the signature is kept when a loaded file carries one; all others are discarded whole *)
        thOne |-> (Carriers(fs, L) # {} <=> st.kept # 0) /\ (st.kept # 0 => st.kept \in Carriers(fs, L))
                  /\ rule.discarded = Carriers(fs, L) \ {st.kept},
        (* no reference of a successful link is bound to a definition in a discarded group or an unloaded file *)
        thNoMix |-> rule.error = "none" =>
                        \A k \in DOMAIN rule.bind : rule.bind[k] = "zero" \/
                            \E i \in L \ rule.discarded : rule.bind[k] = TStr(i),
        (* the design (all quirks off) implements the rule wherever both load the same files in order *)
        thDesign |-> (design.loaded = L /\ ~timeOrder) => design = rule]

VARIABLES files, phase
vars == <<files, phase>>
Init == files \in ConfigSpace /\ phase = "start"
Evaluate == phase = "start" /\ phase' = "done" /\ UNCHANGED files
Next == Evaluate
Spec == Init /\ [][Next]_vars
TypeOK == phase \in {"start", "done"}
Theorems(an) ==
    /\ Assert(an.thOrder, <<"ThOrder fails", files>>)
    /\ Assert(an.thOne, <<"ThOne fails", files>>)
    /\ Assert(an.thNoMix, <<"ThNoMix fails", files, an.rule>>)
    /\ Assert(an.thDesign, <<"ThDesign fails", files, an.rule>>)
=============================================================================
