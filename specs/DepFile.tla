------------------------------ MODULE DepFile ------------------------------
(***************************************************************************)
(* C25 - the dependency file lists exactly the files the link read.        *)
(*                                                                         *)
(* A link command is the fixed object o1 followed by a sequence of items   *)
(* (objects, a second spelling of an object, archive, thin archive, a thin *)
(* member given directly, shared object, linker scripts that name further  *)
(* inputs and scripts, -l library found through -L, --version-script,      *)
(* --dynamic-list, --export-dynamic-symbol-list, --retain-symbols-file).   *)
(*                                                                         *)
(*   Read(cmd)   the declarative rule: the set of non-temporary files      *)
(*               whose contents the link reads                             *)
(*   DepOk(d)    THE PROPERTY of a dependency file d = [target, deps]:     *)
(*               target is the output, deps (as a set) = Read(cmd), no     *)
(*               file twice                                                *)
(*   WildDep     a transcription of what the pinned wild writes            *)
(*               (FileLoader::load_inputs / extract_file / loaded_files,   *)
(*               write_dependency_file): expected NOT to satisfy DepOk     *)
(*   FixedDep    the same with the thin archive file and the auxiliary     *)
(*               files pushed to loaded_files: satisfies DepOk (invariant) *)
(* TLC enumerates every command of up to MaxItems items and exports it     *)
(* with Read(cmd); checks/c25.py builds the real files, links with         *)
(* --dependency-file and compares; GNU ld and strace pin Read itself.      *)
(***************************************************************************)
EXTENDS Naturals, Sequences, FiniteSets, TLC, Json, SequencesExt

CONSTANT MaxItems

Items == {"o2", "o2x", "A", "T", "tm1", "S", "L1", "L3", "lZ", "V", "Y", "E", "R"}
AuxItems == {"V", "Y", "E", "R"}

(* the file an item designates (o2x is o2 spelled ./o2.o; lZ is -lz found as zdir/libz.a) *)
FileOf(i) == CASE i = "o2x" -> "o2" [] i = "lZ" -> "Z" [] OTHER -> i

(* what scripts name (in order) and what the thin archive refers to *)
Names == [L1 |-> <<"o3", "L2">>, L2 |-> <<"o4", "T">>, L3 |-> <<"A", "o2">>]
Members == <<"tm1", "tm2">>
IsScript(f) == f \in DOMAIN Names

Cmds == UNION {[1..n -> Items] : n \in 0..MaxItems}
InputItems(cmd) == <<"o1">> \o SelectSeq(cmd, LAMBDA i : i \notin AuxItems)

Rng(s) == {s[i] : i \in 1..Len(s)}

(* ----------------------------------------------------------------------- *)
(* The declarative rule                                                    *)
RECURSIVE ReachF(_)
ReachF(f) == {f}
             \cup (IF IsScript(f) THEN UNION {ReachF(Names[f][k]) : k \in 1..Len(Names[f])} ELSE {})
             \cup (IF f = "T" THEN Rng(Members) ELSE {})

(* --dynamic-list and --export-dynamic-symbol-list share one slot: the last one given is the one read *)
LastOf(cmd, S) == LET P == {k \in 1..Len(cmd) : cmd[k] \in S} IN
                  IF P = {} THEN {} ELSE {cmd[CHOOSE k \in P : \A j \in P : j <= k]}
AuxRead(cmd) == (Rng(cmd) \cap {"V", "R"}) \cup LastOf(cmd, {"Y", "E"})

Read(cmd) == UNION {ReachF(FileOf(InputItems(cmd)[k])) : k \in 1..Len(InputItems(cmd))} \cup AuxRead(cmd)

NoDup(s) == \A i, j \in 1..Len(s) : i # j => s[i] # s[j]
DepOk(d, cmd) == d.target = "out" /\ Rng(d.deps) = Read(cmd) /\ NoDup(d.deps)

(* ----------------------------------------------------------------------- *)
(* What wild does.  Every input is requested once PER PATH KEY             *)
(* (path_to_load_index): the key of a command-line file is its spelling as *)
(* given (Input::path: `absolute: p`), the key of a file named by a script *)
(* or found through -L is its absolute path, so one file can be loaded     *)
(* under several keys.  A loaded file pushes itself to loaded_files, a     *)
(* script then extracts the files it names, a thin archive pushes ITS      *)
(* MEMBERS ONLY (spelled relative to the archive's own spelling); version  *)
(* script and export list are read by AuxiliaryFiles::new outside          *)
(* loaded_files, the retain file by the argument parser.                   *)
(* write_dependency_file drops repeated path STRINGS.                      *)
(* An entry is <<file, spelling>>, spelling in {"rel", "dot", "abs"}.      *)
SpellOfItem(i) == IF i = "o2x" THEN "dot" ELSE IF i = "lZ" THEN "abs" ELSE "rel"

RECURSIVE LoadSeq(_, _, _)
(* e = <<file, spelling>>;  byFile: the repaired keying (one key per file) *)
LoadOne(e, st, fixed) ==
    LET key == IF fixed THEN e[1] ELSE e IN
    IF key \in st.req THEN st
    ELSE LET st1 == [st EXCEPT !.req = @ \cup {key}] IN
         IF e[1] = "T" THEN
              [st1 EXCEPT !.out = @ \o (IF fixed THEN <<e>> ELSE <<>>)
                                    \o [k \in 1..Len(Members) |-> <<Members[k], e[2]>>]]
         ELSE IF IsScript(e[1]) THEN
              LoadSeq([k \in 1..Len(Names[e[1]]) |-> <<Names[e[1]][k], "abs">>],
                      [st1 EXCEPT !.out = Append(@, e)], fixed)
         ELSE [st1 EXCEPT !.out = Append(@, e)]
LoadSeq(es, st, fixed) ==
    IF es = <<>> THEN st ELSE LoadSeq(Tail(es), LoadOne(Head(es), st, fixed), fixed)

RECURSIVE Dedup(_, _, _)
Dedup(s, seen, fixed) ==
    IF s = <<>> THEN <<>>
    ELSE LET key == IF fixed THEN Head(s)[1] ELSE Head(s) IN
         IF key \in seen THEN Dedup(Tail(s), seen, fixed)
         ELSE <<Head(s)[1]>> \o Dedup(Tail(s), seen \cup {key}, fixed)

Entries(cmd) == [k \in 1..Len(InputItems(cmd)) |->
                    <<FileOf(InputItems(cmd)[k]), SpellOfItem(InputItems(cmd)[k])>>]
Loaded(cmd, fixed) == LoadSeq(Entries(cmd), [req |-> {}, out |-> <<>>], fixed).out

WildDep(cmd) == [target |-> "out", deps |-> Dedup(Loaded(cmd, FALSE), {}, FALSE)]
(* the repair: one key per file, the thin archive file and the auxiliary files are pushed too *)
FixedDep(cmd) == [target |-> "out",
                  deps |-> LET aux == SetToSeq(AuxRead(cmd)) IN
                           Dedup(Loaded(cmd, TRUE) \o [k \in 1..Len(aux) |-> <<aux[k], "rel">>], {}, TRUE)]

(* an object loaded under two keys is linked twice: duplicate symbols, the link fails (not C25's
   business; exported so that the harness knows which commands cannot be assessed) *)
Objects == {"o1", "o2", "o3", "o4"}
WildLinks(cmd) == LET L == Loaded(cmd, FALSE) IN
                  \A i, j \in 1..Len(L) : (i # j /\ L[i][1] \in Objects) => L[i][1] # L[j][1]

(* ----------------------------------------------------------------------- *)
VARIABLE cmd
Init == cmd \in Cmds
Next == UNCHANGED cmd
Spec == Init /\ [][Next]_cmd

FixedSatisfies == DepOk(FixedDep(cmd), cmd)          \* the rule is implementable
WildSatisfies == DepOk(WildDep(cmd), cmd)            \* expected to be violated on the pinned tree
(* wild's list never contains a file that was not read *)
WildNeverExtra == Rng(WildDep(cmd).deps) \subseteq Read(cmd)

Emit == LET wd == WildDep(cmd) IN
        PrintT(<<"REPLAY", ToJson([cmd |-> cmd, read |-> SetToSeq(Read(cmd)), wild |-> wd.deps,
                                   wild_links |-> WildLinks(cmd), wild_ok |-> DepOk(wd, cmd)])>>)
=============================================================================
