------------------------------ MODULE DepFile ------------------------------
(***************************************************************************)
(* C25 - the dependency file lists exactly the files the link read.        *)
(*                                                                         *)
(* A link command is the fixed object o1 followed by a sequence of items   *)
(* (objects, a second spelling of an object, archive, thin archive, a thin *)
(* member given directly, shared object, linker scripts that name further  *)
(* inputs and scripts, -l library found through -L, --version-script,      *)
(* --dynamic-list, --export-dynamic-symbol-list, --retain-symbols-file).   *)
(*                                                                         *)
(*   Read(cmd)   the declarative rule: the set of non-temporary files      *)
(*               whose contents the link reads                             *)
(*   DepOk(d)    THE PROPERTY of a dependency file d = [target, deps]:     *)
(*               target is the output, deps (as a set) = Read(cmd), no     *)
(*               file twice                                                *)
(*   WildDep     a transcription of what wild writes today                 *)
(*               (FileLoader::load_inputs / extract_file / loaded_files /  *)
(*               AuxiliaryFiles::new / write_dependency_file): satisfies   *)
(*               DepOk up to the retain-symbols file (invariant)           *)
(*   OldDep      the algorithm before the fix (thin archive file and       *)
(*               auxiliary files not pushed, string de-duplication): the   *)
(*               broken variant TLC must reject                            *)
(*   History     the environment action Vanish (an input that was read     *)
(*               disappears after the re-verification, before the list is  *)
(*               written) must not change the list                         *)
(* TLC enumerates every command of up to MaxItems items and exports it     *)
(* with Read(cmd); checks/c25.py builds the real files, links with         *)
(* --dependency-file and compares; GNU ld and strace pin Read itself.      *)
(***************************************************************************)
EXTENDS Naturals, Sequences, FiniteSets, TLC, Json, SequencesExt

CONSTANT MaxItems

Items == {"o2", "o2x", "A", "T", "tm1", "S", "L1", "L3", "lZ", "V", "Y", "E", "R"}
AuxItems == {"V", "Y", "E", "R"}

(* the file an item designates (o2x is o2 spelled ./o2.o; lZ is -lz found as zdir/libz.a) *)
FileOf(i) == CASE i = "o2x" -> "o2" [] i = "lZ" -> "Z" [] OTHER -> i

(* what scripts name (in order) and what the thin archive refers to *)
Names == [L1 |-> <<"o3", "L2">>, L2 |-> <<"o4", "T">>, L3 |-> <<"A", "o2">>]
Members == <<"tm1", "tm2">>
IsScript(f) == f \in DOMAIN Names

Cmds == UNION {[1..n -> Items] : n \in 0..MaxItems}
InputItems(cmd) == <<"o1">> \o SelectSeq(cmd, LAMBDA i : i \notin AuxItems)

Rng(s) == {s[i] : i \in 1..Len(s)}
AllFiles == {"o1", "o2", "o3", "o4", "tm1", "tm2", "A", "T", "S", "L1", "L2", "L3", "Z", "V", "Y", "E", "R"}

(* ----------------------------------------------------------------------- *)
(* The declarative rule                                                    *)
RECURSIVE ReachF(_)
ReachF(f) == {f}
             \cup (IF IsScript(f) THEN UNION {ReachF(Names[f][k]) : k \in 1..Len(Names[f])} ELSE {})
             \cup (IF f = "T" THEN Rng(Members) ELSE {})

(* --dynamic-list and --export-dynamic-symbol-list share one slot: the last one given is the one read *)
LastOf(cmd, S) == LET P == {k \in 1..Len(cmd) : cmd[k] \in S} IN
                  IF P = {} THEN {} ELSE {cmd[CHOOSE k \in P : \A j \in P : j <= k]}
AuxRead(cmd) == (Rng(cmd) \cap {"V", "R"}) \cup LastOf(cmd, {"Y", "E"})

Read(cmd) == UNION {ReachF(FileOf(InputItems(cmd)[k])) : k \in 1..Len(InputItems(cmd))} \cup AuxRead(cmd)

NoDup(s) == \A i, j \in 1..Len(s) : i # j => s[i] # s[j]
DepOk(d, cmd) == d.target = "out" /\ Rng(d.deps) = Read(cmd) /\ NoDup(d.deps)

(* ----------------------------------------------------------------------- *)
(* What wild does (as coded today).  Every input is requested once PER     *)
(* PATH KEY (path_to_load_index): the key of a command-line file is its    *)
(* spelling as given (Input::path: `absolute: p`), the key of a file named *)
(* by a script or found through -L is its absolute path, so one file can   *)
(* still be LOADED under several keys.  A loaded file pushes itself to     *)
(* loaded_files, a script then extracts the files it names, a thin archive *)
(* pushes itself and then its members (process_thin_archive); after the    *)
(* inputs, AuxiliaryFiles::new pushes the version script and then the      *)
(* export list (read_script_data).  write_dependency_file lists every file *)
(* once, under its first spelling (de-duplication on the absolute path).   *)
(* Still outside loaded_files: the --retain-symbols-file file, read by the *)
(* argument parser (known finding missing:retain-symbols-file).            *)
(*                                                                         *)
(* The algorithm before the fix is kept as the deliberately broken variant *)
(* (old = TRUE): thin archive pushes its members only, auxiliary files are *)
(* not pushed, de-duplication on the path STRING.  TLC must reject it.     *)
(* An entry is <<file, spelling>>, spelling in {"rel", "dot", "abs"}.      *)
SpellOfItem(i) == IF i = "o2x" THEN "dot" ELSE IF i = "lZ" THEN "abs" ELSE "rel"

RECURSIVE LoadSeq(_, _, _)
LoadOne(e, st, old) ==
    IF e \in st.req THEN st
    ELSE LET st1 == [st EXCEPT !.req = @ \cup {e}] IN
         IF e[1] = "T" THEN
              [st1 EXCEPT !.out = @ \o (IF old THEN <<>> ELSE <<e>>)
                                    \o [k \in 1..Len(Members) |-> <<Members[k], e[2]>>]]
         ELSE IF IsScript(e[1]) THEN
              LoadSeq([k \in 1..Len(Names[e[1]]) |-> <<Names[e[1]][k], "abs">>],
                      [st1 EXCEPT !.out = Append(@, e)], old)
         ELSE [st1 EXCEPT !.out = Append(@, e)]
LoadSeq(es, st, old) ==
    IF es = <<>> THEN st ELSE LoadSeq(Tail(es), LoadOne(Head(es), st, old), old)

RECURSIVE Dedup(_, _, _)
Dedup(s, seen, old) ==
    IF s = <<>> THEN <<>>
    ELSE LET key == IF old THEN Head(s) ELSE Head(s)[1] IN        \* path string / absolute path
         IF key \in seen THEN Dedup(Tail(s), seen, old)
         ELSE <<Head(s)[1]>> \o Dedup(Tail(s), seen \cup {key}, old)

Entries(cmd) == [k \in 1..Len(InputItems(cmd)) |->
                    <<FileOf(InputItems(cmd)[k]), SpellOfItem(InputItems(cmd)[k])>>]
Loaded(cmd, old) == LoadSeq(Entries(cmd), [req |-> {}, out |-> <<>>], old).out

(* AuxiliaryFiles::new: version script first, then the export list slot *)
AuxPushed(cmd) == (IF "V" \in Rng(cmd) THEN <<<<"V", "rel">>>> ELSE <<>>)
                  \o (LET L == LastOf(cmd, {"Y", "E"}) IN IF L = {} THEN <<>> ELSE <<<<CHOOSE x \in L : TRUE, "rel">>>>)

WildDep(cmd) == [target |-> "out", deps |-> Dedup(Loaded(cmd, FALSE) \o AuxPushed(cmd), {}, FALSE)]
OldDep(cmd) == [target |-> "out", deps |-> Dedup(Loaded(cmd, TRUE), {}, TRUE)]
(* what is still to do: list the retain file as well *)
IdealDep(cmd) == [target |-> "out",
                  deps |-> WildDep(cmd).deps \o (IF "R" \in Rng(cmd) THEN <<"R">> ELSE <<>>)]

(* an object loaded under two keys is linked twice: duplicate symbols, the link fails (not C25's
   business; exported so that the harness knows which commands cannot be assessed) *)
Objects == {"o1", "o2", "o3", "o4"}
WildLinks(cmd) == LET L == Loaded(cmd, FALSE) IN
                  \A i, j \in 1..Len(L) : (i # j /\ L[i][1] \in Objects) => L[i][1] # L[j][1]

(* ----------------------------------------------------------------------- *)
(* HISTORY.  A link is not one instant: wild reads the inputs, re-verifies *)
(* that none changed (verify_inputs_unchanged) and only then writes the    *)
(* dependency file.  The environment may act in between: an input that was *)
(* read can DISAPPEAR after the re-verification and before the dependency  *)
(* file is written (a compiler driver deleting an intermediate, a parallel *)
(* clean).  The rule is unchanged: the file's contents were read, so it is *)
(* listed - the list is a function of what was read, not of what still     *)
(* exists when the list is written.  A state starts at the point           *)
(* "verified" (reading and verification are deterministic); Vanish is the  *)
(* environment action (at most one file, only if History), WriteDep is     *)
(* wild's step.  SkipVanished = TRUE is the broken variant (leave out      *)
(* prerequisites that no longer exist) which TLC must reject.              *)
CONSTANTS History, SkipVanished

VARIABLES cmd, phase, gone, dep
vars == <<cmd, phase, gone, dep>>

Init == cmd \in Cmds /\ phase = "verified" /\ gone = "none" /\ dep = <<>>

Vanish(f) == /\ History /\ phase = "verified" /\ gone = "none"
             /\ f \in Read(cmd)
             /\ gone' = f
             /\ UNCHANGED <<cmd, phase, dep>>

Listed(c, g) == IF SkipVanished THEN SelectSeq(WildDep(c).deps, LAMBDA f : f # g) ELSE WildDep(c).deps

WriteDep == /\ phase = "verified"
            /\ phase' = "written"
            /\ dep' = Listed(cmd, gone)
            /\ UNCHANGED <<cmd, gone>>

Next == WriteDep \/ \E f \in AllFiles : Vanish(f)
Spec == Init /\ [][Next]_vars

Written == phase = "written"
TheDep == [target |-> "out", deps |-> dep]

(* THE PROPERTY, as an invariant of the algorithm coded today, up to the one recorded omission:
   whatever happened to the files after they were read *)
DepOkExcept(d, c, X) == d.target = "out" /\ Rng(d.deps) = Read(c) \ X /\ NoDup(d.deps)
CodedSatisfiesUpToRetain == Written => DepOkExcept(TheDep, cmd, {"R"})
IdealSatisfies == DepOk(IdealDep(cmd), cmd)              \* the rule is implementable in full
WildNeverExtra == Rng(WildDep(cmd).deps) \subseteq Read(cmd)
(* must be violated (DepFile_claim.cfg): the retain file is still missing *)
WildSatisfies == Written => DepOk(TheDep, cmd)
(* must be violated (DepFile_old.cfg): the algorithm before the fix, the broken variant *)
OldSatisfies == DepOk(OldDep(cmd), cmd)

Emit == Written =>
        PrintT(<<"REPLAY", ToJson([cmd |-> cmd, read |-> SetToSeq(Read(cmd)), wild |-> dep,
                                   wild_links |-> WildLinks(cmd), wild_ok |-> DepOk(TheDep, cmd),
                                   old |-> OldDep(cmd).deps, gone |-> gone])>>)
=============================================================================
