-------------------------------- MODULE Diff --------------------------------
(***************************************************************************)
(* C34 - linker-diff is quiet on equal binaries and catches broken         *)
(* relocations.                                                            *)
(*                                                                         *)
(* The oracle.  A binary is abstracted to a layout (symbol -> address) and *)
(* a map from reference sites to the ADDRESS each site designates.  Two    *)
(* binaries of the same program may have different layouts; what must      *)
(* agree is the symbolic target <<symbol, offset>> every site designates.  *)
(*    Report(a, b) = {site : Symbolic(a, site) # Symbolic(b, site)}        *)
(* The property: Report = {} for a binary against itself / an identical    *)
(* copy / the reference linker's output of the same program, and           *)
(* Report # {} as soon as one site of the file under test is redirected    *)
(* to a different location.                                                *)
(*                                                                         *)
(* TLC enumerates (site kind x class of the original target x redirection  *)
(* x pair of layouts), checks that the oracle is layout independent and    *)
(* exact (OracleExact), and exports every case with the expected verdict;  *)
(* checks/c34.py applies each case to real binaries: wild's output is      *)
(* patched at one relocated site and the real linker-diff must report.     *)
(* This is a thin use of TLA+: the specification is the two-line oracle    *)
(* plus the corruption enumerator.                                         *)
(***************************************************************************)
EXTENDS Integers, Sequences, FiniteSets, TLC, Json

Funcs == {"f1", "f2"}
Datums == {"d1", "d2"}
Syms == Funcs \cup Datums
Size == 16                                   \* every symbol covers 16 bytes

SiteKinds == {"call", "lea", "load", "gotslot", "gotload", "absptr"}
(* gotslot: the CONTENT of a GOT slot (an address);  gotload: the displacement of a GOT-indirect instruction
   (push/mov sym@GOTPCREL), which designates a GOT SLOT.  A GOT slot is an 8-byte cell: an address in the
   middle of a cell designates no slot - and so no symbol - at all. *)
(* which class of symbol a site of each kind can originally designate *)
OrigClasses(k) == CASE k = "call" -> {"function"}
                    [] k = "load" -> {"datum"}
                    [] OTHER -> {"function", "datum"}
Redirs == {"none", "other-function", "other-datum", "same+8"}
(* redirections of a GOT-load site: the same slot shifted by k bytes (1..7: into the middle of the cell,
   -1..-7: into the tail of the previous cell), and the next cell *)
GotShifts == (1..8) \cup {-k : k \in 1..7}
ShiftName(k) == IF k > 0 THEN <<"slot+", k>> ELSE <<"slot-", -k>>
RedirsOf(kind) == IF kind = "gotload" THEN {<<"none">>} \cup {ShiftName(k) : k \in GotShifts}
                  ELSE {<<r>> : r \in Redirs}

(* two layouts of the same program (the two linkers place things differently) *)
LayoutA == [s \in Syms |-> CASE s = "f1" -> 4096 [] s = "f2" -> 4112 [] s = "d1" -> 8192 [] s = "d2" -> 8208]
LayoutB == [s \in Syms |-> CASE s = "f1" -> 65552 [] s = "f2" -> 65536 [] s = "d1" -> 131088 [] s = "d2" -> 131072]
Layouts == {LayoutA, LayoutB}

OrigTarget(class) == IF class = "function" THEN <<"f1", 0>> ELSE <<"d1", 0>>
Redirect(t, r) == CASE r = <<"none">> -> t
                    [] r = <<"other-function">> -> <<IF t[1] = "f1" THEN "f2" ELSE "f1", 0>>
                    [] r = <<"other-datum">> -> <<IF t[1] = "d1" THEN "d2" ELSE "d1", 0>>
                    [] r = <<"same+8">> -> <<t[1], t[2] + 8>>
                    [] Len(r) = 2 /\ r[1] = "slot+" -> <<t[1], t[2] + r[2]>>
                    [] Len(r) = 2 /\ r[1] = "slot-" -> <<t[1], t[2] - r[2]>>

(* the GOT of each layout: one 8-byte cell per symbol, in a different order in the two binaries *)
GotAddr(L, s) == IF L = LayoutA
                 THEN 12288 + 8 * (CASE s = "f1" -> 0 [] s = "f2" -> 1 [] s = "d1" -> 2 [] s = "d2" -> 3)
                 ELSE 196608 + 8 * (CASE s = "d2" -> 0 [] s = "d1" -> 1 [] s = "f2" -> 2 [] s = "f1" -> 3)

(* the concrete value a linker with layout L writes for target t, and its inverse *)
Value(L, k, t) == IF k = "gotload" THEN GotAddr(L, t[1]) + t[2] ELSE L[t[1]] + t[2]
Symbolic(L, k, v) ==
    IF k = "gotload" THEN
        LET S == {s \in Syms : GotAddr(L, s) = v} IN            \* exactly a cell, or nothing
        IF S = {} THEN <<"?", v>> ELSE <<CHOOSE s \in S : TRUE, 0>>
    ELSE LET S == {s \in Syms : L[s] <= v /\ v < L[s] + Size} IN
         IF S = {} THEN <<"?", v>> ELSE LET s == CHOOSE s \in S : TRUE IN <<s, v - L[s]>>

(* a program has one site of the kind under test plus the other four, all designating originals *)
Targets(kind, class, redir) ==
    [k \in SiteKinds |-> IF k = kind THEN Redirect(OrigTarget(class), redir)
                         ELSE OrigTarget(CHOOSE c \in OrigClasses(k) : TRUE)]
Bin(L, tg) == [k \in SiteKinds |-> Value(L, k, tg[k])]

Report(a, La, b, Lb) == {k \in SiteKinds : Symbolic(La, k, a[k]) # Symbolic(Lb, k, b[k])}

VARIABLE case
Cases == UNION {{[kind |-> k, orig |-> c, redir |-> r, lt |-> lt, lr |-> lr] :
                   c \in OrigClasses(k), r \in RedirsOf(k), lt \in {"A", "B"}, lr \in {"A", "B"}} : k \in SiteKinds}
Init == case \in Cases
Next == UNCHANGED case
Spec == Init /\ [][Next]_case

Lay(n) == IF n = "A" THEN LayoutA ELSE LayoutB
Observed == Report(Bin(Lay(case.lt), Targets(case.kind, case.orig, case.redir)), Lay(case.lt),
                   Bin(Lay(case.lr), Targets(case.kind, case.orig, <<"none">>)), Lay(case.lr))

(* the oracle is exact and independent of the two layouts *)
OracleExact == Observed = (IF case.redir = <<"none">> THEN {} ELSE {case.kind})
(* a byte-wise comparison would NOT be a correct oracle: it alarms on equal programs (anti-vacuity) *)
BytewiseQuiet == (case.redir = <<"none">>) =>
                    Bin(Lay(case.lt), Targets(case.kind, case.orig, <<"none">>)) = Bin(Lay(case.lr), Targets(case.kind, case.orig, <<"none">>))
(* an oracle that rounds a GOT address down to its cell (anti-vacuity, must be violated: Diff_gotround.cfg) *)
RoundedSymbolic(L, k, v) == IF k = "gotload" THEN Symbolic(L, k, v - (v % 8)) ELSE Symbolic(L, k, v)
RoundedOracleExact ==
    LET a == Bin(Lay(case.lt), Targets(case.kind, case.orig, case.redir))
        b == Bin(Lay(case.lr), Targets(case.kind, case.orig, <<"none">>))
        rep == {k \in SiteKinds : RoundedSymbolic(Lay(case.lt), k, a[k]) # RoundedSymbolic(Lay(case.lr), k, b[k])}
    IN rep = (IF case.redir = <<"none">> THEN {} ELSE {case.kind})

Emit == (case.lt = "A" /\ case.lr = "B") =>
            PrintT(<<"REPLAY", ToJson([kind |-> case.kind, orig |-> case.orig,
                                       redir |-> IF Len(case.redir) = 1 THEN case.redir[1]
                                                 ELSE IF case.redir[1] = "slot+" THEN "slot+" \o ToString(case.redir[2])
                                                 ELSE "slot-" \o ToString(case.redir[2]),
                                       shift |-> IF Len(case.redir) = 1 THEN 0
                                                 ELSE IF case.redir[1] = "slot+" THEN case.redir[2] ELSE 0 - case.redir[2],
                                       expect_problem |-> (Observed # {})])>>)
=============================================================================
