-------------------------------- MODULE Diff --------------------------------
(***************************************************************************)
(* C34 - linker-diff is quiet on equal binaries and catches broken         *)
(* relocations.                                                            *)
(*                                                                         *)
(* The oracle.  A binary is abstracted to a layout (symbol -> address) and *)
(* a map from reference sites to the ADDRESS each site designates.  Two    *)
(* binaries of the same program may have different layouts; what must      *)
(* agree is the symbolic target <<symbol, offset>> every site designates.  *)
(*    Report(a, b) = {site : Symbolic(a, site) # Symbolic(b, site)}        *)
(* The property: Report = {} for a binary against itself / an identical    *)
(* copy / the reference linker's output of the same program, and           *)
(* Report # {} as soon as one site of the file under test is redirected    *)
(* to a different location.                                                *)
(*                                                                         *)
(* TLC enumerates (site kind x class of the original target x redirection  *)
(* x pair of layouts), checks that the oracle is layout independent and    *)
(* exact (OracleExact), and exports every case with the expected verdict;  *)
(* checks/c34.py applies each case to real binaries: wild's output is      *)
(* patched at one relocated site and the real linker-diff must report.     *)
(* This is a thin use of TLA+: the specification is the two-line oracle    *)
(* plus the corruption enumerator.                                         *)
(***************************************************************************)
EXTENDS Naturals, FiniteSets, TLC, Json

Funcs == {"f1", "f2"}
Datums == {"d1", "d2"}
Syms == Funcs \cup Datums
Size == 16                                   \* every symbol covers 16 bytes

SiteKinds == {"call", "lea", "load", "gotslot", "absptr"}
(* which class of symbol a site of each kind can originally designate *)
OrigClasses(k) == CASE k = "call" -> {"function"}
                    [] k = "load" -> {"datum"}
                    [] OTHER -> {"function", "datum"}
Redirs == {"none", "other-function", "other-datum", "same+8"}

(* two layouts of the same program (the two linkers place things differently) *)
LayoutA == [s \in Syms |-> CASE s = "f1" -> 4096 [] s = "f2" -> 4112 [] s = "d1" -> 8192 [] s = "d2" -> 8208]
LayoutB == [s \in Syms |-> CASE s = "f1" -> 65552 [] s = "f2" -> 65536 [] s = "d1" -> 131088 [] s = "d2" -> 131072]
Layouts == {LayoutA, LayoutB}

OrigTarget(class) == IF class = "function" THEN <<"f1", 0>> ELSE <<"d1", 0>>
Redirect(t, r) == CASE r = "none" -> t
                    [] r = "other-function" -> <<IF t[1] = "f1" THEN "f2" ELSE "f1", 0>>
                    [] r = "other-datum" -> <<IF t[1] = "d1" THEN "d2" ELSE "d1", 0>>
                    [] r = "same+8" -> <<t[1], t[2] + 8>>

(* the concrete value a linker with layout L writes for target t, and its inverse *)
Value(L, t) == L[t[1]] + t[2]
Symbolic(L, v) == LET S == {s \in Syms : L[s] <= v /\ v < L[s] + Size} IN
                  IF S = {} THEN <<"?", v>> ELSE LET s == CHOOSE s \in S : TRUE IN <<s, v - L[s]>>

(* a program has one site of the kind under test plus the other four, all designating originals *)
Targets(kind, class, redir) ==
    [k \in SiteKinds |-> IF k = kind THEN Redirect(OrigTarget(class), redir)
                         ELSE OrigTarget(CHOOSE c \in OrigClasses(k) : TRUE)]
Bin(L, tg) == [k \in SiteKinds |-> Value(L, tg[k])]

Report(a, La, b, Lb) == {k \in SiteKinds : Symbolic(La, a[k]) # Symbolic(Lb, b[k])}

VARIABLE case
Cases == {[kind |-> k, orig |-> c, redir |-> r, lt |-> lt, lr |-> lr] :
             k \in SiteKinds, c \in {"function", "datum"}, r \in Redirs, lt \in {"A", "B"}, lr \in {"A", "B"}}
Init == case \in {c \in Cases : c.orig \in OrigClasses(c.kind)}
Next == UNCHANGED case
Spec == Init /\ [][Next]_case

Lay(n) == IF n = "A" THEN LayoutA ELSE LayoutB
Observed == Report(Bin(Lay(case.lt), Targets(case.kind, case.orig, case.redir)), Lay(case.lt),
                   Bin(Lay(case.lr), Targets(case.kind, case.orig, "none")), Lay(case.lr))

(* the oracle is exact and independent of the two layouts *)
OracleExact == Observed = (IF case.redir = "none" THEN {} ELSE {case.kind})
(* a byte-wise comparison would NOT be a correct oracle: it alarms on equal programs (anti-vacuity) *)
BytewiseQuiet == (case.redir = "none") =>
                    Bin(Lay(case.lt), Targets(case.kind, case.orig, "none")) = Bin(Lay(case.lr), Targets(case.kind, case.orig, "none"))

Emit == (case.lt = "A" /\ case.lr = "B") =>
            PrintT(<<"REPLAY", ToJson([kind |-> case.kind, orig |-> case.orig, redir |-> case.redir,
                                       expect_problem |-> (Observed # {})])>>)
=============================================================================
