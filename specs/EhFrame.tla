------------------------------ MODULE EhFrame ------------------------------
(***************************************************************************)
(* C10 - unwind tables cover every retained function.                      *)
(*                                                                         *)
(* Part 1: the result predicates of the property over a *table image*      *)
(*   t = [hdr      : BOOLEAN          an .eh_frame_hdr was produced        *)
(*        fdeCount : Int              its fde_count field                  *)
(*        rows     : Seq([pc, fde])   its binary-search table, in order    *)
(*        fdes     : Seq([addr, pc, len, cie])  FDEs of .eh_frame in order *)
(*        cies     : Seq(Int)         addresses of the CIEs of .eh_frame   *)
(*        funcs    : Seq([id, kept, addr, len, hadFde])  the functions of  *)
(*                   the inputs: whether retained, where, and whether an   *)
(*                   input FDE described them                              *)
(*        closed   : BOOLEAN          funcs lists every function of the    *)
(*                   inputs (FALSE: only the table-internal predicates     *)
(*                   are evaluated)                                        *)
(*        fmt      : Seq(Int)         format defects found by the observer *)
(*                   (1 .eh_frame does not parse, 2 .eh_frame_hdr does not *)
(*                   parse, 3 eh_frame_ptr is not the address of .eh_frame,*)
(*                   4 version is not 1, 5 PT_GNU_EH_FRAME is not the      *)
(*                   extent of .eh_frame_hdr, 6 the table does not fill    *)
(*                   the section exactly)]                                 *)
(* Each predicate is a set of offenders; it holds iff the set is empty.    *)
(* The same operators are evaluated on the terminal states of the machine  *)
(* of Part 2 (TLC, exhaustive) and, by EhFrameObs.tla, on images observed  *)
(* from real outputs.                                                      *)
(*                                                                         *)
(* Part 2: the sequential machine of wild's .eh_frame writer               *)
(* (elf_writer.rs write_eh_frame_relocations / take_eh_frame_hdr_entry /   *)
(* sort_eh_frame_hdr_entries; elf.rs process_eh_frame_relocations): per    *)
(* object, walk the entries of its .eh_frame; KeepCie; KeepFde when the    *)
(* section of the pc-begin symbol was loaded and is not empty (emit a hdr  *)
(* row, rewrite the CIE pointer); DropFde otherwise; finally sort the rows.*)
(***************************************************************************)
EXTENDS Integers, Sequences, FiniteSets, TLC

Range(s) == {s[i] : i \in 1..Len(s)}
Idx(s) == 1..Len(s)

-----------------------------------------------------------------------------
(* Part 1 *)
KeptFuncs(t) == {f \in Range(t.funcs) : f.kept /\ f.len > 0}

(* one table entry per FDE; the count field says so *)
Bad_Count(t) ==
    IF ~t.hdr THEN {}
    ELSE (IF Len(t.rows) # Len(t.fdes) THEN {<<1, Len(t.rows), Len(t.fdes)>>} ELSE {})
         \cup (IF t.fdeCount # Len(t.rows) THEN {<<2, t.fdeCount, Len(t.rows)>>} ELSE {})
(* sorted by start address *)
Bad_Sorted(t) ==
    IF ~t.hdr THEN {} ELSE {<<i, t.rows[i].pc, t.rows[i + 1].pc>> : i \in {j \in 1..(Len(t.rows) - 1) : t.rows[j].pc > t.rows[j + 1].pc}}
(* each entry points to an FDE whose range starts at the entry's address; no FDE is listed twice *)
Bad_RowFde(t) ==
    IF ~t.hdr THEN {}
    ELSE {<<i, t.rows[i].pc, t.rows[i].fde>> : i \in {j \in Idx(t.rows) :
                ~\E f \in Range(t.fdes) : f.addr = t.rows[j].fde /\ f.pc = t.rows[j].pc}}
         \cup {<<i, j, t.rows[i].fde>> : <<i, j>> \in {p \in Idx(t.rows) \X Idx(t.rows) : p[1] < p[2] /\ t.rows[p[1]].fde = t.rows[p[2]].fde}}
(* every FDE describes a retained function (exactly its extent) *)
Bad_FdeRetained(t) ==
    IF ~t.closed THEN {} ELSE
    {<<i, t.fdes[i].pc, t.fdes[i].len>> : i \in {j \in Idx(t.fdes) :
        ~\E f \in KeptFuncs(t) : f.hadFde /\ f.addr = t.fdes[j].pc /\ f.len = t.fdes[j].len}}
(* every retained function that had an FDE still has (exactly) one *)
Bad_Covered(t) ==
    IF ~t.closed THEN {} ELSE
    {<<f.id, f.addr, Cardinality({i \in Idx(t.fdes) : t.fdes[i].pc = f.addr})>> : f \in {g \in KeptFuncs(t) :
        g.hadFde /\ Cardinality({i \in Idx(t.fdes) : t.fdes[i].pc = g.addr}) # 1}}
(* every FDE's CIE pointer designates a CIE of the output *)
Bad_Cie(t) == {<<i, t.fdes[i].cie>> : i \in {j \in Idx(t.fdes) : t.fdes[j].cie \notin Range(t.cies)}}

Bad_Format(t) == {<<c, 0>> : c \in Range(t.fmt)}

Preds == <<"Count", "Sorted", "RowFde", "FdeRetained", "Covered", "Cie", "Format">>
BadOf(c, t) ==
    CASE c = "Count" -> Bad_Count(t) [] c = "Sorted" -> Bad_Sorted(t) [] c = "RowFde" -> Bad_RowFde(t)
      [] c = "FdeRetained" -> Bad_FdeRetained(t) [] c = "Covered" -> Bad_Covered(t) [] c = "Cie" -> Bad_Cie(t)
      [] c = "Format" -> Bad_Format(t)
FailingPreds(t) == {i \in Idx(Preds) : BadOf(Preds[i], t) # {}}
TablesOK(t) == FailingPreds(t) = {}

-----------------------------------------------------------------------------
(* Part 2: the writer.

   Scenario (fixed in Init): objects 1..NObj; object o has NFn[o] functions, each with one FDE;
   cieMode[o] = "shared" (one CIE, then the FDEs) | "private" (a CIE before every FDE);
   status of every function: "kept" | "gc" (section not loaded) | "comdat" (duplicate discarded) |
   "empty" (loaded but sh_size = 0); kept functions get distinct addresses, in an order unrelated
   to the order of the FDEs. *)
CONSTANTS NFn,            \* sequence: number of functions of each object
          Statuses,       \* set of statuses to choose from
          AddrPerms,      \* set of sequences: candidate address orders over all functions
          TailChoices,    \* set of sequences of BOOLEAN: which objects' .eh_frame end in leftover bytes
                          \* (the 4-byte zero end marker of crtend.o-like objects)
          Variant         \* "wild" | "keep-unloaded" | "keep-empty" | "no-sort" | "lose-row" | "cie-not-rewritten" | "advance-before-tail"

NObj == Len(NFn)
RECURSIVE FnsBefore(_)
FnsBefore(ob) == IF ob <= 1 THEN 0 ELSE NFn[ob - 1] + FnsBefore(ob - 1)
FnId(ob, j) == FnsBefore(ob) + j
NTotal == FnId(NObj, NFn[NObj])
AllFns == 1..NTotal
FnLen == 4

VARIABLES status, cieMode, addrOf, tails,   \* the scenario
          o, i,                        \* object, entry index within the object's .eh_frame
          out,                         \* output .eh_frame: sequence of [kind, fn, cie (output position of its CIE)]
          rows,                        \* hdr rows in emission order: [pc, fde (output position)]
          cieMap,                      \* input entry index of a CIE of the current object -> output position
          base, lpos,                  \* the writer's running address (eh_frame_start_address, as a position) and
                                       \* its output position inside the current object's contribution
          pc

evars == <<status, cieMode, addrOf, tails, o, i, out, rows, cieMap, base, lpos, pc>>
scen == <<status, cieMode, addrOf, tails>>

(* the entries of object ob's input .eh_frame *)
Entries(ob) ==
    LET fde(j, c) == [kind |-> "fde", fn |-> FnId(ob, j), cie |-> c]
        cie == [kind |-> "cie", fn |-> 0, cie |-> 0]
    IN  IF cieMode[ob] = "shared"
        THEN <<cie>> \o [j \in 1..NFn[ob] |-> fde(j, 1)]
        ELSE [n \in 1..(2 * NFn[ob]) |-> IF n % 2 = 1 THEN cie ELSE fde(n \div 2, n - 1)]

EInit ==
    /\ status \in [AllFns -> Statuses]
    /\ cieMode \in [1..NObj -> {"shared", "private"}]
    /\ addrOf \in AddrPerms
    /\ tails \in TailChoices
    /\ base = 0 /\ lpos = 0
    /\ o = 1 /\ i = 1
    /\ out = <<>> /\ rows = <<>>
    /\ cieMap = <<>>      \* function from input index to output position, as a sequence of pairs
    /\ pc = "walk"

Cur == Entries(o)[i]
InObj == pc = "walk" /\ i <= Len(Entries(o))
(* where the writer believes the next entry goes, and where it really goes *)
Believed == base + lpos + 1
Actual == Len(out) + 1
Lookup(m, k) == LET hits == {n \in 1..Len(m) : m[n][1] = k} IN
                IF hits = {} THEN 0 ELSE m[CHOOSE n \in hits : \A n2 \in hits : n2 <= n][2]

KeepCie ==
    /\ InObj /\ Cur.kind = "cie"
    /\ out' = Append(out, [kind |-> "cie", fn |-> 0, cie |-> 0, skew |-> 0])
    /\ cieMap' = (IF i = 1 THEN <<>> ELSE cieMap) \o <<<<i, Actual>>>>
    /\ i' = i + 1 /\ lpos' = lpos + 1
    /\ UNCHANGED <<scen, rows, o, base, pc>>

ShouldKeep(fn) ==
    \/ status[fn] = "kept"
    \/ Variant = "keep-empty" /\ status[fn] = "empty"
    \/ Variant = "keep-unloaded" /\ status[fn] \in {"gc", "comdat"}

(* The pc-begin field is pc-relative and is computed with the believed address of the FDE; read back
   at the FDE's real address it is off by (Actual - Believed).  The CIE pointer is a distance inside
   the object's contribution, so it is unaffected. *)
KeepFde ==
    /\ InObj /\ Cur.kind = "fde" /\ ShouldKeep(Cur.fn)
    /\ out' = Append(out, [kind |-> "fde", fn |-> Cur.fn,
                           cie |-> IF Variant = "cie-not-rewritten" THEN Cur.cie ELSE Lookup(cieMap, Cur.cie),
                           skew |-> Actual - Believed])
    /\ rows' = IF Variant = "lose-row" /\ Len(rows) = 1 THEN rows
               ELSE Append(rows, [pc |-> addrOf[Cur.fn], fde |-> Believed])
    /\ i' = i + 1 /\ lpos' = lpos + 1
    /\ UNCHANGED <<scen, cieMap, o, base, pc>>

DropFde ==
    /\ InObj /\ Cur.kind = "fde" /\ ~ShouldKeep(Cur.fn)
    /\ i' = i + 1
    /\ UNCHANGED <<scen, out, rows, cieMap, o, base, lpos, pc>>

(* End of an object's .eh_frame: copy the leftover bytes (if any) and advance the running address by
   everything that was written for this object. *)
EndObject ==
    /\ pc = "walk" /\ i > Len(Entries(o))
    /\ out' = IF tails[o] THEN Append(out, [kind |-> "tail", fn |-> 0, cie |-> 0, skew |-> 0]) ELSE out
    /\ base' = base + lpos + (IF tails[o] /\ Variant # "advance-before-tail" THEN 1 ELSE 0)
    /\ lpos' = 0
    /\ IF o < NObj THEN o' = o + 1 /\ i' = 1 /\ pc' = pc
                   ELSE pc' = "sort" /\ UNCHANGED <<o, i>>
    /\ UNCHANGED <<scen, rows, cieMap>>

SortRows ==
    /\ pc = "sort"
    /\ rows' = IF Variant = "no-sort" THEN rows ELSE SortSeq(rows, LAMBDA a, b : a.pc < b.pc)
    /\ pc' = "done"
    /\ UNCHANGED <<scen, o, i, out, cieMap, base, lpos>>

ENext == KeepCie \/ KeepFde \/ DropFde \/ EndObject \/ SortRows
ESpec == EInit /\ [][ENext]_evars

Done == pc = "done"

(* the table image the writer produced *)
Result ==
    LET fdePos == SelectSeq([n \in 1..Len(out) |-> n], LAMBDA n : out[n].kind = "fde")
        ciePos == SelectSeq([n \in 1..Len(out) |-> n], LAMBDA n : out[n].kind = "cie")
    IN  [hdr |-> TRUE, closed |-> TRUE, fmt |-> <<>>, fdeCount |-> Len(rows), rows |-> rows,
         fdes |-> [n \in 1..Len(fdePos) |-> [addr |-> fdePos[n], pc |-> addrOf[out[fdePos[n]].fn] + out[fdePos[n]].skew, len |-> FnLen,
                                             cie |-> out[fdePos[n]].cie]],
         cies |-> ciePos,
         funcs |-> [f \in AllFns |-> [id |-> f, kept |-> status[f] \in {"kept", "empty"}, addr |-> addrOf[f],
                                      len |-> IF status[f] = "empty" THEN 0 ELSE FnLen, hadFde |-> TRUE]]]

DoneTablesOK ==
    Done => (TablesOK(Result) \/ (PrintT(<<"MODEL-FAIL", {Preds[n] : n \in FailingPreds(Result)}>>) /\ FALSE))
=============================================================================
