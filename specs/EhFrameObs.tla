----------------------------- MODULE EhFrameObs -----------------------------
(***************************************************************************)
(* C10, observed-state validation: the predicates of EhFrame.tla evaluated *)
(* by TLC on table images observed from real linker outputs (one JSON      *)
(* object per line of the file named by the environment variable OBS,      *)
(* produced by harness/py/checks/c10.py with the parser vlib/ehframe.py).  *)
(***************************************************************************)
EXTENDS EhFrame, Json, IOUtils

Obs == ndJsonDeserialize(IOEnv.OBS)

Report(t) ==
    LET F == FailingPreds(t) IN
    /\ \A n \in F : PrintT(<<"EH-FAIL", t.id, Preds[n], BadOf(Preds[n], t)>>)
    /\ PrintT(<<"EH-CHECKED", t.id, Cardinality(F), Len(t.fdes), Len(t.rows)>>)

ASSUME \A n \in 1..Len(Obs) : Report(Obs[n])

ObsNFn == <<1>>
ObsPerms == {<<10>>}
ObsTails == {<<FALSE>>}

VARIABLE done
OInit == done = FALSE
ONext == done' = TRUE
OSpec == OInit /\ [][ONext]_done
=============================================================================
