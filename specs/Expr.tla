-------------------------------- MODULE Expr --------------------------------
(***************************************************************************)
(* C16: linker-script expressions evaluate as in GNU ld.                   *)
(*                                                                         *)
(* An expression is a sequence of tokens.  The module defines              *)
(*   CParse   the DECLARATIVE reading of a token string under the          *)
(*            C / ldgram.y precedence and associativity table: the root    *)
(*            of an operand string is its rightmost top-level binary       *)
(*            operator of lowest precedence,                               *)
(*   Climb    the OPERATIONAL recursive-descent ("one function per         *)
(*            precedence level") parser, generic in a level table; with    *)
(*            the C table it must agree with CParse (invariant             *)
(*            ParserAgreement); with WildTable it is a transcription of    *)
(*            libwild/src/linker_script.rs parse_logical_or ..             *)
(*            parse_unary as of the pinned tree, used ONLY to name the     *)
(*            class of a deviation that was observed on the real binary,   *)
(*   Eval     the value on 64-bit words (Word64): wrapping + - *, signed    *)
(*            / and %, unsigned comparisons / MIN / MAX / >>, shift        *)
(*            counts mod 64, ! ~ unary -, strict && || (GNU ld evaluates   *)
(*            both operands: `1 || 1/0` is an error there),                *)
(*   AssertFails(e) <=> Eval(e) = 0.                                       *)
(* The model-checking module MCExpr grows well-formed token strings and    *)
(* prints every one with its value; the harness replays them through       *)
(* `wild` and GNU ld as ASSERT((e) == v, "eN") lines.                      *)
(***************************************************************************)
EXTENDS Naturals, Sequences, FiniteSets, Word64

(* ---- tokens ---------------------------------------------------------- *)
LitVal ==
  [t \in {"0", "1", "2", "3", "5", "63", "64", "65", "0x80000000", "0x100000000",
          "0x7fffffffffffffff", "0x8000000000000000", "0xffffffffffffffff", "0xfffffffffffffffa"} |->
     CASE t = "0" -> WZero
       [] t = "1" -> WOne
       [] t = "2" -> WFromNat(2)
       [] t = "3" -> WFromNat(3)
       [] t = "5" -> WFromNat(5)
       [] t = "63" -> WFromNat(63)
       [] t = "64" -> WFromNat(64)
       [] t = "65" -> WFromNat(65)
       [] t = "0x80000000" -> WPow2(31)
       [] t = "0x100000000" -> WPow2(32)
       [] t = "0x7fffffffffffffff" -> WNot(WPow2(63))
       [] t = "0x8000000000000000" -> WPow2(63)
       [] t = "0xffffffffffffffff" -> WAllOnes
       [] t = "0xfffffffffffffffa" -> WNeg(WFromNat(6))]
Lits == DOMAIN LitVal

BinOps == {"||", "&&", "|", "^", "&", "==", "!=", "<", "<=", ">", ">=", "<<", ">>", "+", "-", "*", "/", "%"}
UnOps == {"-", "~", "!"}
Fns2 == {"MIN", "MAX"}
Fns1 == {"ALIGN"}

(* ---- ASTs ------------------------------------------------------------ *)
Lit(t) == [k |-> "lit", v |-> t]
Un(op, a) == [k |-> "un", op |-> op, a |-> a]
Bin(op, l, r) == [k |-> "bin", op |-> op, l |-> l, r |-> r]
Fn2(f, l, r) == [k |-> "fn2", op |-> f, l |-> l, r |-> r]
Fn1(f, a) == [k |-> "fn1", op |-> f, a |-> a]

(* ---- the C / GNU ld (ldgram.y) table: higher binds tighter, all left-associative ---- *)
CPrec(op) ==
  CASE op = "||" -> 1
    [] op = "&&" -> 2
    [] op = "|" -> 3
    [] op = "^" -> 4
    [] op = "&" -> 5
    [] op \in {"==", "!="} -> 6
    [] op \in {"<", "<=", ">", ">="} -> 7
    [] op \in {"<<", ">>"} -> 8
    [] op \in {"+", "-"} -> 9
    [] op \in {"*", "/", "%"} -> 10

(* ---- declarative parse ------------------------------------------------ *)
OperandEnd(t) == t = ")" \/ t \in Lits
(* a token in BinOps is a binary operator iff it follows the end of an operand ("-" is both) *)
IsBinAt(ts, i) == ts[i] \in BinOps /\ i > 1 /\ OperandEnd(ts[i - 1])
RECURSIVE DepthBefore(_, _)
DepthBefore(ts, i) ==
  IF i <= 1 THEN 0
  ELSE DepthBefore(ts, i - 1) + (IF ts[i - 1] = "(" THEN 1 ELSE 0) - (IF ts[i - 1] = ")" THEN 1 ELSE 0)
TopAt(ts, i) == DepthBefore(ts, i) = 0
SetMin(S) == CHOOSE x \in S : \A y \in S : x <= y
SetMax(S) == CHOOSE x \in S : \A y \in S : x >= y

RECURSIVE CParse(_)
CParse(ts) ==
  LET n == Len(ts)
      top == {i \in 1..n : IsBinAt(ts, i) /\ TopAt(ts, i)}
  IN IF top # {} THEN
       LET lo == SetMin({CPrec(ts[i]) : i \in top})
           i == SetMax({j \in top : CPrec(ts[j]) = lo})
       IN Bin(ts[i], CParse(SubSeq(ts, 1, i - 1)), CParse(SubSeq(ts, i + 1, n)))
     ELSE IF ts[1] \in UnOps THEN Un(ts[1], CParse(Tail(ts)))
     ELSE IF ts[1] = "(" THEN CParse(SubSeq(ts, 2, n - 1))
     ELSE IF ts[1] \in Fns2 THEN
       LET c == CHOOSE j \in 3..n : ts[j] = "," /\ DepthBefore(ts, j) = 1
       IN Fn2(ts[1], CParse(SubSeq(ts, 3, c - 1)), CParse(SubSeq(ts, c + 1, n - 1)))
     ELSE IF ts[1] \in Fns1 THEN Fn1(ts[1], CParse(SubSeq(ts, 3, n - 1)))
     ELSE Lit(ts[1])

(* ---- operational parse: one function per level, generic in the table -- *)
(* A table: max (number of binary levels), ops[L] (operators of level L, 1 = loosest),
   loop[L] (TRUE: `while` another operator of the level follows; FALSE: at most one, `if`). *)
(* (written out as tuples: TLC would re-evaluate a function constructor at every application;
   CTableMatchesCPrec ties the tuple to CPrec) *)
CTable ==
  [max |-> 10,
   ops |-> <<{"||"}, {"&&"}, {"|"}, {"^"}, {"&"}, {"==", "!="}, {"<", "<=", ">", ">="}, {"<<", ">>"},
             {"+", "-"}, {"*", "/", "%"}>>,
   loop |-> <<TRUE, TRUE, TRUE, TRUE, TRUE, TRUE, TRUE, TRUE, TRUE, TRUE>>]
CTableMatchesCPrec == \A L \in 1..10 : CTable.ops[L] = {op \in BinOps : CPrec(op) = L}
(* libwild/src/linker_script.rs: parse_logical_or > parse_logical_and > parse_comparison (a single
   optional comparison, all six operators on one level) > parse_bitwise_or > parse_bitwise_xor >
   parse_bitwise_and > parse_shift > parse_additive > parse_multiplicative (no %) > parse_unary *)
WildTable ==
  [max |-> 9,
   ops |-> <<{"||"}, {"&&"}, {"==", "!=", "<", "<=", ">", ">="}, {"|"}, {"^"}, {"&"}, {"<<", ">>"},
             {"+", "-"}, {"*", "/"}>>,
   loop |-> <<TRUE, TRUE, FALSE, TRUE, TRUE, TRUE, TRUE, TRUE, TRUE>>]

Fail == [err |-> TRUE, ast |-> Lit("0"), pos |-> 0]
Ok(a, p) == [err |-> FALSE, ast |-> a, pos |-> p]
Tok(ts, p) == IF p <= Len(ts) THEN ts[p] ELSE "<eof>"

RECURSIVE PLevel(_, _, _, _), PLoop(_, _, _, _, _, _), PUnary(_, _, _), PPrimary(_, _, _)
PLevel(T, ts, p, L) ==
  IF L > T.max THEN PUnary(T, ts, p)
  ELSE LET f == PLevel(T, ts, p, L + 1) IN IF f.err THEN f ELSE PLoop(T, ts, f.ast, f.pos, L, TRUE)
PLoop(T, ts, left, p, L, first) ==
  IF Tok(ts, p) \in T.ops[L] /\ (first \/ T.loop[L]) THEN
    LET r == PLevel(T, ts, p + 1, L + 1)
    IN IF r.err THEN r ELSE PLoop(T, ts, Bin(ts[p], left, r.ast), r.pos, L, FALSE)
  ELSE Ok(left, p)
PUnary(T, ts, p) ==
  IF Tok(ts, p) \in UnOps THEN
    LET r == PUnary(T, ts, p + 1) IN IF r.err THEN r ELSE Ok(Un(ts[p], r.ast), r.pos)
  ELSE PPrimary(T, ts, p)
PPrimary(T, ts, p) ==
  LET t == Tok(ts, p) IN
  IF t = "(" THEN
    LET r == PLevel(T, ts, p + 1, 1)
    IN IF r.err \/ Tok(ts, r.pos) # ")" THEN Fail ELSE Ok(r.ast, r.pos + 1)
  ELSE IF t \in Fns2 /\ Tok(ts, p + 1) = "(" THEN
    LET a == PLevel(T, ts, p + 2, 1) IN
    IF a.err \/ Tok(ts, a.pos) # "," THEN Fail
    ELSE LET b == PLevel(T, ts, a.pos + 1, 1)
         IN IF b.err \/ Tok(ts, b.pos) # ")" THEN Fail ELSE Ok(Fn2(t, a.ast, b.ast), b.pos + 1)
  ELSE IF t \in Fns1 /\ Tok(ts, p + 1) = "(" THEN
    LET a == PLevel(T, ts, p + 2, 1)
    IN IF a.err \/ Tok(ts, a.pos) # ")" THEN Fail ELSE Ok(Fn1(t, a.ast), a.pos + 1)
  ELSE IF t \in Lits THEN Ok(Lit(t), p + 1)
  ELSE Fail

(* the whole string must be consumed *)
Climb(T, ts) ==
  LET r == PLevel(T, ts, 1, 1)
  IN IF r.err \/ r.pos # Len(ts) + 1 THEN [ok |-> FALSE, ast |-> Lit("0")] ELSE [ok |-> TRUE, ast |-> r.ast]

ParserAgreementAt(ts) == LET c == Climb(CTable, ts) IN c.ok /\ c.ast = CParse(ts)

(* ---- evaluation -------------------------------------------------------- *)
(* A result: st = "ok" with the word w; "divzero" (GNU ld: fatal "/ by zero"); "undef" (C undefined:
   most negative / -1 -- GNU ld 2.40 dies with SIGFPE; outside the property). *)
Val(w) == [st |-> "ok", w |-> w]
Bad(s) == [st |-> s, w |-> WZero]

(* sdiv: TRUE = the specification (signed / and %); FALSE = the deliberately wrong variant
   "unsigned division" (what wild computed before the fix of expression_eval.rs; it exists only so
   that the check can show that GNU ld refutes it - anti-vacuity - and can name the class `div-unsigned`
   should that behaviour ever come back). *)
BinVal(op, x, y, sdiv) ==
  CASE op = "+" -> Val(WAdd(x, y))
    [] op = "-" -> Val(WSub(x, y))
    [] op = "*" -> Val(WMul(x, y))
    [] op \in {"/", "%"} ->
         IF y = WZero THEN Bad("divzero")
         ELSE IF sdiv /\ x = WMinSigned /\ y = WAllOnes THEN Bad("undef")
         ELSE IF op = "/" THEN Val(IF sdiv THEN WSDiv(x, y) ELSE WUDiv(x, y))
         ELSE Val(IF sdiv THEN WSMod(x, y) ELSE WUMod(x, y))
    [] op = "<<" -> Val(WShl(x, WLow6(y)))
    [] op = ">>" -> Val(WShr(x, WLow6(y)))
    [] op = "&" -> Val(WAnd(x, y))
    [] op = "|" -> Val(WOr(x, y))
    [] op = "^" -> Val(WXor(x, y))
    [] op = "==" -> Val(WBool(x = y))
    [] op = "!=" -> Val(WBool(x # y))
    [] op = "<" -> Val(WBool(WULt(x, y)))
    [] op = "<=" -> Val(WBool(WULe(x, y)))
    [] op = ">" -> Val(WBool(WULt(y, x)))
    [] op = ">=" -> Val(WBool(WULe(y, x)))
    [] op = "&&" -> Val(WBool(x # WZero /\ y # WZero))
    [] op = "||" -> Val(WBool(x # WZero \/ y # WZero))

RECURSIVE Eval(_, _)
Eval(a, sdiv) ==
  CASE a.k = "lit" -> Val(LitVal[a.v])
    [] a.k = "un" ->
         LET u == Eval(a.a, sdiv) IN
         IF u.st # "ok" THEN u
         ELSE (CASE a.op = "-" -> Val(WNeg(u.w))
                 [] a.op = "~" -> Val(WNot(u.w))
                 [] a.op = "!" -> Val(WBool(u.w = WZero)))
    [] a.k = "bin" ->
         LET x == Eval(a.l, sdiv)
             y == Eval(a.r, sdiv)
         IN IF x.st # "ok" THEN x ELSE IF y.st # "ok" THEN y ELSE BinVal(a.op, x.w, y.w, sdiv)
    [] a.k = "fn2" ->
         LET f == Eval(a.l, sdiv)
             g == Eval(a.r, sdiv)
         IN IF f.st # "ok" THEN f ELSE IF g.st # "ok" THEN g
            ELSE IF a.op = "MIN" THEN Val(IF WULt(g.w, f.w) THEN g.w ELSE f.w)
            ELSE Val(IF WULt(f.w, g.w) THEN g.w ELSE f.w)
    [] a.k = "fn1" ->
         (* ALIGN(n) in a top-level ASSERT: the location counter is 0, aligned up it stays 0 *)
         LET h == Eval(a.a, sdiv) IN IF h.st # "ok" THEN h ELSE Val(WZero)

Value(ts) == Eval(CParse(ts), TRUE)
AssertFails(ts) == LET v == Value(ts) IN v.st = "ok" /\ v.w = WZero

(* some ALIGN in the tree is applied to 0 (GNU ld: the value is the location counter; wild refuses) *)
RECURSIVE AlignOfZero(_)
AlignOfZero(a) ==
  CASE a.k = "lit" -> FALSE
    [] a.k = "un" -> AlignOfZero(a.a)
    [] a.k \in {"bin", "fn2"} -> AlignOfZero(a.l) \/ AlignOfZero(a.r)
    [] a.k = "fn1" -> AlignOfZero(a.a) \/ (LET z == Eval(a.a, TRUE) IN z.st = "ok" /\ z.w = WZero)

HasDiv(ts) == \E i \in 1..Len(ts) : ts[i] \in {"/", "%"}
=============================================================================
