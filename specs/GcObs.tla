------------------------------- MODULE GcObs -------------------------------
(***************************************************************************)
(* Observed-state check for C05: each line of the ndjson file named by the *)
(* environment variable OBS describes one real link: the reference graph   *)
(* the harness generated (nodes 1..n, edges, roots) and the set of nodes   *)
(* whose marker bytes were found in wild's output.  The reachability       *)
(* operator is the same recursive closure GcTraversal uses for `Closure`;  *)
(* the property evaluated is the one C05 states: nothing reachable from    *)
(* the roots is dropped (and, with GC on, what was dropped is unreachable). *)
(***************************************************************************)
EXTENDS Integers, Sequences, FiniteSets, TLC, Json, IOUtils

Obs == ndJsonDeserialize(IOEnv.OBS)

ToSet(s) == {s[i] : i \in 1..Len(s)}
(* Sections whose name is a C identifier form a set delimited by the linker-defined symbols __start_X / __stop_X.
   A reference to EITHER boundary symbol (setrefs: <<referencing node, set, "both" | "start" | "stop">>) from a
   live section keeps EVERY section of that name in every input file (setmembers: <<set, node>>). *)
SetSucc(o, n) == {m[2] : m \in {x \in ToSet(o.setmembers) : \E r \in ToSet(o.setrefs) : r[1] = n /\ r[2] = x[1]}}
Succ(o, n) == {e[2] : e \in {x \in ToSet(o.edges) : x[1] = n}} \cup SetSucc(o, n)

RECURSIVE ReachFrom(_, _)
ReachFrom(o, S) ==
    LET N == S \cup UNION {Succ(o, n) : n \in S}
    IN IF N = S THEN S ELSE ReachFrom(o, N)

Reach(o) == ReachFrom(o, ToSet(o.roots))

KeepsReachable(o) == Reach(o) \subseteq ToSet(o.kept)
(* informational: with --gc-sections nothing unreachable should survive, unless it must be kept *)
DropsUnreachable(o) == o.gc => (ToSet(o.kept) \subseteq Reach(o) \cup ToSet(o.mustkeep))

Bad == {i \in 1..Len(Obs) : ~KeepsReachable(Obs[i])}
NotCollected == {i \in 1..Len(Obs) : ~DropsUnreachable(Obs[i])}

VARIABLE done
Init == done = FALSE
Next == done' = TRUE
Spec == Init /\ [][Next]_done

Report ==
    /\ TLCGet("stats").diameter >= 0
    /\ PrintT(<<"OBS-COUNT", Len(Obs)>>)
    /\ PrintT(<<"OBS-BAD", Bad>>)
    /\ PrintT(<<"OBS-NOTCOLLECTED", NotCollected>>)
    /\ \A i \in Bad : PrintT(<<"OBS-MISSING", i, Reach(Obs[i]) \ ToSet(Obs[i].kept)>>)
=============================================================================
