------------------------------ MODULE GcProto ------------------------------
(***************************************************************************)
(* Protocol layer of wild's parallel "find required sections" traversal    *)
(* (libwild/src/layout.rs: find_required_sections, activate_group,         *)
(* GroupState::do_pending_work, GraphResources::send_work).                *)
(*                                                                         *)
(* One action per critical section / linearisation point of the code.      *)
(* Work items are abstracted to counts; GcTraversal.tla adds the data      *)
(* layer (which item requests which) and is checked by TLC to refine this  *)
(* module.  Traces recorded from the real linker are validated against     *)
(* this module (GcProtoTrace.tla).                                         *)
(*                                                                         *)
(* A GroupState is an owned Rust value, so it is in exactly one place:     *)
(* loc[g] says where.  Threads of control are the per-group activation     *)
(* tasks (atask[g]) and tasks spawned by send_work when it takes a parked  *)
(* worker out of a slot.                                                   *)
(***************************************************************************)
EXTENDS Integers, Sequences, FiniteSets

CONSTANTS Groups,      \* set of group indexes
          Delayed      \* subset of Groups whose processing is delayed until all groups have activated
                       \* (the group holding the synthetic start/stop symbols)

VARIABLES loc,         \* loc[g]: where group g's GroupState is
          runner,      \* runner[g]: which task is executing do_pending_work(g): an activation task id, "spawned" or "none"
          atask,       \* atask[a]: program counter of the activation task spawned for group a
          slotN,       \* slotN[g]: number of work items in worker_slots[g].work
          localN,      \* localN[g]: number of work items in g's local queue
          remaining,   \* activations_remaining
          delayQ,      \* delay_processing (ArrayQueue of capacity 1)
          nerrors,     \* number of errors pushed to resources.errors
          scopeEnd     \* the rayon scope has ended

pvars == <<loc, runner, atask, slotN, localN, remaining, delayQ, nerrors, scopeEnd>>

Locs == {"unborn", "activating", "running", "spawning", "parked", "delayed", "dropped"}
APcs == {"start", "activating", "pushing", "working", "dec", "drain", "workingDelayed", "done"}
NoTask == -1
SpawnedTask == -2

PTypeOK ==
    /\ loc \in [Groups -> Locs]
    /\ runner \in [Groups -> Groups \cup {NoTask, SpawnedTask}]
    /\ atask \in [Groups -> APcs]
    /\ slotN \in [Groups -> Nat]
    /\ localN \in [Groups -> Nat]
    /\ remaining \in 0..Cardinality(Groups)
    /\ delayQ \in Seq(Groups)
    /\ nerrors \in Nat
    /\ scopeEnd \in BOOLEAN

PInit ==
    /\ loc = [g \in Groups |-> "unborn"]
    /\ runner = [g \in Groups |-> NoTask]
    /\ atask = [g \in Groups |-> "start"]
    /\ slotN = [g \in Groups |-> 0]
    /\ localN = [g \in Groups |-> 0]
    /\ remaining = Cardinality(Groups)
    /\ delayQ = <<>>
    /\ nerrors = 0
    /\ scopeEnd = FALSE

(* A group on whose behalf code is currently executing and may send requests. *)
Live(g) == loc[g] \in {"activating", "running"}

(* do_pending_work(g) returned: the task that was running it carries on. *)
RunnerContinues(g) ==
    IF runner[g] \in Groups
    THEN atask' = [atask EXCEPT ![runner[g]] =
                      IF atask[runner[g]] = "working" THEN "dec" ELSE "drain"]
    ELSE UNCHANGED atask

(* activate_group begins: the GroupState is created. *)
ActBegin(g) ==
    /\ atask[g] = "start"
    /\ atask' = [atask EXCEPT ![g] = "activating"]
    /\ loc' = [loc EXCEPT ![g] = "activating"]
    /\ UNCHANGED <<runner, slotN, localN, remaining, delayQ, nerrors, scopeEnd>>

(* LocalWorkQueue::send_work, same-group branch. *)
SendLocal(g) ==
    /\ Live(g)
    /\ localN' = [localN EXCEPT ![g] = @ + 1]
    /\ UNCHANGED <<loc, runner, atask, slotN, remaining, delayQ, nerrors, scopeEnd>>

(* GraphResources::send_work: under worker_slots[to]'s lock, take the parked worker (if any) and
   push the work.  Taking the worker obliges the sender to spawn a task for it. *)
Send(to) ==
    /\ \E g \in Groups : Live(g)
    /\ slotN' = [slotN EXCEPT ![to] = @ + 1]
    /\ loc' = [loc EXCEPT ![to] = IF @ = "parked" THEN "spawning" ELSE @]
    /\ UNCHANGED <<runner, atask, localN, remaining, delayQ, nerrors, scopeEnd>>

(* An error is pushed to resources.errors without stopping the worker (e.g. undefined symbol). *)
ErrPush ==
    /\ \E g \in Groups : Live(g)
    /\ nerrors' = nerrors + 1
    /\ UNCHANGED <<loc, runner, atask, slotN, localN, remaining, delayQ, scopeEnd>>

(* End of the activation loop: a delayed group is about to be queued, any other starts working. *)
ActEnd(g) ==
    /\ atask[g] = "activating"
    /\ IF g \in Delayed
       THEN /\ loc' = [loc EXCEPT ![g] = "delayed"]
            /\ atask' = [atask EXCEPT ![g] = "pushing"]
            /\ UNCHANGED runner
       ELSE /\ loc' = [loc EXCEPT ![g] = "running"]
            /\ runner' = [runner EXCEPT ![g] = g]
            /\ atask' = [atask EXCEPT ![g] = "working"]
    /\ UNCHANGED <<slotN, localN, remaining, delayQ, nerrors, scopeEnd>>

(* delay_processing.push(group): only afterwards does the task decrement activations_remaining, so
   whoever brings the counter to zero finds the delayed group in the queue. *)
DelayPush(g) ==
    /\ atask[g] = "pushing"
    /\ Len(delayQ) < 1      \* ArrayQueue::new(1) ... push(..).unwrap()
    /\ delayQ' = Append(delayQ, g)
    /\ atask' = [atask EXCEPT ![g] = "dec"]
    /\ UNCHANGED <<loc, runner, slotN, localN, remaining, nerrors, scopeEnd>>

(* do_pending_work pops one item from the local queue and handles it. *)
Item(g) ==
    /\ loc[g] = "running"
    /\ localN[g] > 0
    /\ localN' = [localN EXCEPT ![g] = @ - 1]
    /\ UNCHANGED <<loc, runner, atask, slotN, remaining, delayQ, nerrors, scopeEnd>>

(* Handling an item failed: the error has been pushed (ErrPush) and now the GroupState is dropped -
   the worker never returns to its slot. *)
Fail(g) ==
    /\ loc[g] = "running"
    /\ nerrors > 0
    /\ loc' = [loc EXCEPT ![g] = "dropped"]
    /\ runner' = [runner EXCEPT ![g] = NoTask]
    /\ RunnerContinues(g)
    /\ UNCHANGED <<slotN, localN, remaining, delayQ, nerrors, scopeEnd>>

(* Item and ErrPush as one step (an item whose handling reports an error and carries on). *)
ItemErr(g) ==
    /\ loc[g] = "running"
    /\ localN[g] > 0
    /\ localN' = [localN EXCEPT ![g] = @ - 1]
    /\ nerrors' = nerrors + 1
    /\ UNCHANGED <<loc, runner, atask, slotN, remaining, delayQ, scopeEnd>>

(* Item, ErrPush and Fail as one step (the data-level model takes them together). *)
ItemFail(g) ==
    /\ loc[g] = "running"
    /\ localN[g] > 0
    /\ localN' = [localN EXCEPT ![g] = @ - 1]
    /\ loc' = [loc EXCEPT ![g] = "dropped"]
    /\ nerrors' = nerrors + 1
    /\ runner' = [runner EXCEPT ![g] = NoTask]
    /\ RunnerContinues(g)
    /\ UNCHANGED <<slotN, remaining, delayQ, scopeEnd>>

(* Under worker_slots[g]'s lock: nothing queued, so park the worker in the slot. *)
SlotPark(g) ==
    /\ loc[g] = "running"
    /\ localN[g] = 0
    /\ slotN[g] = 0
    /\ loc' = [loc EXCEPT ![g] = "parked"]
    /\ runner' = [runner EXCEPT ![g] = NoTask]
    /\ RunnerContinues(g)
    /\ UNCHANGED <<slotN, localN, remaining, delayQ, nerrors, scopeEnd>>

(* Under worker_slots[g]'s lock: take everything that was queued. *)
SlotSwap(g) ==
    /\ loc[g] = "running"
    /\ localN[g] = 0
    /\ slotN[g] > 0
    /\ localN' = [localN EXCEPT ![g] = slotN[g]]
    /\ slotN' = [slotN EXCEPT ![g] = 0]
    /\ UNCHANGED <<loc, runner, atask, remaining, delayQ, nerrors, scopeEnd>>

(* The task spawned by send_work for a worker it took starts running. *)
TaskStart(g) ==
    /\ loc[g] = "spawning"
    /\ loc' = [loc EXCEPT ![g] = "running"]
    /\ runner' = [runner EXCEPT ![g] = SpawnedTask]
    /\ UNCHANGED <<atask, slotN, localN, remaining, delayQ, nerrors, scopeEnd>>

(* activations_remaining.fetch_sub(1) *)
Dec(a) ==
    /\ atask[a] = "dec"
    /\ remaining > 0
    /\ remaining' = remaining - 1
    /\ atask' = [atask EXCEPT ![a] = IF remaining' = 0 THEN "drain" ELSE "done"]
    /\ UNCHANGED <<loc, runner, slotN, localN, delayQ, nerrors, scopeEnd>>

(* `while let Some(group) = delay_processing.pop()`: got one; run it inline. *)
DelayPop(a, d) ==
    /\ atask[a] = "drain"
    /\ delayQ # <<>>
    /\ d = Head(delayQ)
    /\ delayQ' = Tail(delayQ)
    /\ loc' = [loc EXCEPT ![d] = "running"]
    /\ runner' = [runner EXCEPT ![d] = a]
    /\ atask' = [atask EXCEPT ![a] = "workingDelayed"]
    /\ UNCHANGED <<slotN, localN, remaining, nerrors, scopeEnd>>

(* ... got None: the activation task is finished. *)
DrainEmpty(a) ==
    /\ atask[a] = "drain"
    /\ delayQ = <<>>
    /\ atask' = [atask EXCEPT ![a] = "done"]
    /\ UNCHANGED <<loc, runner, slotN, localN, remaining, delayQ, nerrors, scopeEnd>>

Quiescent ==
    /\ \A g \in Groups : atask[g] = "done"
    /\ \A g \in Groups : loc[g] \notin {"activating", "running", "spawning"}

(* rayon::in_place_scope returns once every spawned task has completed. *)
ScopeEnd ==
    /\ ~scopeEnd
    /\ Quiescent
    /\ scopeEnd' = TRUE
    /\ UNCHANGED <<loc, runner, atask, slotN, localN, remaining, delayQ, nerrors>>

PNext ==
    \/ \E g \in Groups : ActBegin(g) \/ SendLocal(g) \/ Send(g) \/ ActEnd(g) \/ Item(g) \/ Fail(g)
                         \/ SlotPark(g) \/ SlotSwap(g) \/ TaskStart(g) \/ Dec(g) \/ DrainEmpty(g)
                         \/ ItemFail(g) \/ ItemErr(g) \/ DelayPush(g)
    \/ \E a, d \in Groups : DelayPop(a, d)
    \/ ErrPush
    \/ ScopeEnd

PSpec == PInit /\ [][PNext]_pvars

-----------------------------------------------------------------------------
(* Properties of the protocol layer. *)

(* Every request one group sent to another was handed to the receiving group: when the scope ends
   without errors, nothing is left in any slot or local queue and every worker is back in its slot. *)
NoLostRequest ==
    (scopeEnd /\ nerrors = 0) =>
        \A g \in Groups : slotN[g] = 0 /\ localN[g] = 0 /\ loc[g] = "parked"

(* A parked worker never sits next to queued work: whoever queues work takes the worker. *)
ParkedMeansEmpty == \A g \in Groups : loc[g] = "parked" => slotN[g] = 0 /\ localN[g] = 0

(* The delayed group only runs once every group has finished activating. *)
DelayedAfterActivation ==
    \A d \in Delayed : loc[d] \in {"running", "spawning", "parked", "dropped"} => remaining = 0

(* Exactly one task runs do_pending_work(g) whenever g is running. *)
RunnerConsistent ==
    \A g \in Groups :
        /\ (loc[g] = "running") <=> (runner[g] # NoTask)
        /\ runner[g] \in Groups =>
              \/ (runner[g] = g /\ atask[g] = "working")
              \/ (g \in Delayed /\ atask[runner[g]] = "workingDelayed")

(* No two groups are being run by the same activation task. *)
OneGroupPerTask ==
    \A g, h \in Groups : (g # h /\ runner[g] \in Groups) => runner[g] # runner[h]

DelayQBounded == Len(delayQ) <= 1

(* Nobody can see the counter at zero while a delayed group is still on its way into the queue. *)
DelayedQueuedBeforeZero == remaining = 0 => \A d \in Delayed : atask[d] \notin {"start", "activating", "pushing"}

(* A dropped worker implies the link fails: its error is in the queue. *)
DroppedMeansError == (\E g \in Groups : loc[g] = "dropped") => nerrors > 0

PInv == PTypeOK /\ NoLostRequest /\ ParkedMeansEmpty /\ DelayedAfterActivation
        /\ RunnerConsistent /\ OneGroupPerTask /\ DelayQBounded /\ DroppedMeansError /\ DelayedQueuedBeforeZero
=============================================================================
