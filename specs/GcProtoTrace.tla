---------------------------- MODULE GcProtoTrace ----------------------------
(***************************************************************************)
(* Trace validation of wild's GC traversal against GcProto.               *)
(* The trace is the ndjson file named by the environment variable TRACE:   *)
(* one event per protocol step, in the order in which the (lock-protected) *)
(* steps were linearised by the hook (libwild/src/verif.rs).  One link   *)
(* per trace file.                                                         *)
(* Each event is bound to the GcProto action of the same name; logged      *)
(* scalars (queue lengths, took-worker flag, remaining counter) must agree *)
(* with the model state.  DrainEmpty is not observable and is composed     *)
(* silently where needed.                                                  *)
(***************************************************************************)
EXTENDS Integers, Sequences, FiniteSets, TLC, Json, IOUtils

Rec == ndJsonDeserialize(IOEnv.TRACE)

VARIABLES loc, runner, atask, slotN, localN, remaining, delayQ, nerrors, scopeEnd,
          decVal,   \* decVal[a]: value activations_remaining had after task a's fetch_sub (-1: not yet)
          l         \* index of the next event to consume

(* One link per trace file.  Its first event gives the number of groups; the delayed group is the
   one whose ActEnd event says so (which group holds the synthetic symbols is part of the input
   configuration, not something the protocol decides). *)
Groups == 0..(Rec[1].groups - 1)
Delayed == {Rec[k].g : k \in {j \in 1..Len(Rec) : Rec[j].ev = "ActEnd" /\ Rec[j].delayed}}

P == INSTANCE GcProto

tvars == <<loc, runner, atask, slotN, localN, remaining, delayQ, nerrors, scopeEnd, decVal, l>>

Ev == Rec[l]
IsEv(name) == l <= Len(Rec) /\ Rec[l].ev = name /\ l' = l + 1 /\ UNCHANGED decVal

TInit == P!PInit /\ l = 1 /\ decVal = [g \in Groups |-> -1] /\ TLCSet(1, 1)

TScopeBegin == l = 1 /\ IsEv("ScopeBegin") /\ UNCHANGED <<loc, runner, atask, slotN, localN, remaining, delayQ, nerrors, scopeEnd>>

TActBegin == IsEv("ActBegin") /\ Ev.g \in Groups /\ P!ActBegin(Ev.g)

TSendLocal == IsEv("SendLocal") /\ Ev.g \in Groups /\ P!SendLocal(Ev.g)

TSend ==
    /\ IsEv("Send") /\ Ev.to \in Groups
    /\ Ev.took = (loc[Ev.to] = "parked")          \* the worker was there iff the model says so
    /\ P!Send(Ev.to)
    /\ slotN'[Ev.to] = Ev.n                        \* logged queue length after the push

TErr == IsEv("Err") /\ P!ErrPush

TActEnd ==
    /\ IsEv("ActEnd") /\ Ev.g \in Groups
    /\ localN[Ev.g] = Ev.local
    /\ P!ActEnd(Ev.g)
    /\ (loc'[Ev.g] = "delayed") = Ev.delayed

TDelayPush == IsEv("DelayPush") /\ Ev.g \in Groups /\ P!DelayPush(Ev.g)

TItem ==
    /\ IsEv("Item") /\ Ev.g \in Groups
    /\ P!Item(Ev.g)
    /\ localN'[Ev.g] = Ev.local

TFail == IsEv("Fail") /\ Ev.g \in Groups /\ P!Fail(Ev.g)

TSlotPark == IsEv("SlotPark") /\ Ev.g \in Groups /\ P!SlotPark(Ev.g)

TSlotSwap ==
    /\ IsEv("SlotSwap") /\ Ev.g \in Groups
    /\ slotN[Ev.g] = Ev.n
    /\ P!SlotSwap(Ev.g)

TTaskStart == IsEv("TaskStart") /\ Ev.g \in Groups /\ P!TaskStart(Ev.g)

(* The fetch_sub is lock-free, so its event is logged some time after the atomic step itself and
   events of different tasks may appear out of counter order.  The step is therefore silent
   (TSilentDec) and the event only has to report the value the model's counter had for that task:
   the values returned by the atomic operation determine the real order. *)
TSilentDec ==
    /\ l <= Len(Rec)
    /\ \E a \in Groups :
          /\ P!Dec(a)
          /\ decVal' = [decVal EXCEPT ![a] = remaining']
    /\ UNCHANGED l

TActDec ==
    /\ l <= Len(Rec) /\ Rec[l].ev = "ActDec" /\ l' = l + 1
    /\ Ev.g \in Groups
    /\ decVal[Ev.g] = Ev.remaining
    /\ decVal' = [decVal EXCEPT ![Ev.g] = -2]
    /\ UNCHANGED <<loc, runner, atask, slotN, localN, remaining, delayQ, nerrors, scopeEnd>>

TDelayPop == IsEv("DelayPop") /\ Ev.by \in Groups /\ Ev.g \in Groups /\ P!DelayPop(Ev.by, Ev.g)

(* The end of the scope, with the real final content of every slot. *)
TScopeEnd ==
    /\ IsEv("ScopeEnd")
    /\ P!ScopeEnd
    /\ Ev.errors = nerrors
    /\ \A g \in Groups :
          /\ Ev.slots[g + 1][1] = slotN[g]
          /\ Ev.slots[g + 1][2] = (loc[g] = "parked")

(* Unobservable: an activation task finds the delay queue empty and finishes. Bounded because it
   only ever moves a task from "drain" to "done". *)
TSilentDrain ==
    /\ l <= Len(Rec)
    /\ \E a \in Groups : P!DrainEmpty(a)
    /\ UNCHANGED <<l, decVal>>

TNext ==
    \/ TScopeBegin \/ TDelayPush \/ TActBegin \/ TSendLocal \/ TSend \/ TErr \/ TActEnd \/ TItem \/ TFail
    \/ TSlotPark \/ TSlotSwap \/ TTaskStart \/ TActDec \/ TDelayPop \/ TScopeEnd \/ TSilentDrain \/ TSilentDec

TSpec == TInit /\ [][TNext]_tvars

(* Invariants of the protocol, evaluated on every state of every validated trace. *)
TInv == P!PInv

(* Progress register: the longest prefix of the trace any explored path consumed. *)
TProgress == TLCSet(1, IF TLCGet(1) < l THEN l ELSE TLCGet(1))

TAccepted ==
    LET best == TLCGet(1) IN
    IF best = Len(Rec) + 1
    THEN PrintT(<<"TRACE-ACCEPTED", Len(Rec)>>)
    ELSE PrintT(<<"TRACE-UNMATCHED", best, Rec[best]>>) /\ FALSE
=============================================================================
