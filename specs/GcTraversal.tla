---------------------------- MODULE GcTraversal ----------------------------
(***************************************************************************)
(* Data + protocol model of wild's parallel GC traversal.  The protocol    *)
(* layer is GcProto.tla; this module adds *which* work items are requested *)
(* (the request graph), the per-item dedup flag (the atomic fetch_or on    *)
(* per-symbol flags), failing items and the error queue, and states the    *)
(* properties C39 / C05 / C26 talk about:                                  *)
(*   - Closure: with no errors, handled = closure of the roots under succ  *)
(*   - NoLostRequest, EachItemOnce                                         *)
(*   - Termination: <>scopeEnd under weak fairness of every task step      *)
(*   - refinement of GcProto (so that traces validated against GcProto     *)
(*     are traces of a protocol that has these properties)                 *)
(* The request graph is chosen nondeterministically in Init from           *)
(* SuccChoices / RootChoices so one TLC run covers all graphs in a bound.  *)
(***************************************************************************)
EXTENDS Integers, Sequences, FiniteSets, TLC

CONSTANTS Groups, Delayed,
          Items,         \* work items
          Owner,         \* [Items -> Groups]: the group that must handle the item
          SlotOnly,      \* items that are always sent through the slot, even to the sender's own group
                         \* (start/stop section loads use GraphResources::send_work directly)
          SuccChoices,   \* set of candidate request graphs [Items -> SUBSET Items]
          RootChoices,   \* set of candidate root maps [Groups -> SUBSET Items]
          FailChoices,   \* set of candidate sets of items whose handling fails
          SoftChoices,   \* set of candidate sets of items whose handling reports an error but carries on
                         \* (undefined symbols: report_error without dropping the worker)
          Racy           \* TRUE: deliberately broken variant - the empty test and the park are two steps

VARIABLES loc, runner, atask, remaining, delayQ, scopeEnd,   \* as in GcProto
          slotWork,      \* slotWork[g]: set of items in worker_slots[g].work
          local,         \* local[g]: set of items in g's local queue
          toSend,        \* toSend[g]: requests the code currently running on behalf of g has yet to make
          flagged,       \* items whose "requested" flag is set (the fetch_or dedup)
          done,          \* items handled
          errors,        \* sequence of failing items, in push order
          succ, roots, failing, soft,   \* the scenario, fixed in Init
          sawEmpty       \* only used by the Racy variant

vars == <<loc, runner, atask, remaining, delayQ, scopeEnd, slotWork, local, toSend, flagged, done,
          errors, succ, roots, failing, soft, sawEmpty>>

NoTask == -1
SpawnedTask == -2

Init ==
    /\ loc = [g \in Groups |-> "unborn"]
    /\ runner = [g \in Groups |-> NoTask]
    /\ atask = [g \in Groups |-> "start"]
    /\ remaining = Cardinality(Groups)
    /\ delayQ = <<>>
    /\ scopeEnd = FALSE
    /\ slotWork = [g \in Groups |-> {}]
    /\ local = [g \in Groups |-> {}]
    /\ toSend = [g \in Groups |-> {}]
    /\ flagged = {}
    /\ done = {}
    /\ errors = <<>>
    /\ succ \in SuccChoices
    /\ roots \in RootChoices
    /\ failing \in FailChoices
    /\ soft \in SoftChoices
    /\ sawEmpty = [g \in Groups |-> FALSE]

Live(g) == loc[g] \in {"activating", "running"}

RunnerContinues(g) ==
    IF runner[g] \in Groups
    THEN atask' = [atask EXCEPT ![runner[g]] =
                      IF atask[runner[g]] = "working" THEN "dec" ELSE "drain"]
    ELSE UNCHANGED atask

ActBegin(g) ==
    /\ atask[g] = "start"
    /\ atask' = [atask EXCEPT ![g] = "activating"]
    /\ loc' = [loc EXCEPT ![g] = "activating"]
    /\ toSend' = [toSend EXCEPT ![g] = roots[g]]
    /\ UNCHANGED <<runner, remaining, delayQ, scopeEnd, slotWork, local, flagged, done, errors,
                   succ, roots, failing, soft, sawEmpty>>

(* The code running for g asks for item i.  The flag test-and-set deduplicates; a new request goes
   to the local queue or, through the owner's slot lock, to the owner (taking its parked worker). *)
Request(g, i) ==
    /\ Live(g)
    /\ i \in toSend[g]
    /\ toSend' = [toSend EXCEPT ![g] = @ \ {i}]
    /\ IF i \in flagged
       THEN UNCHANGED <<flagged, local, slotWork, loc>>
       ELSE /\ flagged' = flagged \cup {i}
            /\ IF Owner[i] = g /\ i \notin SlotOnly
               THEN /\ local' = [local EXCEPT ![g] = @ \cup {i}]
                    /\ UNCHANGED <<slotWork, loc>>
               ELSE /\ slotWork' = [slotWork EXCEPT ![Owner[i]] = @ \cup {i}]
                    /\ loc' = [loc EXCEPT ![Owner[i]] = IF @ = "parked" THEN "spawning" ELSE @]
                    /\ UNCHANGED local
    /\ UNCHANGED <<runner, atask, remaining, delayQ, scopeEnd, done, errors, succ, roots, failing,
                   soft, sawEmpty>>

ActEnd(g) ==
    /\ atask[g] = "activating"
    /\ toSend[g] = {}
    /\ IF g \in Delayed
       THEN /\ loc' = [loc EXCEPT ![g] = "delayed"]
            /\ atask' = [atask EXCEPT ![g] = "pushing"]
            /\ UNCHANGED runner
       ELSE /\ loc' = [loc EXCEPT ![g] = "running"]
            /\ runner' = [runner EXCEPT ![g] = g]
            /\ atask' = [atask EXCEPT ![g] = "working"]
    /\ UNCHANGED <<remaining, delayQ, scopeEnd, slotWork, local, toSend, flagged, done, errors, succ, roots,
                   failing, soft, sawEmpty>>

DelayPush(g) ==
    /\ atask[g] = "pushing"
    /\ Len(delayQ) < 1
    /\ delayQ' = Append(delayQ, g)
    /\ atask' = [atask EXCEPT ![g] = "dec"]
    /\ UNCHANGED <<loc, runner, remaining, scopeEnd, slotWork, local, toSend, flagged, done, errors, succ,
                   roots, failing, soft, sawEmpty>>

(* Pop an item and handle it: success makes its requests pending. *)
TakeItem(g, i) ==
    /\ loc[g] = "running"
    /\ toSend[g] = {}
    /\ i \in local[g]
    /\ i \notin failing
    /\ local' = [local EXCEPT ![g] = @ \ {i}]
    /\ done' = done \cup {i}
    /\ toSend' = [toSend EXCEPT ![g] = succ[i]]
    /\ sawEmpty' = [sawEmpty EXCEPT ![g] = FALSE]
    /\ errors' = IF i \in soft THEN Append(errors, i) ELSE errors
    /\ UNCHANGED <<loc, runner, atask, remaining, delayQ, scopeEnd, slotWork, flagged,
                   succ, roots, failing, soft>>

(* ... failure pushes the error and drops the GroupState (two steps at the protocol level: the pop
   and the drop; taken together here because nothing can observe the state in between). *)
TakeFail(g, i) ==
    /\ loc[g] = "running"
    /\ toSend[g] = {}
    /\ i \in local[g]
    /\ i \in failing
    /\ local' = [local EXCEPT ![g] = @ \ {i}]
    /\ errors' = Append(errors, i)
    /\ loc' = [loc EXCEPT ![g] = "dropped"]
    /\ runner' = [runner EXCEPT ![g] = NoTask]
    /\ RunnerContinues(g)
    /\ UNCHANGED <<remaining, delayQ, scopeEnd, slotWork, toSend, flagged, done, succ, roots,
                   failing, soft, sawEmpty>>

SlotPark(g) ==
    /\ loc[g] = "running"
    /\ toSend[g] = {}
    /\ local[g] = {}
    /\ IF Racy THEN sawEmpty[g] ELSE slotWork[g] = {}
    /\ loc' = [loc EXCEPT ![g] = "parked"]
    /\ runner' = [runner EXCEPT ![g] = NoTask]
    /\ RunnerContinues(g)
    /\ sawEmpty' = [sawEmpty EXCEPT ![g] = FALSE]
    /\ UNCHANGED <<remaining, delayQ, scopeEnd, slotWork, local, toSend, flagged, done, errors,
                   succ, roots, failing, soft>>

(* Racy variant only: look at the slot without keeping the lock until the park. *)
SlotPeek(g) ==
    /\ Racy
    /\ loc[g] = "running"
    /\ toSend[g] = {}
    /\ local[g] = {}
    /\ slotWork[g] = {}
    /\ ~sawEmpty[g]
    /\ sawEmpty' = [sawEmpty EXCEPT ![g] = TRUE]
    /\ UNCHANGED <<loc, runner, atask, remaining, delayQ, scopeEnd, slotWork, local, toSend,
                   flagged, done, errors, succ, roots, failing, soft>>

SlotSwap(g) ==
    /\ loc[g] = "running"
    /\ toSend[g] = {}
    /\ local[g] = {}
    /\ slotWork[g] # {}
    /\ ~sawEmpty[g]
    /\ local' = [local EXCEPT ![g] = slotWork[g]]
    /\ slotWork' = [slotWork EXCEPT ![g] = {}]
    /\ UNCHANGED <<loc, runner, atask, remaining, delayQ, scopeEnd, toSend, flagged, done, errors,
                   succ, roots, failing, soft, sawEmpty>>

TaskStart(g) ==
    /\ loc[g] = "spawning"
    /\ loc' = [loc EXCEPT ![g] = "running"]
    /\ runner' = [runner EXCEPT ![g] = SpawnedTask]
    /\ UNCHANGED <<atask, remaining, delayQ, scopeEnd, slotWork, local, toSend, flagged, done,
                   errors, succ, roots, failing, soft, sawEmpty>>

Dec(a) ==
    /\ atask[a] = "dec"
    /\ remaining > 0
    /\ remaining' = remaining - 1
    /\ atask' = [atask EXCEPT ![a] = IF remaining' = 0 THEN "drain" ELSE "done"]
    /\ UNCHANGED <<loc, runner, delayQ, scopeEnd, slotWork, local, toSend, flagged, done, errors,
                   succ, roots, failing, soft, sawEmpty>>

DelayPop(a, d) ==
    /\ atask[a] = "drain"
    /\ delayQ # <<>>
    /\ d = Head(delayQ)
    /\ delayQ' = Tail(delayQ)
    /\ loc' = [loc EXCEPT ![d] = "running"]
    /\ runner' = [runner EXCEPT ![d] = a]
    /\ atask' = [atask EXCEPT ![a] = "workingDelayed"]
    /\ UNCHANGED <<remaining, scopeEnd, slotWork, local, toSend, flagged, done, errors, succ, roots,
                   failing, soft, sawEmpty>>

DrainEmpty(a) ==
    /\ atask[a] = "drain"
    /\ delayQ = <<>>
    /\ atask' = [atask EXCEPT ![a] = "done"]
    /\ UNCHANGED <<loc, runner, remaining, delayQ, scopeEnd, slotWork, local, toSend, flagged, done,
                   errors, succ, roots, failing, soft, sawEmpty>>

Quiescent ==
    /\ \A g \in Groups : atask[g] = "done"
    /\ \A g \in Groups : loc[g] \notin {"activating", "running", "spawning"}

ScopeEnd ==
    /\ ~scopeEnd
    /\ Quiescent
    /\ scopeEnd' = TRUE
    /\ UNCHANGED <<loc, runner, atask, remaining, delayQ, slotWork, local, toSend, flagged, done,
                   errors, succ, roots, failing, soft, sawEmpty>>

TaskStep(g) ==
    \/ ActBegin(g) \/ ActEnd(g) \/ SlotPark(g) \/ SlotPeek(g) \/ SlotSwap(g) \/ TaskStart(g)
    \/ Dec(g) \/ DrainEmpty(g) \/ DelayPush(g)
    \/ \E i \in Items : Request(g, i) \/ TakeItem(g, i) \/ TakeFail(g, i)
    \/ \E d \in Groups : DelayPop(g, d)

Next == (\E g \in Groups : TaskStep(g)) \/ ScopeEnd

(* rayon runs every spawned task eventually and no step blocks except on a short mutex. *)
Fairness == (\A g \in Groups : WF_vars(TaskStep(g))) /\ WF_vars(ScopeEnd)

Spec == Init /\ [][Next]_vars
FairSpec == Spec /\ Fairness

-----------------------------------------------------------------------------
RECURSIVE ReachFrom(_)
ReachFrom(S) ==
    LET N == S \cup UNION {succ[i] : i \in S}
    IN IF N = S THEN S ELSE ReachFrom(N)

AllRoots == UNION {roots[g] : g \in Groups}
Reach == ReachFrom(AllRoots)

TypeOK ==
    /\ slotWork \in [Groups -> SUBSET Items]
    /\ local \in [Groups -> SUBSET Items]
    /\ toSend \in [Groups -> SUBSET Items]
    /\ flagged \subseteq Items /\ done \subseteq Items

(* C39/C05: with no errors, the handled set is exactly the closure of the requests. *)
Closure == (scopeEnd /\ (errors = <<>> \/ failing = {})) => done = Reach

(* Nothing is ever handled that was not requested (GC soundness of the model itself). *)
DoneReachable == done \subseteq Reach

(* C39: every request sent was handled by its owner; every worker is back. *)
NoLostRequest ==
    (scopeEnd /\ errors = <<>>) =>
        \A g \in Groups : slotWork[g] = {} /\ local[g] = {} /\ loc[g] = "parked"

(* An item is in at most one place, is only ever in its owner's queues, and is never queued once
   handled: together with the flag this is "each item handled once, by its owner". *)
EachItemOnce ==
    /\ \A g, h \in Groups : g # h => (local[g] \cup slotWork[g]) \cap (local[h] \cup slotWork[h]) = {}
    /\ \A g \in Groups : local[g] \cap slotWork[g] = {}
    /\ \A g \in Groups : \A i \in local[g] \cup slotWork[g] : Owner[i] = g /\ i \in flagged /\ i \notin done
    /\ done \subseteq flagged

ParkedMeansEmpty == \A g \in Groups : loc[g] = "parked" => slotWork[g] = {} /\ local[g] = {}

(* If something failed the link must fail: errors are never lost. *)
ErrorsKept == (\E g \in Groups : loc[g] = "dropped") => errors # <<>>

Termination == <>scopeEnd

(* C26: what the linker reports when the traversal failed.  The pinned code pops the LAST error
   pushed; a schedule-independent choice would be a function of the SET of errors.  *)
ReportedLast == IF errors = <<>> THEN "none" ELSE errors[Len(errors)]
ErrSet == {errors[k] : k \in 1..Len(errors)}
(* items are strings; TLC cannot order strings, so the MC module supplies a rank *)
(* Deterministic reporting: the reported error is the least failing item that is reachable without
   passing through a failing item ... which is not what "last pushed" gives; see C26. *)

-----------------------------------------------------------------------------
(* Refinement of the protocol layer. *)
P == INSTANCE GcProto WITH
        slotN <- [g \in Groups |-> Cardinality(slotWork[g])],
        localN <- [g \in Groups |-> Cardinality(local[g])],
        nerrors <- Len(errors)

RefinesProto == P!PSpec
ProtoInv == P!PInv
=============================================================================
