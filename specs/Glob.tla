-------------------------------- MODULE Glob --------------------------------
(***************************************************************************)
(* C15: linker-script input-section patterns match as in GNU ld.           *)
(*                                                                         *)
(* A name (section or file) is a sequence of characters.  A pattern is a   *)
(* sequence of ATOMS; its text in the script is the concatenation of the   *)
(* atoms' texts.  Match is POSIX fnmatch without FNM_PATHNAME/FNM_PERIOD   *)
(* (how GNU ld calls it): `*` any sequence, `?` any one character,         *)
(* bracket expressions with ranges and `!`/`^` negation, backslash makes   *)
(* the next character literal.                                             *)
(* Place: an input section goes to the output section of the FIRST         *)
(* input-section description, in script order, whose file pattern matches  *)
(* the file and one of whose section patterns matches the name; otherwise  *)
(* it is an orphan (output section of its own name).  Kept: that           *)
(* description is inside KEEP(), so the section survives --gc-sections.    *)
(* Accepts: every syntactically valid pattern is accepted (no crash).      *)
(*                                                                         *)
(* The second half transcribes the INDEX of libwild/src/layout_rules.rs    *)
(* (rules keyed by the hash of the first four bytes of the pattern TEXT,   *)
(* looked up by the first four bytes of the section name) as of the pinned *)
(* tree.  It is used only to name the class of a deviation that has been   *)
(* observed on the real binary; TLC reports where it departs from Place.   *)
(***************************************************************************)
EXTENDS Naturals, Sequences, FiniteSets

(* ---- atoms -------------------------------------------------------------- *)
(* bracket expressions over the characters that occur in this model ('*' < '.' < '0' < 't' < 'x') *)
ClassOf ==
  [a \in {"[.t]", "[!t]", "[^t]", "[0-x]", "[!.]", "[x0]", "[.]", "[*]"} |->
     CASE a = "[.t]" -> [neg |-> FALSE, set |-> {".", "t"}]
       [] a = "[!t]" -> [neg |-> TRUE, set |-> {"t"}]
       [] a = "[^t]" -> [neg |-> TRUE, set |-> {"t"}]
       [] a = "[0-x]" -> [neg |-> FALSE, set |-> {"0", "t", "x"}]
       [] a = "[!.]" -> [neg |-> TRUE, set |-> {"."}]
       [] a = "[x0]" -> [neg |-> FALSE, set |-> {"x", "0"}]
       [] a = "[.]" -> [neg |-> FALSE, set |-> {"."}]
       [] a = "[*]" -> [neg |-> FALSE, set |-> {"*"}]]
EscOf ==
  [a \in {"\\*", "\\t", "\\.", "\\?", "\\["} |->
     CASE a = "\\*" -> "*" [] a = "\\t" -> "t" [] a = "\\." -> "." [] a = "\\?" -> "?" [] a = "\\[" -> "["]
Classes == DOMAIN ClassOf
Escapes == DOMAIN EscOf
IsSpecial(a) == a \in {"*", "?"} \cup Classes \cup Escapes

AtomMatches(a, c) ==
  IF a = "?" THEN TRUE
  ELSE IF a \in Classes THEN (c \in ClassOf[a].set) # ClassOf[a].neg
  ELSE IF a \in Escapes THEN c = EscOf[a]
  ELSE a = c

(* ---- fnmatch ------------------------------------------------------------ *)
RECURSIVE Match(_, _)
Match(p, s) ==
  IF p = <<>> THEN s = <<>>
  ELSE IF Head(p) = "*" THEN \E k \in 0..Len(s) : Match(Tail(p), SubSeq(s, k + 1, Len(s)))
  ELSE s # <<>> /\ AtomMatches(Head(p), Head(s)) /\ Match(Tail(p), Tail(s))

(* A defect of the REFERENCE (GNU ld 2.40 spec_match): for a pattern PRE*SUF without other special
   characters it compares prefix and suffix separately and forgets that they must not overlap, so
   `.tx*xx0` "matches" `.txx0`.  fnmatch says no.  Such (pattern, name) pairs have no usable reference
   and are excluded from the comparison; likewise patterns with a backslash in the literal prefix or
   suffix, which GNU ld compares literally instead of as an escape. *)
LdOverlapQuirk(p, s) ==
  \E i \in 1..Len(p) :
     /\ p[i] = "*"
     /\ \A j \in 1..Len(p) : j # i => ~IsSpecial(p[j])
     /\ LET pre == SubSeq(p, 1, i - 1)
            suf == SubSeq(p, i + 1, Len(p))
        IN /\ Len(s) < Len(pre) + Len(suf) /\ Len(s) >= Len(pre) /\ Len(s) >= Len(suf)
           /\ SubSeq(s, 1, Len(pre)) = pre
           /\ SubSeq(s, Len(s) - Len(suf) + 1, Len(s)) = suf

(* ---- placement ------------------------------------------------------------ *)
(* a rule (input-section description): [out, file (pattern), pats (sequence of patterns), keep] *)
RuleMatches(r, f, s) == Match(r.file, f) /\ \E j \in 1..Len(r.pats) : Match(r.pats[j], s)
Matching(rules, f, s) == {i \in 1..Len(rules) : RuleMatches(rules[i], f, s)}
First(S) == CHOOSE i \in S : \A j \in S : i <= j
Place(rules, f, s) == LET M == Matching(rules, f, s) IN IF M = {} THEN "orphan" ELSE rules[First(M)].out
Kept(rules, f, s) == LET M == Matching(rules, f, s) IN M # {} /\ rules[First(M)].keep

(* ---- the index of wild's SectionRules (pinned tree), for naming deviations -- *)
AtomText(a) ==
  CASE a = "[.t]" -> <<"[", ".", "t", "]">>
    [] a = "[!t]" -> <<"[", "!", "t", "]">>
    [] a = "[^t]" -> <<"[", "^", "t", "]">>
    [] a = "[0-x]" -> <<"[", "0", "-", "x", "]">>
    [] a = "[!.]" -> <<"[", "!", ".", "]">>
    [] a = "[x0]" -> <<"[", "x", "0", "]">>
    [] a = "[.]" -> <<"[", ".", "]">>
    [] a = "[*]" -> <<"[", "*", "]">>
    [] a \in Escapes -> <<"\\", EscOf[a]>>
    [] OTHER -> <<a>>
RECURSIVE Text(_)
Text(p) == IF p = <<>> THEN <<>> ELSE AtomText(Head(p)) \o Text(Tail(p))
HasGlobChar(p) == \E i \in 1..Len(p) : p[i] \in {"*", "?"} \cup Classes
(* analyze_glob_pattern: a pattern with escapes but no glob characters is unescaped and compared
   exactly; its index key is the unescaped text *)
RECURSIVE Unescaped(_)
Unescaped(p) == IF p = <<>> THEN <<>> ELSE (IF Head(p) \in Escapes THEN <<EscOf[Head(p)]>> ELSE AtomText(Head(p))) \o Unescaped(Tail(p))
IndexKeyText(p) == IF HasGlobChar(p) THEN Text(p) ELSE Unescaped(p)
(* from_rules: .expect("Prefixes of length less than 4 not yet supported") *)
WildPanics(rules) == \E i \in 1..Len(rules) : \E j \in 1..Len(rules[i].pats) : Len(IndexKeyText(rules[i].pats[j])) < 4
(* lookup: only rules whose key's first four bytes equal the name's first four bytes are ever tried;
   names shorter than four bytes are never looked up *)
WildReachable(rules, f, s) ==
  IF Len(s) < 4 THEN {}
  ELSE {i \in Matching(rules, f, s) :
          \E j \in 1..Len(rules[i].pats) :
             /\ Match(rules[i].pats[j], s)
             /\ SubSeq(IndexKeyText(rules[i].pats[j]), 1, 4) = SubSeq(s, 1, 4)}
(* the hash table does not keep script order among rules that share a key: any reachable one may win *)
WildMayPlace(rules, f, s) ==
  LET R == WildReachable(rules, f, s) IN IF R = {} THEN {"orphan"} ELSE {rules[i].out : i \in R}
WildClass(rules, f, s) ==
  IF WildPanics(rules) THEN "panic-short-pattern"
  ELSE IF Place(rules, f, s) \in WildMayPlace(rules, f, s) /\ Cardinality(WildMayPlace(rules, f, s)) = 1 THEN "agrees"
  ELSE IF Len(s) < 4 THEN "name-shorter-than-4"
  ELSE IF Place(rules, f, s) \in WildMayPlace(rules, f, s) THEN "order-among-same-key"
  ELSE "wildcard-in-first-4-bytes"
=============================================================================
