----------------------------- MODULE HashTables -----------------------------
(***************************************************************************)
(* C08 - dynamic symbol hash tables find every exported symbol.            *)
(*                                                                         *)
(* Part 1: the two lookups of the glibc dynamic loader (elf/dl-lookup.c    *)
(* do_lookup_x, elf/dl-lookup.c _dl_setup_hash), transcribed:              *)
(*   GnuLookup  - DT_GNU_HASH: bloom word (h / C) & (maskwords - 1), bits  *)
(*                h % C and (h >> shift) % C, bucket h % nbuckets, chain   *)
(*                walk comparing ((chain ^ h) >> 1) = 0 then the symbol    *)
(*                (check_match), stop when the low bit of the chain word   *)
(*                is set;                                                  *)
(*   SysvLookup - DT_HASH: bucket[h % nbucket], then chain[i] until 0.     *)
(* Part 2: the table construction of wild (libwild/src/elf.rs              *)
(* create_gnu_hash_layout, allocate_sysv_hash; libwild/src/elf_writer.rs   *)
(* write_gnu_hash_tables, write_sysv_hash_table) as the operators          *)
(* GnuTable / SysvTable / BuildT.                                          *)
(* Part 3: the property (TableOK) over a table record T, used unchanged by *)
(* the bounded model (MCHashTables) and by the check of observed outputs   *)
(* (HashTablesObs).                                                        *)
(*                                                                         *)
(* Numbers.  TLC integers are 32-bit signed, ELF hashes are 32-bit         *)
(* unsigned and bloom words 64-bit.  A hash is a pair <<hi, lo>> of halves *)
(* of HalfBits bits each (value hi * 2^HalfBits + lo), a bloom word is a   *)
(* sequence of Limbs limbs of LimbBits bits, least significant first.      *)
(* Real ELF64: HalfBits = 16, LimbBits = 16, Limbs = 4 (C = 64).  The      *)
(* bounded model uses HalfBits = 3 (6-bit hashes), LimbBits = 2, Limbs = 2 *)
(* (C = 4) so that every piece of the arithmetic is exercised on small     *)
(* numbers; MCHashTables checks the piecewise operators against plain      *)
(* integer arithmetic for all values.                                      *)
(***************************************************************************)
EXTENDS Integers, Sequences, FiniteSets, TLC

CONSTANTS HalfBits,    \* bits in one half of a hash value
          LimbBits,    \* bits in one limb of a bloom word
          Limbs,       \* limbs per bloom word
          AssertPow2   \* TRUE: the loader asserts that the bloom word count is a power of two
                       \* (glibc _dl_setup_hash); FALSE: a loader without that assertion (musl)

Half == 2^HalfBits
Limb == 2^LimbBits
C    == LimbBits * Limbs            \* __ELF_NATIVE_CLASS

ASSUME ParamsOK ==
    /\ HalfBits \in 1..16 /\ LimbBits \in 1..16 /\ Limbs \in 1..4
    /\ \E k \in 0..6 : 2^k = C
    /\ C <= Half /\ Half % C = 0

LogC == CHOOSE k \in 0..6 : 2^k = C

Max(S) == CHOOSE x \in S : \A y \in S : y <= x
Pow2Set == {2^k : k \in 0..30}
IsPow2(n) == n \in Pow2Set

----------------------------------------------------------------------------
(* Exact arithmetic on <<hi, lo>> hashes *)

IsHash(h) == /\ h[1] \in 0..(Half - 1) /\ h[2] \in 0..(Half - 1)

(* bit i of h (0 beyond the 2*HalfBits bits of the value: the loader's
   uint_fast32_t holds the 32-bit value zero-extended) *)
HashBit(h, i) ==
    IF i < HalfBits THEN (h[2] \div 2^i) % 2
    ELSE IF i < 2 * HalfBits THEN (h[1] \div 2^(i - HalfBits)) % 2
    ELSE 0

(* h % C  (C divides Half) *)
ModC(h) == h[2] % C

(* (h >> s) % C : bits s .. s+LogC-1 of h *)
ShrModC(h, s) ==
    LET f[k \in 0..LogC] == IF k = LogC THEN 0 ELSE HashBit(h, s + k) * 2^k + f[k + 1]
    IN f[0]

(* h / C ; < 2^(2*HalfBits) / C, fits an int *)
DivC(h) == h[1] * (Half \div C) + (h[2] \div C)
(* (h / C) % m : how wild's writer picks the bloom word *)
DivCModM(h, m) == DivC(h) % m

(* bitwise and of two naturals *)
RECURSIVE AndNat(_, _)
AndNat(a, b) == IF a = 0 \/ b = 0 THEN 0 ELSE (a % 2) * (b % 2) + 2 * AndNat(a \div 2, b \div 2)
(* (h / C) & (m - 1) : how the loader picks the bloom word (l_gnu_bitmask_idxbits = m - 1).  The two
   agree exactly when m is a power of two.  m = 0 gives idxbits = 0xffffffff: the index is h / C. *)
BloomWordIndex(h, m) == IF m = 0 THEN DivC(h) ELSE AndNat(DivC(h), m - 1)

(* h % n.  Fast path when (n * Half) fits an int; otherwise Horner over the bits (n < 2^30). *)
ModNFast(h, n) == ((h[1] % n) * Half + h[2]) % n
ModNSlow(h, n) ==
    LET nb == 2 * HalfBits
        f[k \in 0..nb] ==            \* f[k]: value of the top k bits, mod n
            IF k = 0 THEN 0 ELSE (f[k - 1] * 2 + HashBit(h, nb - k)) % n
    IN f[nb]
ModN(h, n) == IF n <= (2^30 \div Half) THEN ModNFast(h, n) ELSE ModNSlow(h, n)

(* ((w ^ h) >> 1) = 0 *)
SameIgnoringLow(w, h) == w[1] = h[1] /\ (w[2] \div 2) = (h[2] \div 2)
LowBit(w) == w[2] % 2

(* bit p of a bloom word *)
BloomBit(word, p) == (word[(p \div LimbBits) + 1] \div 2^(p % LimbBits)) % 2

----------------------------------------------------------------------------
(* The table record.                                                       *)
(* T.syms : the dynamic symbol table; T.syms[i + 1] is symbol index i:     *)
(*          [name, def (st_shndx # SHN_UNDEF), ver (version index, hidden  *)
(*          bit stripped), gh (dl_new_hash of name), sh (elf_hash of name)]*)
(* T.gnu  : [present, malformed, nbuckets, symoffset, maskwords, shift,    *)
(*           bloom (seq of words), buckets (seq), chain (seq of hashes)]   *)
(* T.sysv : [present, malformed, nbucket, nchain, buckets, chain]          *)
(* `malformed` is set by the observer when the header describes arrays     *)
(* that do not fit in the table's section (the loader would read foreign   *)
(* memory).                                                                *)

None     == [st |-> "none",  idx |-> 0]
Fault    == [st |-> "fault", idx |-> 0]     \* read outside the tables / assertion / endless walk
Found(i) == [st |-> "found", idx |-> i]

(* check_match: the symbol must be defined, the name must be equal (strcmp) and, when a
   version is requested (v >= 0; dlvsym / versioned reference), the version index must match.
   v = -1: no version requested - the first name match is what an unversioned object gives. *)
Accept(sym, name, v) == sym.def /\ sym.name = name /\ (v = -1 \/ sym.ver = v)

GnuBloomPass(G, h) ==
    LET w == G.bloom[BloomWordIndex(h, G.maskwords) + 1]
    IN BloomBit(w, ModC(h)) = 1 /\ BloomBit(w, ShrModC(h, G.shift)) = 1

(* _dl_setup_hash: assert ((bitmask_nwords & (bitmask_nwords - 1)) == 0) - zero passes it *)
GnuSetupOK(G) == (G.present /\ ~G.malformed /\ G.nbuckets # 0) => (G.maskwords = 0 \/ IsPow2(G.maskwords))

RECURSIVE GnuWalk(_, _, _, _, _)
GnuWalk(T, name, h, v, i) ==
    LET ci == i - T.gnu.symoffset IN         \* l_gnu_chain_zero = chain - symbias
    IF ci < 0 \/ ci >= Len(T.gnu.chain) THEN Fault
    ELSE LET w == T.gnu.chain[ci + 1] IN
         IF SameIgnoringLow(w, h) /\ i >= Len(T.syms) THEN Fault      \* symtab[i] outside .dynsym
         ELSE IF SameIgnoringLow(w, h) /\ Accept(T.syms[i + 1], name, v) THEN Found(i)
         ELSE IF LowBit(w) = 1 THEN None
         ELSE GnuWalk(T, name, h, v, i + 1)

GnuLookup(T, name, h, v) ==
    LET G == T.gnu IN
    IF ~G.present \/ G.nbuckets = 0 THEN None                 \* "if (map->l_nbuckets == 0) continue"
    ELSE IF G.malformed \/ (AssertPow2 /\ ~GnuSetupOK(G)) THEN Fault
    ELSE IF BloomWordIndex(h, G.maskwords) >= Len(G.bloom) THEN Fault     \* bloom word outside the table
    ELSE IF ~GnuBloomPass(G, h) THEN None
    ELSE LET b == G.buckets[ModN(h, G.nbuckets) + 1] IN
         IF b = 0 THEN None ELSE GnuWalk(T, name, h, v, b)

RECURSIVE SysvWalk(_, _, _, _, _)
SysvWalk(T, name, v, i, fuel) ==
    IF i = 0 THEN None                                          \* STN_UNDEF
    ELSE IF fuel = 0 THEN Fault                                 \* cycle: the loader never returns
    ELSE IF i >= Len(T.syms) \/ i >= Len(T.sysv.chain) THEN Fault
    ELSE IF Accept(T.syms[i + 1], name, v) THEN Found(i)
    ELSE SysvWalk(T, name, v, T.sysv.chain[i + 1], fuel - 1)

SysvLookup(T, name, h, v) ==
    LET S == T.sysv IN
    IF ~S.present \/ S.nbucket = 0 THEN None
    ELSE IF S.malformed THEN Fault
    ELSE SysvWalk(T, name, v, S.buckets[ModN(h, S.nbucket) + 1], Len(S.chain) + 1)

----------------------------------------------------------------------------
(* The property.                                                           *)

DefinedIdx(T)   == {i \in 1..(Len(T.syms) - 1) : T.syms[i + 1].def}
DefinedNames(T) == {T.syms[i + 1].name : i \in DefinedIdx(T)}

(* symbol i is found: the lookup of its name with its own version returns exactly i, and the
   plain lookup of its name returns a defined symbol of that name *)
GnuFinds(T, i) ==
    LET s == T.syms[i + 1]
        r == GnuLookup(T, s.name, s.gh, -1) IN
    /\ GnuLookup(T, s.name, s.gh, s.ver) = Found(i)
    /\ r.st = "found" /\ T.syms[r.idx + 1].name = s.name /\ T.syms[r.idx + 1].def

SysvFinds(T, i) ==
    LET s == T.syms[i + 1]
        r == SysvLookup(T, s.name, s.sh, -1) IN
    /\ SysvLookup(T, s.name, s.sh, s.ver) = Found(i)
    /\ r.st = "found" /\ T.syms[r.idx + 1].name = s.name /\ T.syms[r.idx + 1].def

(* a probe p = [name, gh, sh]: a name that is defined (dn: the set of defined names) must be
   found under that name, a name that is not defined must give "none" (neither a symbol nor a
   fault) *)
ProbeOK(T, dn, p, r) ==
    IF p.name \in dn
    THEN r.st = "found" /\ T.syms[r.idx + 1].name = p.name /\ T.syms[r.idx + 1].def
    ELSE r = None
GnuProbeOK(T, dn, p)  == ProbeOK(T, dn, p, GnuLookup(T, p.name, p.gh, -1))
SysvProbeOK(T, dn, p) == ProbeOK(T, dn, p, SysvLookup(T, p.name, p.sh, -1))

GnuBad(T, probes)  == LET dn == DefinedNames(T) IN
                      [defs   |-> {i \in DefinedIdx(T) : ~GnuFinds(T, i)},
                       probes |-> {k \in 1..Len(probes) : ~GnuProbeOK(T, dn, probes[k])}]
SysvBad(T, probes) == LET dn == DefinedNames(T) IN
                      [defs   |-> {i \in DefinedIdx(T) : ~SysvFinds(T, i)},
                       probes |-> {k \in 1..Len(probes) : ~SysvProbeOK(T, dn, probes[k])}]

NoBad(b) == b.defs = {} /\ b.probes = {}
TableOK(T, probes, wantGnu, wantSysv) ==
    /\ wantGnu  => NoBad(GnuBad(T, probes))
    /\ wantSysv => NoBad(SysvBad(T, probes))

----------------------------------------------------------------------------
(* wild's construction.                                                    *)
(* D: sequence of definitions [name, ver, gh, sh] in the order of          *)
(* layout.dynamic_symbol_definitions; symbase = dynsym_start_index (null   *)
(* symbol + undefined dynamic symbols).                                    *)
(* Variant: "wild" is the transcription; the others are deliberately       *)
(* broken builders that the model checker has to reject.                   *)

CONSTANT Variant

NextPow2(x) == IF x <= 1 THEN 1 ELSE CHOOSE p \in {2^k : k \in 0..30} : p >= x /\ p \div 2 < x
GnuBucketCount(n)  == NextPow2(n \div 2)                    \* (num_defs / 2).next_power_of_two()
SysvBucketCount(n) == NextPow2(IF n \div 2 < 1 THEN 1 ELSE n \div 2)
WildBloomShift == LogC                                      \* bloom_shift: 6 (ELF64)
WildBloomCount == 1                                         \* bloom_count: 1

(* sort by (bucket, name).  The key is not total when several versions of one name are exported:
   the unstable sort may leave them in either order (observed on the real binary: both orders
   occur within one output).  flip[name] picks the order for that name. *)
GnuKeyLess(a, b, nb, flip) ==
    LET ba == ModN(a.gh, nb)
        bb == ModN(b.gh, nb) IN
    \/ ba < bb
    \/ ba = bb /\ a.name < b.name
    \/ ba = bb /\ a.name = b.name /\ (IF flip[a.name] THEN a.ver > b.ver ELSE a.ver < b.ver)

SortBy(D, Less(_, _)) ==
    LET n == Len(D)
        rank(k) == Cardinality({j \in 1..n : Less(D[j], D[k])}) + 1
    IN IF n = 0 THEN <<>> ELSE [r \in 1..n |-> D[CHOOSE k \in 1..n : rank(k) = r]]

GnuSorted(D, nb, flip) ==
    IF Variant = "unsorted" THEN D
    ELSE LET L(a, b) == GnuKeyLess(a, b, nb, flip) IN SortBy(D, L)

SumPow(S, n) == LET f[e \in 0..n] == IF e = n THEN 0 ELSE (IF e \in S THEN 2^e ELSE 0) + f[e + 1]
                IN f[0]

(* write_gnu_hash_tables over the sorted definitions *)
GnuTable(D, symbase, nb, mw, shift) ==
    LET n == Len(D)
        bk(k) == ModN(D[k].gh, nb)
        last(k) == k = n \/ bk(k + 1) # bk(k)              \* peek().is_none_or(next bucket differs)
        start(k) == k = 1 \/ last(k - 1)                    \* start_of_chain
        stop(k) == IF Variant = "stopearly" THEN (k = n \/ last(k + 1)) ELSE last(k)
        chain == [k \in 1..n |-> <<D[k].gh[1], (D[k].gh[2] \div 2) * 2 + (IF stop(k) THEN 1 ELSE 0)>>]
        first(b) == {k \in 1..n : start(k) /\ bk(k) = b}
        buckets == [b \in 1..nb |->
                       IF first(b - 1) = {} THEN 0
                       ELSE symbase + (Max(first(b - 1)) - 1) + (IF Variant = "symoff" THEN 1 ELSE 0)]
        wshift == IF Variant = "bloomshift" THEN shift + 1 ELSE shift
        bits(w) == UNION {{ModC(D[k].gh), ShrModC(D[k].gh, wshift)} :
                             k \in {j \in 1..n : DivCModM(D[j].gh, mw) = w}}
        bloom == [w \in 1..mw |->
                     [l \in 1..Limbs |->
                         SumPow({p - (l - 1) * LimbBits :
                                    p \in {q \in bits(w - 1) : q \div LimbBits = l - 1}}, LimbBits)]]
    IN [present |-> TRUE, malformed |-> FALSE, nbuckets |-> nb, symoffset |-> symbase,
        maskwords |-> mw, shift |-> shift, bloom |-> bloom, buckets |-> buckets,
        chain |-> IF n = 0 THEN <<>> ELSE chain]

(* write_sysv_hash_table: append each definition to the tail of its bucket's chain *)
RECURSIVE SysvFill(_, _, _, _, _)
SysvFill(D, symbase, nbk, k, st) ==
    IF k > Len(D) THEN st
    ELSE LET idx == symbase + k - 1
             b == ModN(D[k].sh, nbk) + 1
             upd == IF Variant = "sysvlast" /\ st.last[b] # 0 THEN st.last[b] ELSE idx
         IN SysvFill(D, symbase, nbk, k + 1,
                IF st.buckets[b] = 0
                THEN [st EXCEPT !.buckets[b] = idx, !.last[b] = idx]
                ELSE [st EXCEPT !.chain[st.last[b] + 1] = idx, !.last[b] = upd])

SysvTable(D, symbase) ==
    LET n == Len(D) IN
    IF n = 0                                                   \* allocate_sysv_hash: nothing emitted
    THEN [present |-> FALSE, malformed |-> FALSE, nbucket |-> 0, nchain |-> 0,
          buckets |-> <<>>, chain |-> <<>>]
    ELSE LET nbk == SysvBucketCount(n)
             st == SysvFill(D, symbase, nbk, 1,
                            [buckets |-> [b \in 1..nbk |-> 0],
                             chain |-> [c \in 1..(symbase + n) |-> 0],
                             last |-> [b \in 1..nbk |-> 0]])
         IN [present |-> TRUE, malformed |-> FALSE, nbucket |-> nbk, nchain |-> symbase + n,
             buckets |-> st.buckets, chain |-> st.chain]

NoGnu == [present |-> FALSE, malformed |-> FALSE, nbuckets |-> 0, symoffset |-> 0, maskwords |-> 0,
          shift |-> 0, bloom |-> <<>>, buckets |-> <<>>, chain |-> <<>>]
NoSysv == [present |-> FALSE, malformed |-> FALSE, nbucket |-> 0, nchain |-> 0,
           buckets |-> <<>>, chain |-> <<>>]

(* the dynamic symbol table: null symbol, the undefined symbols U, then the definitions *)
SymsOf(U, D) ==
    <<[name |-> 0, def |-> FALSE, ver |-> 0, gh |-> <<0, 0>>, sh |-> <<0, 0>>]>>
    \o [k \in 1..Len(U) |-> [name |-> U[k].name, def |-> FALSE, ver |-> 0, gh |-> U[k].gh, sh |-> U[k].sh]]
    \o [k \in 1..Len(D) |-> [name |-> D[k].name, def |-> TRUE, ver |-> D[k].ver, gh |-> D[k].gh, sh |-> D[k].sh]]

(* the whole output: with .gnu.hash the definitions are sorted (both tables then index the
   sorted .dynsym), with --hash-style=sysv they stay in input order *)
BuildT(U, D, gnu, sysv, nb, mw, shift, flip) ==
    LET symbase == 1 + Len(U)
        DS == IF gnu THEN GnuSorted(D, nb, flip) ELSE D
    IN [syms |-> SymsOf(U, DS),
        gnu  |-> IF gnu THEN GnuTable(DS, symbase, nb, mw, shift) ELSE NoGnu,
        sysv |-> IF sysv THEN SysvTable(DS, symbase) ELSE NoSysv]
=============================================================================
