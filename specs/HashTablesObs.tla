--------------------------- MODULE HashTablesObs ---------------------------
(***************************************************************************)
(* C08, observed-state check: the loader's lookups of HashTables (the very *)
(* same operators the bounded model checks against wild's construction)    *)
(* are evaluated by TLC on tables read out of real linker outputs.         *)
(*                                                                         *)
(* Environment: OBSDIR = directory with one file <k>.json per observation  *)
(* (k = 1..NOBS).  An observation (harness/py/vlib/hashobs.py) is          *)
(*   [id, want_gnu, want_sysv,                                             *)
(*    syms  : .dynsym in index order [name, def, ver, gh, sh],             *)
(*    gnu   : DT_GNU_HASH table, sysv : DT_HASH table (HashTables format), *)
(*    probes: [name, gh, sh] for every defined name and ~3x as many names  *)
(*            that are not defined]                                        *)
(* gh / sh are the harness's own dl_new_hash / elf_hash of the name as     *)
(* <<hi16, lo16>>; bloom words are four 16-bit limbs.                      *)
(* One state per observation; the invariant ObsOK prints one C08OBS line   *)
(* per observation, one C08FAIL line per failed lookup and a C08HDR line   *)
(* when the loader's set-up assertion on the table header fails.           *)
(***************************************************************************)
EXTENDS HashTables, Json, IOUtils

NObs == atoi(IOEnv.NOBS)
ReadObs(k) == ndJsonDeserialize(IOEnv.OBSDIR \o "/" \o ToString(k) \o ".json")[1]

(* the real-size arithmetic agrees with integer arithmetic wherever the value fits an int *)
ASSUME ArithSample ==
    \A hi \in {0, 1, 2, 255, 256, 12345, 32767}, lo \in {0, 1, 2, 63, 64, 4095, 32768, 54321, 65534, 65535} :
        LET h == <<hi, lo>>
            v == hi * 65536 + lo IN
        /\ \A n \in {1, 2, 3, 64, 1000, 1009, 16384, 16385, 65536, 1000003, 8388608, 1073741823} :
               ModN(h, n) = v % n
        /\ \A n \in {1, 2, 3, 64, 1009, 16384} : ModNSlow(h, n) = v % n
        /\ \A s \in {0, 1, 5, 6, 7, 15, 16, 17, 25, 26} : ShrModC(h, s) = (v \div 2^s) % 64
        /\ ShrModC(<<65535, 65535>>, 27) = 31 /\ ShrModC(<<65535, 65535>>, 31) = 1
        /\ ShrModC(<<65535, 65535>>, 32) = 0
        /\ \A m \in {1, 2, 4, 256} : DivCModM(h, m) = (v \div 64) % m /\ BloomWordIndex(h, m) = (v \div 64) % m
        /\ BloomWordIndex(h, 3) = ((v \div 128) % 2) * 2 /\ BloomWordIndex(h, 0) = v \div 64
        /\ BloomWordIndex(h, 5) = ((v \div 256) % 2) * 4          \* & 4
        /\ ModC(h) = v % 64
ASSUME BloomBitSample ==
    LET w == <<1, 32768, 0, 40960>> IN     \* bits 0, 31, 61, 63
    \A p \in 0..63 : BloomBit(w, p) = (IF p \in {0, 31, 61, 63} THEN 1 ELSE 0)

(* one state per observation, arranged as a binary tree (k -> 2k, 2k+1) so that TLC's workers
   evaluate observations in parallel *)
VARIABLE k
Init == k = 1 /\ NObs >= 1
Next == \E j \in {2 * k, 2 * k + 1} : j <= NObs /\ k' = j
Spec == Init /\ [][Next]_k

Empty == [defs |-> {}, probes |-> {}]

Report(o, T, tab, bad) ==
    /\ \A i \in bad.defs :
           PrintT(<<"C08FAIL", o.id, tab, "def", i, T.syms[i + 1].name,
                    IF tab = "gnu" THEN GnuLookup(T, T.syms[i + 1].name, T.syms[i + 1].gh, T.syms[i + 1].ver)
                    ELSE SysvLookup(T, T.syms[i + 1].name, T.syms[i + 1].sh, T.syms[i + 1].ver)>>)
    /\ \A j \in bad.probes :
           PrintT(<<"C08FAIL", o.id, tab, "probe", j, o.probes[j].name,
                    IF tab = "gnu" THEN GnuLookup(T, o.probes[j].name, o.probes[j].gh, -1)
                    ELSE SysvLookup(T, o.probes[j].name, o.probes[j].sh, -1)>>)

CheckObs(o) ==
    LET T  == [syms |-> o.syms, gnu |-> o.gnu, sysv |-> o.sysv]
        gb == IF o.want_gnu THEN GnuBad(T, o.probes) ELSE Empty
        sb == IF o.want_sysv THEN SysvBad(T, o.probes) ELSE Empty
    IN /\ (o.want_gnu /\ ~GnuSetupOK(T.gnu)) => PrintT(<<"C08HDR", o.id, "maskwords", T.gnu.maskwords>>)
       /\ Report(o, T, "gnu", gb)
       /\ Report(o, T, "sysv", sb)
       /\ PrintT(<<"C08OBS", o.id, Cardinality(DefinedIdx(T)), Len(o.probes),
                   Cardinality(gb.defs) + Cardinality(gb.probes),
                   Cardinality(sb.defs) + Cardinality(sb.probes)>>)
       /\ NoBad(gb) /\ NoBad(sb)
       /\ o.want_gnu => GnuSetupOK(T.gnu)

ObsOK == CheckObs(ReadObs(k))
=============================================================================
