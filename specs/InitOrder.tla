----------------------------- MODULE InitOrder -----------------------------
(***************************************************************************)
(* C30 - Constructor and destructor order matches GNU ld.                  *)
(*                                                                         *)
(* A scenario is a sequence of objects in command-line order (they follow  *)
(* main.o, which has no constructors).  An object is a list of entries;    *)
(* entry e of object o is one pointer to the function <<o, e>> stored in   *)
(* the input section named by (array, priority):                           *)
(*     .preinit_array | .init_array[.N] | .fini_array[.N] | .ctors[.N] |   *)
(*     .dtors[.N]                                                          *)
(* whose sh_type is t: "array" (SHT_INIT_ARRAY / SHT_FINI_ARRAY /          *)
(* SHT_PREINIT_ARRAY, whichever matches the output array) or "progbits".   *)
(* Current toolchains type .init_array* etc. "array" and .ctors*, .dtors*  *)
(* "progbits", but ELF does not tie the type to the name (GCC < 4.7 and    *)
(* several assemblers emit .init_array as PROGBITS).  GNU ld places and    *)
(* reverses by NAME only: neither Order nor the reversal depends on t.     *)
(* Entries of one object that name the same section are ONE input section  *)
(* (contents in entry order); the sections of an object are ordered by     *)
(* first appearance (that is what the assembler / compiler produces).      *)
(* Objects flagged `member` are members of one archive lib.a (archive      *)
(* order = object order) that stands on the command line where its first   *)
(* member would stand; a member is extracted because main.o (pulledby = 0) *)
(* or another member (pulledby = k) references its anchor symbol;          *)
(* pulledby = -1: nobody references it.                                    *)
(*                                                                         *)
(*  Order(S)  - DECLARATIVE: the contents of the output arrays as GNU ld   *)
(*              2.40 produces them with its default script (`ld --verbose`,*)
(*              written here with # for the wildcard star):                *)
(*                KEEP (#(SORT_BY_INIT_PRIORITY(.init_array.#)             *)
(*                        SORT_BY_INIT_PRIORITY(.ctors.#)))                *)
(*                KEEP (#(.init_array EXCLUDE_FILE (#crtbegin.o ..) .ctors))*)
(*              (same for .fini_array/.dtors; KEEP (#(.preinit_array))),   *)
(*              pinned against real GNU ld runs by the harness in every    *)
(*              run (spec # GNU ld  =>  tool error, not a violation).      *)
(*  the state machine (Load, ResolveObj, SortSecondaries, Emit) - an       *)
(*              OPERATIONAL transcription of what wild does                *)
(*              (resolution.rs: resolve_section / apply_init_fini_         *)
(*              secondaries, elf.rs: init_fini_priority, output_section_id *)
(*              .rs: get_or_create_init_fini_secondary + the sort in       *)
(*              OutputOrderBuilder::add_section, elf_writer.rs:            *)
(*              should_reverse_contents).                                  *)
(*                                                                         *)
(* The transcription of the pinned tree deviates from GNU ld in three      *)
(* ways (Devs); each deviation is a switch, and the machine computes the   *)
(* variants side by side (variables are indexed by the set of deviations   *)
(* that are switched ON; Devs = wild as pinned, {} = the rule wild is      *)
(* meant to implement, and every combination of the deviations in whose    *)
(* class the scenario is - the harness uses those to attribute an observed *)
(* difference to recorded findings).  TLC checks                           *)
(*    Conforms:  variant {} emits exactly Order;                           *)
(*    DevsLocal: a deviation only matters inside its declaratively defined *)
(*               class of scenarios (InClass): variant Devs emits what     *)
(*               variant ClassesOf(scn) emits;                             *)
(* hence outside the three classes wild-as-transcribed = GNU ld.           *)
(***************************************************************************)
EXTENDS Integers, Sequences, FiniteSets, SequencesExt, TLC

CONSTANTS Scenarios,       \* the set of scenarios explored (MCInitOrder defines bounded ones)
          ReverseByType    \* FALSE: the transcription of wild reverses the contents of an input section
                           \* iff its NAME starts with .ctors/.dtors (should_reverse_contents, as pinned).
                           \* TRUE: deliberately broken variant that reverses iff the input section's
                           \* TYPE is SHT_PROGBITS - TLC must reject it (mc/InitOrder_bytype.cfg)

VARIABLES scn,             \* the scenario, fixed in Init
          cls,             \* the deviation classes the scenario is in (set by Load)
          vs,              \* the variants computed for this scenario (set by Load)
          pc,              \* "load" -> "resolve" -> "emit" -> "done"
          files,           \* files[v]: wild's file order (sequence of object numbers)
          nres,            \* number of files whose sections have been resolved
          prim,            \* prim[v]: sections placed directly in a primary (only .preinit_array)
          secs,            \* secs[v]: the init/fini secondary output sections, in creation order
          ord,             \* ord[v][A]: indexes into secs[v] in output order, per primary A
          emitted          \* emitted[v][A]: the function ids in output array A

vars == <<scn, cls, vs, pc, files, nres, prim, secs, ord, emitted>>

NoPrio == -1
MaxU16 == 65535
InArrays == {"preinit", "init", "fini", "ctors", "dtors"}
OutArrays == <<"preinit", "init", "fini">>
OutSet == {"preinit", "init", "fini"}

Legacy(a) == a \in {"ctors", "dtors"}
OutOf(a) == CASE a \in {"init", "ctors"} -> "init"
              [] a \in {"fini", "dtors"} -> "fini"
              [] OTHER -> "preinit"

(* The three known deviations of the pinned tree from GNU ld. *)
Devs == {"maxmerge",   \* explicit priority 65535 (.init_array.65535, .ctors.0, ..) is merged with the
                       \* unprioritised sections (GNU ld: every prioritised section precedes them)
         "tieinput",   \* .ctors.N and .init_array.(65535-N) have equal priority: wild keeps input
                       \* order, GNU ld puts .ctors.N first (it compares names on a priority tie)
         "arorder"}    \* archive members are ordered as in the archive; GNU ld orders them in the
                       \* order in which they are extracted

SecTypes == {"array", "progbits"}
NativeType(a) == IF Legacy(a) THEN "progbits" ELSE "array"
KindOK(k) == /\ k.a \in InArrays
             /\ k.t \in SecTypes
             /\ k.p \in Int /\ (k.p = NoPrio \/ (k.p >= 0 /\ k.p <= MaxU16))
             /\ (k.a = "preinit" => k.p = NoPrio)

ScenarioOK(S) ==
    /\ Len(S) >= 1
    /\ \A o \in 1..Len(S) :
          /\ \A e \in 1..Len(S[o].entries) : KindOK(S[o].entries[e])
          \* one section name in one object = one input section, which has one type
          /\ \A e, f \in 1..Len(S[o].entries) :
                S[o].entries[e].a = S[o].entries[f].a /\ S[o].entries[e].p = S[o].entries[f].p
                    => S[o].entries[e].t = S[o].entries[f].t
          /\ S[o].member \in BOOLEAN
          /\ IF S[o].member
             THEN S[o].pulledby \in ({-1, 0} \cup {k \in 1..Len(S) : S[k].member}) \ {o}
             ELSE S[o].pulledby = 0

-----------------------------------------------------------------------------
(* Input sections.  A section is <<o, i>>: object o, i = index of its first entry. *)

SectionsOf(S, o) ==
    LET es == S[o].entries
    IN  SetToSortSeq({i \in 1..Len(es) : \A j \in 1..(i - 1) : es[j] # es[i]}, <)
KindOf(S, sec) == S[sec[1]].entries[sec[2]]
(* function ids <<o, e>> stored in the section, in the order they lie in the input section *)
Contents(S, sec) ==
    LET es == S[sec[1]].entries
        idx == SelectSeq([e \in 1..Len(es) |-> e], LAMBDA e : es[e] = es[sec[2]])
    IN  [k \in 1..Len(idx) |-> <<sec[1], idx[k]>>]
(* GNU ld, what lands in .init_array/.fini_array: the contents of an input section whose NAME is
   .ctors* / .dtors* are reversed (SEC_ELF_REVERSE_COPY, set from the names in lang_add_section); the
   section type plays no role *)
Placed(S, sec) == IF Legacy(KindOf(S, sec).a) THEN Reverse(Contents(S, sec)) ELSE Contents(S, sec)

SecsOfObj(S, o) == LET ss == SectionsOf(S, o) IN [i \in 1..Len(ss) |-> <<o, ss[i]>>]
SecsOfObjs(S, L) == FlattenSeq([k \in 1..Len(L) |-> SecsOfObj(S, L[k])])

-----------------------------------------------------------------------------
(* Archive extraction, GNU ld (elf_link_add_archive_symbols): scan the archive symbol table in
   archive order, extract a not yet included member that defines a currently undefined symbol -
   its own undefined symbols count immediately -, and rescan until a pass extracts nothing. *)

MemberSeq(S) == SetToSortSeq({o \in 1..Len(S) : S[o].member}, <)
RefsOf(S, who) == {k \in 1..Len(S) : S[k].member /\ S[k].pulledby = who}

RECURSIVE Pass(_, _, _, _)
Pass(S, rest, loaded, undef) ==
    IF rest = <<>> THEN <<loaded, undef>>
    ELSE LET m == Head(rest)
         IN  IF m \in undef /\ m \notin ToSet(loaded)
             THEN Pass(S, Tail(rest), Append(loaded, m), undef \cup RefsOf(S, m))
             ELSE Pass(S, Tail(rest), loaded, undef)
RECURSIVE Extract(_, _, _)
Extract(S, loaded, undef) ==
    LET r == Pass(S, MemberSeq(S), loaded, undef)
    IN  IF r[1] = loaded THEN loaded ELSE Extract(S, r[1], r[2])
ExtractSeq(S) == Extract(S, <<>>, RefsOf(S, 0))

(* the objects of the link in link order: plain objects where they stand, the extracted members
   (sequence ms) where the archive stands *)
PlaceAt(S, ms) ==
    LET first == IF \E o \in 1..Len(S) : S[o].member
                 THEN CHOOSE o \in 1..Len(S) : S[o].member /\ \A k \in 1..(o - 1) : ~S[k].member
                 ELSE 0
    IN  FlattenSeq([o \in 1..Len(S) |->
            IF ~S[o].member THEN <<o>>
            ELSE IF o = first THEN ms ELSE <<>>])

-----------------------------------------------------------------------------
(* DECLARATIVE: GNU ld.                                                                        *)

GnuLinkOrder(S) == PlaceAt(S, ExtractSeq(S))

(* get_init_priority (ldlang.c): .init_array.N/.fini_array.N -> N, .ctors.N/.dtors.N -> 65535-N *)
GnuPrio(k) == IF Legacy(k.a) THEN MaxU16 - k.p ELSE k.p
(* compare_section, by_init_priority: priority, then strcmp of the names - with canonical decimal
   suffixes only ".ctors.*" < ".init_array.*" and ".dtors.*" < ".fini_array.*" can differ *)
NameRank(k) == IF Legacy(k.a) THEN 0 ELSE 1

(* i, j: positions in the sequence `all` of the sections of the link, in input order *)
GnuBefore(S, all, i, j) ==
    LET ki == KindOf(S, all[i])
        kj == KindOf(S, all[j])
    IN  IF (ki.p = NoPrio) # (kj.p = NoPrio) THEN kj.p = NoPrio      \* first statement: the sorted ones
        ELSE IF ki.p = NoPrio THEN i < j                            \* second statement: input order
        ELSE \/ GnuPrio(ki) < GnuPrio(kj)
             \/ GnuPrio(ki) = GnuPrio(kj) /\ NameRank(ki) < NameRank(kj)
             \/ GnuPrio(ki) = GnuPrio(kj) /\ NameRank(ki) = NameRank(kj) /\ i < j

GnuArrayOf(S, all, A) ==
    LET mine == SetToSortSeq({i \in 1..Len(all) : OutOf(KindOf(S, all[i]).a) = A},
                             LAMBDA i, j : GnuBefore(S, all, i, j))
    IN  FlattenSeq([k \in 1..Len(mine) |-> Placed(S, all[mine[k]])])
GnuArray(S, A) == GnuArrayOf(S, SecsOfObjs(S, GnuLinkOrder(S)), A)

Order(S) == LET all == SecsOfObjs(S, GnuLinkOrder(S))
            IN  [A \in OutSet |-> GnuArrayOf(S, all, A)]

-----------------------------------------------------------------------------
(* Declarative classes of scenarios in which a deviation can matter. *)

LinkedKinds(S) == UNION {{S[o].entries[e] : e \in 1..Len(S[o].entries)} : o \in ToSet(GnuLinkOrder(S))}

InClassK(d, S, K) ==
    CASE d = "maxmerge" ->
           \E k1 \in K : /\ k1.a # "preinit" /\ k1.p # NoPrio /\ GnuPrio(k1) = MaxU16
                          /\ \E k2 \in K : OutOf(k1.a) = OutOf(k2.a) /\ k2.p = NoPrio
      [] d = "tieinput" ->
           \E k1 \in K : /\ Legacy(k1.a) /\ k1.p # NoPrio
                          /\ \E k2 \in K : /\ OutOf(k1.a) = OutOf(k2.a) /\ ~Legacy(k2.a)
                                             /\ k2.p # NoPrio /\ GnuPrio(k1) = GnuPrio(k2)
      [] d = "arorder" ->
           LET ex == ExtractSeq(S) IN ex # SelectSeq(MemberSeq(S), LAMBDA m : m \in ToSet(ex))
      [] OTHER -> FALSE
InClass(d, S) == InClassK(d, S, LinkedKinds(S))
ClassesOf(S) == LET K == LinkedKinds(S) IN {d \in Devs : InClassK(d, S, K)}
(* The variants the machine computes for S (Load): the pinned tree (Devs), the intended rule ({}) and
   every partial combination of the deviations whose class S is in: (SUBSET ClassesOf(S)) \cup {Devs} *)

-----------------------------------------------------------------------------
(* OPERATIONAL: wild.  Every variable is indexed by the variant v (set of deviations ON).      *)

(* Archive members are parsed up front and get their file ids in archive order; a member takes
   part in the link iff something (transitively from a loaded file) references a symbol it
   defines.  Variant without "arorder": members in extraction order, as GNU ld. *)
RECURSIVE Reach(_, _)
Reach(S, R) == LET R2 == R \cup UNION {RefsOf(S, m) : m \in R} IN IF R2 = R THEN R ELSE Reach(S, R2)
WildLoaded(S) == Reach(S, RefsOf(S, 0))
WildFiles(S, v) ==
    IF "arorder" \in v
    THEN PlaceAt(S, SelectSeq(MemberSeq(S), LAMBDA m : m \in WildLoaded(S)))
    ELSE PlaceAt(S, ExtractSeq(S))

(* elf.rs init_fini_priority + parse_priority_suffix: Some(u16) for the SortedSection rules
   (.init_array*, .ctors* -> INIT_ARRAY; .fini_array*, .dtors* -> FINI_ARRAY).
   The pinned tree returns u16::MAX for the names without suffix ("maxmerge"); a tree that
   follows GNU ld keeps them after every suffixed section (modelled as 65536). *)
Clamp(p) == IF p > MaxU16 THEN MaxU16 ELSE p
WildPriority(v, k) ==
    IF k.p = NoPrio THEN (IF "maxmerge" \in v THEN MaxU16 ELSE MaxU16 + 1)
    ELSE IF Legacy(k.a) THEN MaxU16 - Clamp(k.p)        \* u16::MAX.saturating_sub(p)
    ELSE Clamp(k.p)

(* resolve_section + apply_init_fini_secondaries for one input section: .preinit_array is an
   exact rule (stays in the primary); the sorted rules go to the secondary section
   get_or_create_init_fini_secondary(primary, priority), created on first use. *)
ResolveSection(S, v, st, sec) ==
    LET k == KindOf(S, sec)
    IN  IF k.a = "preinit" THEN [st EXCEPT !.prim = Append(@, sec)]
        ELSE LET key == WildPriority(v, k)
                 P == OutOf(k.a)
                 hit == {i \in 1..Len(st.secs) : st.secs[i].primary = P /\ st.secs[i].key = key}
             IN  IF hit # {}
                 THEN LET i == CHOOSE i \in hit : TRUE
                      IN  [st EXCEPT !.secs[i].items = Append(@, sec)]
                 ELSE [st EXCEPT !.secs = Append(@, [primary |-> P, key |-> key, items |-> <<sec>>])]

RECURSIVE ResolveSections(_, _, _, _)
ResolveSections(S, v, st, rest) ==
    IF rest = <<>> THEN st
    ELSE ResolveSections(S, v, ResolveSection(S, v, st, Head(rest)), Tail(rest))

(* Within one secondary the input sections lie in file order, then section order ("tieinput").
   Variant without "tieinput": among the sections WITH a suffix the .ctors.N/.dtors.N ones come
   first (GNU ld's name comparison on a priority tie); sections without a suffix (only present
   in the same secondary under "maxmerge") keep their slots. *)
ItemsInOrder(S, v, items) ==
    IF "tieinput" \in v THEN items
    ELSE LET slots == SetToSortSeq({i \in 1..Len(items) : KindOf(S, items[i]).p # NoPrio}, <)
             srt == SetToSortSeq({i \in 1..Len(items) : KindOf(S, items[i]).p # NoPrio},
                        LAMBDA i, j : \/ NameRank(KindOf(S, items[i])) < NameRank(KindOf(S, items[j]))
                                      \/ /\ NameRank(KindOf(S, items[i])) = NameRank(KindOf(S, items[j]))
                                         /\ i < j)
             at(i) == CHOOSE n \in 1..Len(slots) : slots[n] = i
         IN  [i \in 1..Len(items) |->
                 IF KindOf(S, items[i]).p = NoPrio THEN items[i] ELSE items[srt[at(i)]]]

InitWith(S) ==
    /\ scn = S
    /\ cls = {}
    /\ vs = {}
    /\ pc = "load"
    /\ files = <<>>
    /\ nres = 0
    /\ prim = <<>>
    /\ secs = <<>>
    /\ ord = <<>>
    /\ emitted = <<>>

(* elf_writer.rs should_reverse_contents: only for input sections that go to INIT_ARRAY/FINI_ARRAY
   (never .preinit_array), decided by the section NAME (starts_with .ctors / .dtors) *)
WildReverses(k) ==
    /\ OutOf(k.a) \in {"init", "fini"}
    /\ IF ReverseByType THEN k.t = "progbits" ELSE Legacy(k.a)
WildPlaced(S, sec) == IF WildReverses(KindOf(S, sec)) THEN Reverse(Contents(S, sec)) ELSE Contents(S, sec)

Init == \E S \in Scenarios : InitWith(S)

(* file order; also fixes the variants computed for this scenario *)
Load ==
    /\ pc = "load"
    /\ cls' = ClassesOf(scn)
    /\ vs' = (SUBSET cls') \cup {Devs}
    /\ files' = [v \in vs' |-> WildFiles(scn, v)]
    /\ prim' = [v \in vs' |-> <<>>]
    /\ secs' = [v \in vs' |-> <<>>]
    /\ pc' = "resolve"
    /\ UNCHANGED <<scn, nres, ord, emitted>>

(* assign_section_ids: files in file order, the sections of a file in section-index order *)
ResolveObj ==
    /\ pc = "resolve"
    /\ nres < Len(files[{}])
    /\ LET new == [v \in vs |->
                     ResolveSections(scn, v, [prim |-> prim[v], secs |-> secs[v]],
                                     SecsOfObj(scn, files[v][nres + 1]))]
       IN  /\ prim' = [v \in vs |-> new[v].prim]
           /\ secs' = [v \in vs |-> new[v].secs]
    /\ nres' = nres + 1
    /\ UNCHANGED <<scn, cls, vs, pc, files, ord, emitted>>

(* OutputOrderBuilder::add_section: the secondaries of a primary, stably sorted by priority *)
SortSecondaries ==
    /\ pc = "resolve"
    /\ nres = Len(files[{}])
    /\ ord' = [v \in vs |-> [A \in {"init", "fini"} |->
                  SetToSortSeq({i \in 1..Len(secs[v]) : secs[v][i].primary = A},
                               LAMBDA i, j : \/ secs[v][i].key < secs[v][j].key
                                             \/ secs[v][i].key = secs[v][j].key /\ i < j)]]
    /\ pc' = "emit"
    /\ UNCHANGED <<scn, cls, vs, files, nres, prim, secs, emitted>>

(* writing: the primary's own sections, then its secondaries in order; .ctors / .dtors reversed *)
Emit ==
    /\ pc = "emit"
    /\ LET out(v, A) ==
               IF A = "preinit"
               THEN FlattenSeq([i \in 1..Len(prim[v]) |-> WildPlaced(scn, prim[v][i])])
               ELSE FlattenSeq([n \in 1..Len(ord[v][A]) |->
                        LET its == ItemsInOrder(scn, v, secs[v][ord[v][A][n]].items)
                        IN  FlattenSeq([i \in 1..Len(its) |-> WildPlaced(scn, its[i])])])
       IN  emitted' = [v \in vs |-> [A \in OutSet |-> out(v, A)]]
    /\ pc' = "done"
    /\ UNCHANGED <<scn, cls, vs, files, nres, prim, secs, ord>>

Next == Load \/ ResolveObj \/ SortSecondaries \/ Emit
Spec == Init /\ [][Next]_vars

Done == pc = "done"

-----------------------------------------------------------------------------
(* Properties *)

TypeOK ==
    /\ Done => ScenarioOK(scn)
    /\ pc \in {"load", "resolve", "emit", "done"}
    /\ nres \in 0..Len(scn)
    /\ pc # "load" => cls = ClassesOf(scn) /\ vs = (SUBSET cls) \cup {Devs}

(* the rule wild is meant to implement is GNU ld's rule *)
Conforms == Done => emitted[{}] = Order(scn)

(* a deviation is only visible inside its class *)
DevsLocal == Done => emitted[Devs] = emitted[cls]

(* hence: outside the three classes the pinned tree (variant Devs) emits GNU ld's order *)
PinnedConformsOutsideClasses == Done /\ cls = {} => emitted[Devs] = Order(scn)

(* Anti-vacuity (must be VIOLATED): the pinned tree does deviate from GNU ld. *)
PinnedConformsEverywhere == Done => emitted[Devs] = Order(scn)

(* every function of a linked object appears exactly once, unlinked members contribute nothing *)
Complete ==
    Done => \A v \in vs :
        LET all == emitted[v]["preinit"] \o emitted[v]["init"] \o emitted[v]["fini"]
        IN  /\ Len(all) = Cardinality(ToSet(all))
            /\ ToSet(all) = UNION {{<<o, e>> : e \in 1..Len(scn[o].entries)} :
                                       o \in ToSet(GnuLinkOrder(scn))}
=============================================================================
