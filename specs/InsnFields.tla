----------------------------- MODULE InsnFields -----------------------------
(***************************************************************************)
(* C13 - Instruction immediate fields are encoded exactly and locally.     *)
(*                                                                         *)
(* Reference table of the immediate-field layouts that linker-utils'       *)
(* {AArch64,RiscV,LoongArch64}Instruction::write_to_value must implement,  *)
(* transcribed from the ISA manuals (Arm ARM C6.2, RISC-V unprivileged     *)
(* spec ch. 2.3 / 16 (RVC), LoongArch reference manual vol. 1 ch. 2 and    *)
(* the psABI definitions of R_LARCH_CALL36 / R_RISCV_HI20), and the three  *)
(* statements of the property over that table:                             *)
(*   Local      a write changes only bits of the field                     *)
(*   Oblivious  the field content after a write does not depend on the     *)
(*              word written over                                          *)
(*   RoundTrip  decoding the written word by the ISA layout gives back the *)
(*              value (the bits of it that the field covers)               *)
(* Words and values are sets of bit positions (TLC integers are 32-bit;    *)
(* instruction windows are up to 64 bits, values are 64-bit two's          *)
(* complement).  An instruction window of n bytes is the little-endian     *)
(* integer of those bytes: bit 0 is the least significant bit of byte 0.   *)
(*                                                                         *)
(* A segment [vlo, w, ilo, addbit] says: bits vlo..vlo+w-1 of the value    *)
(* (after adding 2^addbit when addbit >= 0: the +0x800 of RISC-V HI20 and  *)
(* the +0x8000 of LoongArch CALL36, which compensate the sign extension of *)
(* the low part) are stored in instruction bits ilo..ilo+w-1.              *)
(***************************************************************************)
EXTENDS Integers, Sequences, FiniteSets

Bits64 == 0..63
Range(lo, w) == lo..(lo + w - 1)

(* V + 2^p on 64-bit two's complement, as sets of bit positions *)
AddPow2(V, p) ==
    LET zs == {i \in p..63 : i \notin V}
    IN  IF zs = {} THEN V \ (p..63)
        ELSE LET z == CHOOSE i \in zs : \A j \in zs : i <= j
             IN  (V \ (p..(z - 1))) \cup {z}

Src(V, addbit) == IF addbit < 0 THEN V ELSE AddPow2(V, addbit)

S(vlo, w, ilo) == [vlo |-> vlo, w |-> w, ilo |-> ilo, addbit |-> -1]
SA(vlo, w, ilo, addbit) == [vlo |-> vlo, w |-> w, ilo |-> ilo, addbit |-> addbit]

(* A 16-bit chunk of an example opcode as bit positions from `base` *)
Chunk(c, base) == {base + i : i \in {j \in 0..15 : (c \div (2^j)) % 2 = 1}}
Op32(lo, hi) == Chunk(lo, 0) \cup Chunk(hi, 16)
Op16(lo) == Chunk(lo, 0)
Op64(a, b, c, d) == Chunk(a, 0) \cup Chunk(b, 16) \cup Chunk(c, 32) \cup Chunk(d, 48)

(* Encoding: arch/insn name the Rust enum variant; `use` distinguishes field widths a variant is
   used with; bytes = size of the instruction window; width/vmode/valign describe the in-range
   values: "bits": the caller passes the extracted field value 0 <= v < 2^width; "signed": the
   caller passes the whole 64-bit two's complement value, in range when it is a multiple of valign
   in [-2^(width-1), 2^(width-1)).  movnz: the MOVN/MOVZ rule of the AArch64 MOVW_SABS group: a
   negative value stores the inverted bits and selects MOVN (bit 30 = 0), otherwise MOVZ (bit 30 =
   1); bit 30 belongs to the field.  op: an example instruction word with a zero immediate. *)
Enc(arch, insn, use, bytes, width, vmode, valign, segs, movnz, op) ==
    [arch |-> arch, insn |-> insn, use |-> use, bytes |-> bytes, width |-> width, vmode |-> vmode,
     valign |-> valign, segs |-> segs, movnz |-> movnz, op |-> op]

Encodings == <<
  (* ---- AArch64 (Arm ARM, A64 base instructions) *)
  (* ADR/ADRP: immlo [30:29], immhi [23:5]                      adrp x16, . *)
  Enc("aarch64", "Adr", "Adr", 4, 21, "bits", 1, {S(0, 2, 29), S(2, 19, 5)}, FALSE, Op32(16, 36864)),
  (* MOVK/MOVZ: imm16 [20:5]                                    movk x0, #0 *)
  Enc("aarch64", "Movkz", "Movkz", 4, 16, "bits", 1, {S(0, 16, 5)}, FALSE, Op32(0, 62080)),
  (* MOVN/MOVZ (signed group): imm16 [20:5], opc bit 30         movz x0, #0 *)
  Enc("aarch64", "Movnz", "Movnz", 4, 16, "bits", 1, {S(0, 16, 5)}, TRUE, Op32(0, 53888)),
  (* LDR (literal): imm19 [23:5]                                ldr x0, . *)
  Enc("aarch64", "Ldr", "Ldr", 4, 19, "bits", 1, {S(0, 19, 5)}, FALSE, Op32(0, 22528)),
  (* LDR (immediate, unsigned offset): imm12 [21:10]            ldr x17, [x16] *)
  Enc("aarch64", "LdrRegister", "LdrRegister", 4, 12, "bits", 1, {S(0, 12, 10)}, FALSE, Op32(529, 63808)),
  (* ADD (immediate): imm12 [21:10]                             add x16, x16, #0 *)
  Enc("aarch64", "Add", "Add", 4, 12, "bits", 1, {S(0, 12, 10)}, FALSE, Op32(528, 37120)),
  (* LDR/STR (immediate, unsigned offset): imm12 [21:10]        ldr x0, [x0] *)
  Enc("aarch64", "LdSt", "LdSt", 4, 12, "bits", 1, {S(0, 12, 10)}, FALSE, Op32(0, 63808)),
  (* TBZ/TBNZ: imm14 [18:5]                                     tbz w0, #0, . *)
  Enc("aarch64", "TstBr", "TstBr", 4, 14, "bits", 1, {S(0, 14, 5)}, FALSE, Op32(0, 13824)),
  (* B.cond: imm19 [23:5]                                       b.eq . *)
  Enc("aarch64", "Bcond", "Bcond", 4, 19, "bits", 1, {S(0, 19, 5)}, FALSE, Op32(0, 21504)),
  (* B/BL: imm26 [25:0]                                         bl . *)
  Enc("aarch64", "JumpCall", "JumpCall", 4, 26, "bits", 1, {S(0, 26, 0)}, FALSE, Op32(0, 37888)),
  (* ---- RISC-V (the writer receives the whole value; immediates are signed) *)
  (* U-type: imm[31:12] at [31:12]; HI20 stores (v + 0x800)[31:12]   auipc ra, 0 *)
  Enc("riscv64", "UType", "UType", 4, 32, "signed", 1, {SA(12, 20, 12, 11)}, FALSE, Op32(151, 0)),
  (* I-type: imm[11:0] at [31:20]                                    jalr ra, 0(ra) *)
  Enc("riscv64", "IType", "IType", 4, 32, "signed", 1, {S(0, 12, 20)}, FALSE, Op32(32999, 0)),
  (* S-type: imm[4:0] at [11:7], imm[11:5] at [31:25]                sw x0, 0(x0) *)
  Enc("riscv64", "SType", "SType", 4, 32, "signed", 1, {S(0, 5, 7), S(5, 7, 25)}, FALSE, Op32(8227, 0)),
  (* B-type: imm[11] [7], imm[4:1] [11:8], imm[10:5] [30:25], imm[12] [31]   beq x0, x0, . *)
  Enc("riscv64", "BType", "BType", 4, 13, "signed", 2,
      {S(11, 1, 7), S(1, 4, 8), S(5, 6, 25), S(12, 1, 31)}, FALSE, Op32(99, 0)),
  (* J-type: imm[19:12] [19:12], imm[11] [20], imm[10:1] [30:21], imm[20] [31]   jal ra, . *)
  Enc("riscv64", "JType", "JType", 4, 21, "signed", 2,
      {S(12, 8, 12), S(11, 1, 20), S(1, 10, 21), S(20, 1, 31)}, FALSE, Op32(239, 0)),
  (* CB-type (c.beqz/c.bnez): off[5] [2], off[2:1] [4:3], off[7:6] [6:5], off[4:3] [11:10], off[8] [12] *)
  Enc("riscv64", "CbType", "CbType", 2, 9, "signed", 2,
      {S(5, 1, 2), S(1, 2, 3), S(6, 2, 5), S(3, 2, 10), S(8, 1, 12)}, FALSE, Op16(49153)),
  (* CJ-type (c.j): off[5] [2], off[3:1] [5:3], off[7] [6], off[6] [7], off[10] [8], off[9:8] [10:9],
     off[4] [11], off[11] [12] *)
  Enc("riscv64", "CjType", "CjType", 2, 12, "signed", 2,
      {S(5, 1, 2), S(1, 3, 3), S(7, 1, 6), S(6, 1, 7), S(10, 1, 8), S(8, 2, 9), S(4, 1, 11), S(11, 1, 12)},
      FALSE, Op16(40961)),
  (* C.LUI: nzimm[16:12] [6:2], nzimm[17] [12] of (v + 0x800)        c.lui x1, . *)
  Enc("riscv64", "CluiType", "CluiType", 2, 17, "signed", 1, {SA(12, 5, 2, 11), SA(17, 1, 12, 11)},
      FALSE, Op16(24705)),
  (* AUIPC + JALR pair (R_RISCV_CALL): U-type in the first word, I-type in the second *)
  Enc("riscv64", "UiType", "UiType", 8, 32, "signed", 1, {SA(12, 20, 12, 11), S(0, 12, 52)}, FALSE,
      Op64(151, 0, 32999, 0)),
  (* ---- LoongArch (reference manual vol.1, instruction formats) *)
  (* 1RI20: si20 [24:5]                                              pcalau12i $a0, 0 *)
  Enc("loongarch64", "Shift5", "Shift5", 4, 20, "bits", 1, {S(0, 20, 5)}, FALSE, Op32(4, 6656)),
  (* 2RI12: si12 [21:10]                                             addi.d $a0, $a0, 0 *)
  Enc("loongarch64", "Shift10", "Shift10", 4, 12, "bits", 1, {S(0, 12, 10)}, FALSE, Op32(132, 704)),
  (* 2RI16 (R_LARCH_B16 uses Shift10 with a 16-bit value): offs16 [25:10]   beq $zero, $zero, . *)
  Enc("loongarch64", "Shift10", "Shift10_B16", 4, 16, "bits", 1, {S(0, 16, 10)}, FALSE, Op32(0, 22528)),
  (* 1RI21: offs[15:0] [25:10], offs[20:16] [4:0]                     beqz $a0, . *)
  Enc("loongarch64", "Branch21", "Branch21", 4, 21, "bits", 1, {S(0, 16, 10), S(16, 5, 0)}, FALSE,
      Op32(128, 16384)),
  (* I26: offs[15:0] [25:10], offs[25:16] [9:0]                       bl . *)
  Enc("loongarch64", "Branch26", "Branch26", 4, 26, "bits", 1, {S(0, 16, 10), S(16, 10, 0)}, FALSE,
      Op32(0, 21504)),
  (* R_LARCH_CALL36, value v = (S+A-PC)[37:2]: pcaddu18i si20 [24:5] = (v + 0x8000)[35:16],
     jirl offs16 [25:10] of the second word = v[15:0]                 pcaddu18i $ra, 0 ; jirl $ra, $ra, 0 *)
  Enc("loongarch64", "Call36", "Call36", 8, 36, "bits", 1, {SA(16, 20, 5, 15), S(0, 16, 42)}, FALSE,
      Op64(1, 7680, 33, 19456))
  (* LoongArch64Instruction::Call30 (R_LARCH_CALL30, LA32R) is not in the table: no authoritative
     description of its field layout is available offline; it is reported as not covered. *)
>>

-----------------------------------------------------------------------------
Window(e) == 0..(8 * e.bytes - 1)
Mask(e) == UNION {Range(s.ilo, s.w) : s \in e.segs} \cup (IF e.movnz THEN {30} ELSE {})

PlaceSeg(s, V) == {s.ilo + (i - s.vlo) : i \in (Src(V, s.addbit) \cap Range(s.vlo, s.w))}
Place(e, V, neg) ==
    LET VV == IF e.movnz /\ neg THEN Bits64 \ V ELSE V
    IN  UNION {PlaceSeg(s, VV) : s \in e.segs} \cup (IF e.movnz /\ ~neg THEN {30} ELSE {})

(* The specified write: clear the field, then place the value *)
Write(e, W, V, neg) == (W \ Mask(e)) \cup Place(e, V, neg)
(* Deliberately broken writers (each is a defect the implementation once had).  They are not part
   of the specification: MCInsnFields checks that TLC rejects every one of them (anti-vacuity). *)
(* OR into the word without clearing the field first *)
WriteOr(e, W, V, neg) == W \cup Place(e, V, neg)
(* MOVN/MOVZ group: keep only rd [4:0] and hw [22:21], force a complete 64-bit MOVN/MOVZ opcode
   (0x92800000: bits 31, 28, 25, 23) *)
WriteMovnzClobber(e, W, V, neg) ==
    IF e.movnz THEN (W \cap ((0..4) \cup {21, 22})) \cup {31, 28, 25, 23} \cup Place(e, V, neg)
    ELSE Write(e, W, V, neg)
(* CALL36: the 20-bit high part not masked: the rounding carry lands in bit 25 *)
WriteCall36Carry(e, W, V, neg) ==
    Write(e, W, V, neg) \cup (IF e.use = "Call36" /\ 36 \in AddPow2(V, 15) THEN {25} ELSE {})

(* ISA decode: per segment, the value bits stored in the field *)
DecodeNeg(e, W) == e.movnz /\ 30 \notin W
DecodeSeg(e, s, W) ==
    LET raw == {s.vlo + (j - s.ilo) : j \in (W \cap Range(s.ilo, s.w))}
    IN  IF DecodeNeg(e, W) THEN Range(s.vlo, s.w) \ raw ELSE raw
CoveredSeg(s, V) == Src(V, s.addbit) \cap Range(s.vlo, s.w)

Local(e, Wr(_, _, _, _), W, V, neg) == Wr(e, W, V, neg) \ Mask(e) = W \ Mask(e)
Oblivious(e, Wr(_, _, _, _), W1, W2, V, neg) ==
    Wr(e, W1, V, neg) \cap Mask(e) = Wr(e, W2, V, neg) \cap Mask(e)
RoundTrip(e, Wr(_, _, _, _), W, V, neg) ==
    /\ \A s \in e.segs : DecodeSeg(e, s, Wr(e, W, V, neg)) = CoveredSeg(s, V)
    /\ e.movnz => (DecodeNeg(e, Wr(e, W, V, neg)) = neg)

(* The table itself is consistent: segments inside the window, pairwise disjoint in the
   instruction, and no value bit stored twice from the same source *)
TableOK(e) ==
    /\ Mask(e) \subseteq Window(e)
    /\ e.op \subseteq Window(e) /\ e.op \cap (Mask(e) \ {30}) = {}
    /\ \A s, t \in e.segs : s # t => Range(s.ilo, s.w) \cap Range(t.ilo, t.w) = {}
    /\ \A s, t \in e.segs : (s # t /\ s.addbit = t.addbit) => Range(s.vlo, s.w) \cap Range(t.vlo, t.w) = {}
    /\ e.movnz => \A s \in e.segs : 30 \notin Range(s.ilo, s.w)
=============================================================================
