------------------------------- MODULE Layout -------------------------------
(***************************************************************************)
(* C04 - output ELF files are structurally well-formed.                    *)
(*                                                                         *)
(* Part 1: the vocabulary of an ELF *image* and the predicate              *)
(*   WellFormed(img)  - the conjunction the property states.               *)
(* Every conjunct is written as a set Bad_X(img) of offenders (tuples of   *)
(* section / segment indices, or numbers of failed sub-clauses); the       *)
(* conjunct holds iff the set is empty, so a checker can print *what* is   *)
(* wrong.  The same operators are evaluated                                *)
(*   - on every terminal state of the placement machine of Part 2 (model   *)
(*     checking: Placed => WellFormed(Img)), and                           *)
(*   - by LayoutObs.tla on images OBSERVED from real linker outputs.       *)
(*                                                                         *)
(* Part 2: a state machine of wild's section / segment placement           *)
(* (layout.rs layout_section_parts, compute_segment_alignments,            *)
(* compute_segment_layout; output_section_id.rs OutputOrderBuilder;        *)
(* alignment.rs align_modulo), on scaled constants.                        *)
(*                                                                         *)
(* Image vocabulary.  img is a record                                      *)
(*   kind      "exec" (ET_EXEC / ET_DYN) | "rel" (ET_REL)                  *)
(*   page      the common page size the loader protects / maps with        *)
(*   ehsize phoff phnum phentsize shoff shnum shentsize shstrndx filesize  *)
(*   tlsTailZero  the file bytes of PT_TLS past the last PROGBITS TLS      *)
(*             section are all zero (they are the initial image of .tbss)  *)
(*   secs      sequence of sections (position i <-> section index i-1):    *)
(*     idx name type(string) alloc write exec tls nobits                   *)
(*     addr aend (sh_addr, sh_addr+sh_size)  off oend (file extent; oend = *)
(*     off for NOBITS)  align link linktype relro ("must"|"may"|"never")   *)
(*     bias (an id of the value sh_addr - sh_offset: equal ids <=> equal   *)
(*     differences)  nameok  rawzero (all header fields are 0)             *)
(*   segs      sequence of program headers:                                *)
(*     idx type(string) r w x  off oend  vaddr vfend vend  align bias      *)
(*     (vfend = p_vaddr + p_filesz, vend = p_vaddr + p_memsz)              *)
(* Memory coordinates may have been passed through an order-preserving map *)
(* that preserves residues modulo every alignment in the image (the python *)
(* observer squeezes gaps so that numbers fit TLC's 32-bit integers); all  *)
(* conjuncts below only use order, equality, residues modulo alignments    *)
(* and page, and the bias ids, so they are invariant under such a map.     *)
(* File coordinates are exact.                                             *)
(***************************************************************************)
EXTENDS Integers, Sequences, FiniteSets, TLC, SequencesExt

CONSTANTS EhSize, PhEntSize, ShEntSize   \* 64, 56, 64 for real ELF64; scaled in the model

-----------------------------------------------------------------------------
(* Arithmetic helpers *)
Max2(a, b) == IF a >= b THEN a ELSE b
Min2(a, b) == IF a <= b THEN a ELSE b
SMax(S) == CHOOSE x \in S : \A y \in S : y <= x
SMin(S) == CHOOSE x \in S : \A y \in S : x <= y
Pow2s == {1, 2, 4, 8, 16, 32, 64, 128, 256, 512, 1024, 2048, 4096, 8192, 16384, 32768, 65536,
          131072, 262144, 524288, 1048576, 2097152, 4194304, 8388608, 16777216, 33554432,
          67108864, 134217728, 268435456, 536870912, 1073741824}
IsPow2(a) == a \in Pow2s
AlignUp(x, a) == IF a <= 1 THEN x ELSE ((x + a - 1) \div a) * a
AlignDown(x, a) == IF a <= 1 THEN x ELSE (x \div a) * a
(* alignment.rs align_modulo: smallest value >= AlignUp(x, a) that is congruent to ref modulo a *)
AlignModulo(a, ref, x) ==
    LET y == AlignUp(x, a) IN
    IF y % a = ref % a THEN y
    ELSE LET adj == (ref % a) + a - (y % a) IN y + (IF adj > a THEN adj - a ELSE adj)

Overlap(a1, e1, a2, e2) == a1 < e2 /\ a2 < e1

-----------------------------------------------------------------------------
(* Part 1: WellFormed *)

Secs(o) == {o.secs[i] : i \in 1..Len(o.secs)}
Segs(o) == {o.segs[i] : i \in 1..Len(o.segs)}
Alloc(o) == {s \in Secs(o) : s.alloc /\ s.type # "NULL"}
(* sections that occupy process memory: .tbss (TLS NOBITS) only exists in the TLS template *)
MemOcc(o) == {s \in Alloc(o) : s.aend > s.addr /\ ~(s.tls /\ s.nobits)}
FileOcc(o) == {s \in Secs(o) : ~s.nobits /\ s.type # "NULL" /\ s.oend > s.off}
Loads(o) == {p \in Segs(o) : p.type = "LOAD"}
OfType(o, t) == {p \in Segs(o) : p.type = t}
HostLoads(o, s) == {p \in Loads(o) : p.vaddr <= s.addr /\ s.aend <= p.vend}
Inside(s, p) == p.vaddr <= s.addr /\ s.aend <= p.vend

(* 1. allocated sections never overlap in memory *)
Bad_MemOverlap(o) ==
    {<<s.idx, t.idx>> : <<s, t>> \in {pr \in MemOcc(o) \X MemOcc(o) :
        pr[1].idx < pr[2].idx /\ Overlap(pr[1].addr, pr[1].aend, pr[2].addr, pr[2].aend)}}

(* 2. ... nor in the file (all sections with file contents, and the three header tables) *)
FRegions(o) ==
    {[idx |-> s.idx, off |-> s.off, oend |-> s.oend] : s \in FileOcc(o)}
    \cup {[idx |-> -1, off |-> 0, oend |-> o.ehsize]}
    \cup (IF o.phnum > 0 THEN {[idx |-> -2, off |-> o.phoff, oend |-> o.phoff + o.phnum * o.phentsize]} ELSE {})
    \cup (IF o.shnum > 0 THEN {[idx |-> -3, off |-> o.shoff, oend |-> o.shoff + o.shnum * o.shentsize]} ELSE {})
Bad_FileOverlap(o) ==
    {<<a.idx, b.idx>> : <<a, b>> \in {pr \in FRegions(o) \X FRegions(o) :
        pr[1].idx < pr[2].idx /\ Overlap(pr[1].off, pr[1].oend, pr[2].off, pr[2].oend)}}

(* 3. each allocated section lies inside exactly one PT_LOAD ... *)
Bad_InLoad(o) == {<<s.idx, Cardinality(HostLoads(o, s))>> : s \in {t \in MemOcc(o) : Cardinality(HostLoads(o, t)) # 1}}
(* ... whose permissions equal its flags *)
Bad_Perm(o) ==
    {<<s.idx, p.idx>> : <<s, p>> \in {pr \in MemOcc(o) \X Loads(o) :
        Inside(pr[1], pr[2]) /\ ~(pr[2].r /\ pr[2].w = pr[1].write /\ pr[2].x = pr[1].exec)}}
(* ... and, if it has file contents, is mapped from where the section header says it is *)
Bad_FileMap(o) ==
    {<<s.idx, p.idx>> : <<s, p>> \in {pr \in MemOcc(o) \X Loads(o) :
        Inside(pr[1], pr[2]) /\ ~pr[1].nobits /\ ~(pr[1].aend <= pr[2].vfend /\ pr[1].bias = pr[2].bias)}}

(* 4. no loadable segment is writable and executable *)
Bad_WX(o) == {<<p.idx, 0>> : p \in {q \in Loads(o) : q.w /\ q.x}}

(* 5. p_offset = p_vaddr modulo p_align; loadable segments ascend and do not share memory; segments
      of different permissions do not share a page *)
Bad_LoadCongruent(o) ==
    {<<p.idx, p.align>> : p \in {q \in Loads(o) :
        q.align > 1 /\ (~IsPow2(q.align) \/ q.off % q.align # q.vaddr % q.align)}}
Bad_LoadOrder(o) ==
    {<<p.idx, q.idx>> : <<p, q>> \in {pr \in Loads(o) \X Loads(o) :
        /\ pr[1].idx < pr[2].idx
        /\ \/ pr[1].vend > pr[2].vaddr
           \/ /\ <<pr[1].r, pr[1].w, pr[1].x>> # <<pr[2].r, pr[2].w, pr[2].x>>
              /\ pr[1].vend > pr[1].vaddr /\ pr[2].vend > pr[2].vaddr
              /\ AlignUp(pr[1].vend, o.page) > AlignDown(pr[2].vaddr, o.page)}}

(* 6. every section honours its alignment (address; file offset in a relocatable object) *)
Bad_SecAlign(o) ==
    IF o.kind = "rel"
    THEN {<<s.idx, s.align>> : s \in {t \in Secs(o) : t.type # "NULL" /\ ~t.nobits /\ t.align > 1
                                                    /\ (~IsPow2(t.align) \/ t.off % t.align # 0)}}
    ELSE {<<s.idx, s.align>> : s \in {t \in Alloc(o) : t.align > 1
                                                    /\ (~IsPow2(t.align) \/ t.addr % t.align # 0)}}

(* 7. PT_TLS covers exactly the TLS sections *)
TlsSecs(o) == {s \in Alloc(o) : s.tls}
TlsNonEmpty(o) == {s \in TlsSecs(o) : s.aend > s.addr}
TlsProg(o) == {s \in TlsNonEmpty(o) : ~s.nobits}
Bad_Tls(o) ==
    LET T == TlsSecs(o)  NE == TlsNonEmpty(o)  P == OfType(o, "TLS") IN
    IF NE = {}      \* only empty TLS sections (or none): a PT_TLS, if any, spans nothing but them
    THEN {<<p.idx, 0>> : p \in {q \in P : q.vend > q.vaddr /\
                ~(T # {} /\ SMin({s.addr : s \in T}) <= q.vaddr /\ q.vend <= SMax({s.aend : s \in T}))}}
         \cup (IF Cardinality(P) > 1 THEN {<<0, 1>>} ELSE {})
    ELSE IF Cardinality(P) # 1 THEN {<<0, 1>>}
    ELSE LET p == CHOOSE q \in P : TRUE
             lo == SMin({s.addr : s \in NE})
             hi == SMax({s.aend : s \in NE})
             progEnd == IF TlsProg(o) = {} THEN p.vaddr ELSE SMax({s.aend : s \in TlsProg(o)})
         IN  {<<p.idx, c>> : c \in
                 {c \in 2..9 :
                    \/ c = 2 /\ ~(p.vaddr <= lo /\ p.vaddr \in {s.addr : s \in T})   \* starts at a TLS section, at or before the first byte
                    \/ c = 3 /\ ~(hi <= p.vend /\ p.vend <= SMax({s.aend : s \in T}))      \* ends with the last TLS section
                    \/ c = 4 /\ ~(progEnd <= p.vfend /\ p.vfend <= p.vend)            \* initialised part is in the file image
                    \/ c = 5 /\ \E s \in MemOcc(o) : ~s.tls /\ Overlap(s.addr, s.aend, p.vaddr, progEnd)
                    \/ c = 6 /\ \E s \in T : s.align > 1 /\ (p.align < s.align \/ p.align % s.align # 0)
                    \/ c = 7 /\ \E s \in TlsProg(o) : s.bias # p.bias                 \* file image is where the sections are
                    \/ c = 8 /\ ~o.tlsTailZero                                         \* .tbss part of the file image is zero
                    \/ c = 9 /\ \E s \in T : s.aend > s.addr /\ ~(p.vaddr <= s.addr /\ s.aend <= p.vend)}}

(* 8. PT_GNU_RELRO covers exactly the relro sections, inside one RW PT_LOAD, up to a page boundary *)
Bad_Relro(o) ==
    LET P == OfType(o, "GNU_RELRO") IN
    IF P = {} THEN {}
    ELSE IF Cardinality(P) # 1 THEN {<<0, 1>>}
    ELSE LET p == CHOOSE q \in P : TRUE
             hosts == {l \in Loads(o) : l.vaddr <= p.vaddr /\ p.vend <= l.vend}
             pageStart == AlignDown(p.vaddr, o.page)
         IN  {<<s.idx, 3>> : s \in {t \in MemOcc(o) : Overlap(t.addr, t.aend, p.vaddr, p.vend) /\ ~Inside(t, p)}}      \* straddles the boundary
             \cup {<<s.idx, 4>> : s \in {t \in MemOcc(o) : Inside(t, p) /\ t.relro = "never"}}                       \* must stay writable
             \cup {<<s.idx, 5>> : s \in {t \in MemOcc(o) : t.relro = "must" /\ ~Inside(t, p)}}                        \* must be protected
             \cup {<<s.idx, 6>> : s \in {t \in MemOcc(o) : t.write /\ ~Inside(t, p)
                                                         /\ Overlap(t.addr, t.aend, pageStart, p.vaddr)}}      \* would be made read-only with the first page
             \cup {<<p.idx, c>> : c \in {c \in {1, 2, 7} :
                    \/ c = 1 /\ p.vend > p.vaddr /\ ~(Cardinality(hosts) = 1 /\ \A l \in hosts : l.w /\ ~l.x /\ l.bias = p.bias)
                    \/ c = 2 /\ p.vend % o.page # 0
                    \/ c = 7 /\ ~(p.vfend <= p.vend)}}

(* 9. PT_DYNAMIC = .dynamic, PT_INTERP = .interp *)
SameExtent(s, p) == p.off = s.off /\ p.oend = s.oend /\ p.vaddr = s.addr /\ p.vend = s.aend /\ p.vfend = s.aend
Bad_Exact(o, S, P) ==
    IF S = {} /\ P = {} THEN {}
    ELSE IF Cardinality(S) # 1 \/ Cardinality(P) # 1 THEN {<<Cardinality(S), Cardinality(P)>>}
    ELSE {<<s.idx, p.idx>> : <<s, p>> \in {pr \in S \X P : ~SameExtent(pr[1], pr[2])}}
Bad_Dynamic(o) == Bad_Exact(o, {s \in Alloc(o) : s.type = "DYNAMIC"}, OfType(o, "DYNAMIC"))
Bad_Interp(o) ==
    Bad_Exact(o, {s \in Alloc(o) : s.name = ".interp"}, OfType(o, "INTERP"))
    \cup {<<p.idx, l.idx>> : <<p, l>> \in {pr \in OfType(o, "INTERP") \X Loads(o) : pr[2].idx < pr[1].idx}}

(* 10. PT_PHDR = the program header table, inside a PT_LOAD, before every PT_LOAD entry *)
Bad_Phdr(o) ==
    LET P == OfType(o, "PHDR") IN
    IF P = {} THEN {}
    ELSE IF Cardinality(P) # 1 THEN {<<0, 1>>}
    ELSE LET p == CHOOSE q \in P : TRUE IN
         {<<p.idx, c>> : c \in {c \in 1..4 :
            \/ c = 1 /\ ~(p.off = o.phoff /\ p.oend = o.phoff + o.phnum * o.phentsize)
            \/ c = 2 /\ ~(p.vfend = p.vend)
            \/ c = 3 /\ ~(\E l \in Loads(o) : l.off <= p.off /\ p.oend <= l.oend /\ l.bias = p.bias
                                              /\ l.vaddr <= p.vaddr /\ p.vend <= l.vfend)
            \/ c = 4 /\ \E l \in Loads(o) : l.idx < p.idx}}

(* 11. header counts and extents are consistent *)
LinkOK(o, s) ==
    /\ s.link >= 0 /\ s.link < o.shnum
    /\ (s.type \in {"SYMTAB", "DYNSYM", "DYNAMIC"} => s.linktype = "STRTAB")
    /\ (s.type \in {"HASH", "GNU_HASH", "GNU_VERSYM"} => s.linktype = "DYNSYM")
    /\ (s.type \in {"RELA", "REL"} => s.linktype \in {"SYMTAB", "DYNSYM", "NULL"})
Bad_Header(o) ==
    {<<c, 0>> : c \in {c \in 1..10 :
        \/ c = 1 /\ o.ehsize # EhSize
        \/ c = 2 /\ o.phnum > 0 /\ o.phentsize # PhEntSize
        \/ c = 3 /\ o.shnum > 0 /\ o.shentsize # ShEntSize
        \/ c = 4 /\ o.phnum > 0 /\ ~(o.phoff >= o.ehsize /\ o.phoff + o.phnum * o.phentsize <= o.filesize)
        \/ c = 5 /\ o.shnum > 0 /\ ~(o.shoff >= o.ehsize /\ o.shoff + o.shnum * o.shentsize <= o.filesize)
        \/ c = 6 /\ ~(o.shnum = Len(o.secs) /\ o.phnum = Len(o.segs))
        \/ c = 7 /\ ~(IF o.shnum = 0 THEN o.shstrndx = 0
                      ELSE o.shstrndx \in 1..(o.shnum - 1) /\ o.secs[o.shstrndx + 1].type = "STRTAB")
        \/ c = 8 /\ o.shnum > 0 /\ o.secs[1].type # "NULL"
        \/ c = 9 /\ ~(IF o.kind = "rel" THEN o.phnum = 0 ELSE o.phnum > 0)
        \/ c = 10 /\ o.ehsize > o.filesize}}
    \cup {<<11, s.idx>> : s \in {t \in Secs(o) : ~t.nameok}}
    \cup {<<12, s.idx>> : s \in {t \in Secs(o) : t.type # "NULL" /\ ~LinkOK(o, t)}}
Bad_Extent(o) ==
    {<<s.idx, 1>> : s \in {t \in FileOcc(o) : t.oend > o.filesize}}
    \cup {<<p.idx, 2>> : p \in {q \in Segs(o) : q.oend > o.filesize \/ q.vfend > q.vend}}
(* gABI: the section header at index 0 is all zero *)
Bad_Null0(o) == IF o.shnum > 0 /\ ~o.secs[1].rawzero THEN {<<0, 0>>} ELSE {}

Conjuncts == <<"MemOverlap", "FileOverlap", "InLoad", "Perm", "FileMap", "WX", "LoadCongruent", "LoadOrder",
               "SecAlign", "Tls", "Relro", "Dynamic", "Interp", "Phdr", "Header", "Extent", "Null0">>
SegmentConjuncts == {"MemOverlap", "InLoad", "Perm", "FileMap", "WX", "LoadCongruent", "LoadOrder", "Tls", "Relro",
                     "Dynamic", "Interp", "Phdr"}
Bad(c, o) ==
    CASE c = "MemOverlap" -> Bad_MemOverlap(o)
      [] c = "FileOverlap" -> Bad_FileOverlap(o)
      [] c = "InLoad" -> Bad_InLoad(o)
      [] c = "Perm" -> Bad_Perm(o)
      [] c = "FileMap" -> Bad_FileMap(o)
      [] c = "WX" -> Bad_WX(o)
      [] c = "LoadCongruent" -> Bad_LoadCongruent(o)
      [] c = "LoadOrder" -> Bad_LoadOrder(o)
      [] c = "SecAlign" -> Bad_SecAlign(o)
      [] c = "Tls" -> Bad_Tls(o)
      [] c = "Relro" -> Bad_Relro(o)
      [] c = "Dynamic" -> Bad_Dynamic(o)
      [] c = "Interp" -> Bad_Interp(o)
      [] c = "Phdr" -> Bad_Phdr(o)
      [] c = "Header" -> Bad_Header(o)
      [] c = "Extent" -> Bad_Extent(o)
      [] c = "Null0" -> Bad_Null0(o)
(* In a relocatable object only the section-level conjuncts apply. *)
Applies(c, o) == o.kind # "rel" \/ c \notin SegmentConjuncts
Failing(o) == {i \in 1..Len(Conjuncts) : Applies(Conjuncts[i], o) /\ Bad(Conjuncts[i], o) # {}}
WellFormed(o) == Failing(o) = {}

-----------------------------------------------------------------------------
(* Part 2: the placement machine.

   Input: a list of parts in wild's output order.  Each part has a class, an alignment, a size and
   possibly a fixed address (linker script `.name ADDR :` / --section-start).  Classes and the
   segments they belong to (elf.rs build_output_order_and_program_segments + the segment defs):
     "R"   read-only data                        LOAD(R)
     "X"   code                                  LOAD(RX)
     "TD"  .tdata                                LOAD(RW) TLS RELRO
     "TB"  .tbss (NOBITS, but zero bytes are put in the file: has_data_in_file)   LOAD(RW) TLS RELRO
     "RR"  relro data (.init_array, .data.rel.ro, .dynamic, .got)                 LOAD(RW) RELRO
     "PAD" .relro_padding: NOBITS up to the next page                             LOAD(RW) RELRO
     "D"   .data                                 LOAD(RW)  (a new one: the RW segment is cut when RELRO ends)
     "B"   .bss  (NOBITS)                        LOAD(RW)
     "N"   non-allocated (.comment, .shstrtab)   -
   The file header, program headers and section headers are one pseudo-part at the very start
   of the first LOAD(R). *)

CONSTANTS Page,          \* max-page-size (= common page size in the model)
          Base,          \* image base address
          PartLists,     \* set of candidate part lists (sequences of [cls, align, size, loc]); loc = -1: none
          RelroChoices,  \* subset of BOOLEAN: -z relro / -z norelro
          Variant        \* "wild" | "naive-nobits" | "no-modulo" | "no-cut" | "page-modulo-at-location": deliberately broken placement rules (anti-vacuity)

VARIABLES parts, relro, k, off, addr, secs, open, segs, pc

lvars == <<parts, relro, k, off, addr, secs, open, segs, pc>>

ClsWrite(c) == c \in {"TD", "TB", "RR", "PAD", "D", "B"}
ClsExec(c) == c = "X"
ClsTls(c) == c \in {"TD", "TB"}
ClsNobits(c) == c \in {"TB", "PAD", "B"}
ClsAlloc(c) == c # "N"
(* output_section_id.rs has_data_in_file: !NOBITS || TLS *)
ClsInFile(c) == IF Variant = "naive-nobits" THEN ~ClsNobits(c) ELSE (~ClsNobits(c) \/ ClsTls(c))
ClsRelroClass(c) == CASE c \in {"TD", "RR"} -> "must" [] c \in {"TB", "PAD"} -> "may" [] OTHER -> "never"
ClsType(c) == CASE ClsNobits(c) -> "NOBITS" [] c = "N" -> "STRTAB" [] OTHER -> "PROGBITS"
IsRelroCls(c) == c \in {"TD", "TB", "RR", "PAD"}

(* segment kinds a part of class c is a member of (should_include_in_segment) *)
SegKinds(c, rl) ==
    CASE c = "R" -> {"LOAD_R"}
      [] c = "X" -> {"LOAD_X"}
      [] c = "N" -> {}
      [] OTHER -> {"LOAD_W"} \cup (IF ClsTls(c) THEN {"TLS"} ELSE {}) \cup (IF rl /\ IsRelroCls(c) THEN {"RELRO"} ELSE {})
IsLoadKind(sk) == sk \in {"LOAD_R", "LOAD_X", "LOAD_W"}

(* The part list actually laid out: the header pseudo-part first, .relro_padding inserted after the
   last relro part (before the first "D"/"B"/"N"), a string table last. *)
Hdr(nseg, nsec) == [cls |-> "R", align |-> 1, size |-> EhSize + nseg * PhEntSize + nsec * ShEntSize, loc |-> -1, hdr |-> TRUE]
WithHdr(p) == [cls |-> p.cls, align |-> p.align, size |-> p.size, loc |-> p.loc, hdr |-> FALSE]
PadPart == [cls |-> "PAD", align |-> 1, size |-> 0, loc |-> -1, hdr |-> FALSE]
StrPart == [cls |-> "N", align |-> 1, size |-> 2, loc |-> -1, hdr |-> FALSE]
Body(pl, rl) ==
    LET n == Len(pl)
        isPre(i) == pl[i].cls \in {"R", "X", "TD", "TB", "RR"}
        pre == SelectSeq(pl, LAMBDA p : p.cls \in {"R", "X", "TD", "TB", "RR"})
        post == SelectSeq(pl, LAMBDA p : p.cls \in {"D", "B"})
        m(s) == [i \in 1..Len(s) |-> WithHdr(s[i])]
    IN  m(pre) \o (IF rl THEN <<PadPart>> ELSE <<>>) \o m(post) \o <<StrPart>>

(* Which parts start a new PT_LOAD, and the number of program headers, are known before placement
   (wild sizes the header from the output order). *)
LoadKind(p, rl) == CHOOSE sk \in SegKinds(p.cls, rl) : IsLoadKind(sk)
StartsLoad(b, i, rl) ==
    /\ ClsAlloc(b[i].cls)
    /\ \/ i = 1
       \/ b[i].loc >= 0
       \/ ~ClsAlloc(b[i - 1].cls)
       \/ LoadKind(b[i], rl) # LoadKind(b[i - 1], rl)
       \/ (Variant # "no-cut" /\ rl /\ IsRelroCls(b[i - 1].cls) /\ ~IsRelroCls(b[i].cls))   \* RW segment is cut where RELRO ends
StartsOf(b, i, rl, sk) ==     \* a segment of non-load kind sk starts at part i
    /\ sk \in SegKinds(b[i].cls, rl)
    /\ (i = 1 \/ b[i].loc >= 0 \/ sk \notin SegKinds(b[i - 1].cls, rl))
NumSegs(b, rl) ==
    1   \* PT_PHDR
    + Cardinality({i \in 1..Len(b) : StartsLoad(b, i, rl)})
    + Cardinality({i \in 1..Len(b) : StartsOf(b, i, rl, "TLS")})
    + Cardinality({i \in 1..Len(b) : StartsOf(b, i, rl, "RELRO")})
NumSecs(b) == 1 + Len(b) - 1      \* the NULL section + every part except the header pseudo-part
FullList(pl, rl) ==
    LET body == Body(pl, rl)
        b0 == <<Hdr(0, 0)>> \o body
        ns == NumSegs(b0, rl)
    IN  <<Hdr(ns, NumSecs(b0))>> \o body

(* compute_segment_alignments: a LOAD segment's alignment is the largest of the page size and the
   alignments of the parts placed while it is active *)
RunEnd(b, i, rl) ==     \* last part of the PT_LOAD that starts at part i
    LET later == {j \in (i + 1)..Len(b) : StartsLoad(b, j, rl) \/ ~ClsAlloc(b[j].cls)}
    IN  IF later = {} THEN Len(b) ELSE SMin(later) - 1
SegAlign(b, i, rl) == SMax({Page} \cup {b[j].align : j \in i..RunEnd(b, i, rl)})

NullSec == [idx |-> 0, name |-> "", type |-> "NULL", alloc |-> FALSE, write |-> FALSE, exec |-> FALSE, tls |-> FALSE,
            nobits |-> FALSE, addr |-> 0, aend |-> 0, off |-> 0, oend |-> 0, align |-> 0, link |-> 0,
            linktype |-> "NULL", relro |-> "may", bias |-> 0, nameok |-> TRUE, rawzero |-> TRUE]

LInit ==
    /\ relro \in RelroChoices
    /\ \E pl \in PartLists : parts = FullList(pl, relro)
    /\ k = 1
    /\ off = 0
    /\ addr = Base
    /\ secs = <<NullSec>>
    /\ open = {}
    /\ segs = <<>>
    /\ pc = "place"

(* Extend every open segment by the placed extent (compute_segment_layout). *)
Extend(sg, fo, fe, mo, me, al) ==
    [sg EXCEPT !.fstart = Min2(@, fo), !.fend = Max2(@, fe), !.mstart = Min2(@, mo), !.mend = Max2(@, me),
               !.malign = Max2(@, al)]
Big == 1000000
NewSeg(sk) == [kind |-> sk, fstart |-> Big, fend |-> 0, mstart |-> Big, mend |-> 0, malign |-> 1]

SegRecord(sg, i) ==
    LET ty == CASE IsLoadKind(sg.kind) -> "LOAD" [] sg.kind = "TLS" -> "TLS" [] sg.kind = "RELRO" -> "GNU_RELRO"
                [] sg.kind = "PHDR" -> "PHDR"
        al == IF IsLoadKind(sg.kind) THEN Max2(sg.malign, Page) ELSE sg.malign
    IN  [idx |-> i, type |-> ty, r |-> TRUE,
         w |-> (sg.kind = "LOAD_W"), x |-> (sg.kind = "LOAD_X"),
         off |-> sg.fstart, oend |-> sg.fend, vaddr |-> sg.mstart, vfend |-> sg.mstart + (sg.fend - sg.fstart),
         vend |-> sg.mend, align |-> al, bias |-> sg.mstart - sg.fstart]

(* One step = one part: end / start segments as the order builder does, move the cursor as
   layout_section_parts does, record the section, extend the open segments. *)
PlacePart ==
    /\ pc = "place" /\ k <= Len(parts)
    /\ LET p == parts[k]
           kinds == SegKinds(p.cls, relro)
           located == p.loc >= 0
           newLoad == StartsLoad(parts, k, relro)
           \* segments to close before this part
           closing == {sg \in open : located \/ sg.kind \notin kinds
                                      \/ (IsLoadKind(sg.kind) /\ newLoad)}
           staying == open \ closing
           opening == {NewSeg(sk) : sk \in {x \in kinds : \A sg \in staying : sg.kind # x}}
           sa == IF newLoad THEN SegAlign(parts, k, relro) ELSE 1
           \* cursor at the start of a new PT_LOAD
           addr1 == IF ~newLoad THEN addr
                    ELSE IF located THEN p.loc
                    ELSE IF Variant = "no-modulo" THEN AlignUp(addr, sa)
                    ELSE AlignModulo(sa, off, addr)
           off1 == IF newLoad /\ located
                   THEN AlignModulo(IF Variant = "page-modulo-at-location" THEN Page ELSE sa, addr1, off)
                   ELSE off
           \* the part itself
           off2 == AlignUp(off1, p.align)
           addr2 == IF ClsAlloc(p.cls) THEN AlignUp(addr1, p.align) ELSE addr1
           msize == IF p.cls = "PAD" THEN AlignUp(addr2, Page) - addr2 ELSE p.size
           fsize == IF ~ClsAlloc(p.cls) THEN p.size ELSE IF ClsInFile(p.cls) THEN msize ELSE 0
           sec == [idx |-> Len(secs), name |-> p.cls, type |-> ClsType(p.cls),
                   alloc |-> ClsAlloc(p.cls), write |-> ClsWrite(p.cls), exec |-> ClsExec(p.cls), tls |-> ClsTls(p.cls),
                   nobits |-> ClsNobits(p.cls),
                   addr |-> IF ClsAlloc(p.cls) THEN addr2 ELSE 0,
                   aend |-> IF ClsAlloc(p.cls) THEN addr2 + msize ELSE 0,
                   off |-> off2, oend |-> IF ClsNobits(p.cls) THEN off2 ELSE off2 + fsize,
                   align |-> p.align, link |-> 0, linktype |-> "NULL", relro |-> ClsRelroClass(p.cls),
                   bias |-> IF ClsAlloc(p.cls) THEN addr2 - off2 ELSE 0, nameok |-> TRUE, rawzero |-> FALSE]
       IN  /\ off' = off2 + fsize
           /\ addr' = IF ClsAlloc(p.cls) THEN addr2 + msize ELSE addr1
           /\ secs' = IF p.hdr THEN secs ELSE Append(secs, sec)
           /\ open' = IF ClsAlloc(p.cls)
                      THEN {Extend(sg, off2, off2 + fsize, addr2, addr2 + msize, p.align) : sg \in staying \cup opening}
                      ELSE staying \cup opening
           /\ segs' = segs \o SetToSeq(closing)
           /\ k' = k + 1
    /\ UNCHANGED <<parts, relro, pc>>

Finish ==
    /\ pc = "place" /\ k > Len(parts)
    /\ segs' = segs \o SetToSeq(open)
    /\ open' = {}
    /\ pc' = "placed"
    /\ UNCHANGED <<parts, relro, k, off, addr, secs>>

LNext == PlacePart \/ Finish
LSpec == LInit /\ [][LNext]_lvars

Placed == pc = "placed"

(* The image the machine produced, in the vocabulary of Part 1.  Program headers are written in
   the order PHDR, LOADs ascending, TLS, RELRO (program_segments order_key). *)
HdrPart == parts[1]
NSeg == NumSegs(parts, relro)
NSec == NumSecs(parts)
PhdrSeg == [kind |-> "PHDR", fstart |-> EhSize, fend |-> EhSize + NSeg * PhEntSize, mstart |-> Base + EhSize,
            mend |-> Base + EhSize + NSeg * PhEntSize, malign |-> 1]
KindRank(sk) == CASE sk = "PHDR" -> 0 [] IsLoadKind(sk) -> 1 [] sk = "TLS" -> 2 [] OTHER -> 3
SegKey(sg) == KindRank(sg.kind) * Big * 4 + sg.mstart
SortedSegs ==
    LET sorted == SortSeq(<<PhdrSeg>> \o segs, LAMBDA a, b : SegKey(a) < SegKey(b))
    IN  [i \in 1..Len(sorted) |-> SegRecord(sorted[i], i - 1)]
Img ==
    [kind |-> "exec", page |-> Page, ehsize |-> EhSize, phoff |-> EhSize, phnum |-> NSeg, phentsize |-> PhEntSize,
     shoff |-> EhSize + NSeg * PhEntSize, shnum |-> NSec, shentsize |-> ShEntSize, shstrndx |-> Len(secs) - 1,
     filesize |-> off, tlsTailZero |-> TRUE, secs |-> secs, segs |-> SortedSegs]

PlacedWellFormed ==
    Placed => (WellFormed(Img) \/ (PrintT(<<"MODEL-FAIL", {Conjuncts[i] : i \in Failing(Img)}>>) /\ FALSE))
=============================================================================
