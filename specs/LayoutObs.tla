----------------------------- MODULE LayoutObs -----------------------------
(***************************************************************************)
(* C04, observed-state validation: the WellFormed predicate of Layout.tla  *)
(* evaluated by TLC on images observed from real linker outputs.           *)
(* The file named by the environment variable OBS holds one JSON object    *)
(* per line in the image vocabulary of Layout.tla (produced by             *)
(* harness/py/vlib/wellformed.py observe_for_tla) plus an "id".            *)
(* For every observation each failing conjunct is printed with its set of  *)
(* offenders (section / segment indices), then a WF-CHECKED line; the      *)
(* harness turns WF-FAIL lines into violations and insists on one          *)
(* WF-CHECKED line per observation.                                        *)
(***************************************************************************)
EXTENDS Layout, Json, IOUtils

Obs == ndJsonDeserialize(IOEnv.OBS)

Report(o) ==
    LET F == Failing(o) IN
    /\ \A i \in F : PrintT(<<"WF-FAIL", o.id, Conjuncts[i], Bad(Conjuncts[i], o)>>)
    /\ PrintT(<<"WF-CHECKED", o.id, Cardinality(F)>>)

ASSUME \A i \in 1..Len(Obs) : Report(Obs[i])

VARIABLE done
OInit == done = FALSE
ONext == done' = TRUE
OSpec == OInit /\ [][ONext]_done
=============================================================================
