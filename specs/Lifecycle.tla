----------------------------- MODULE Lifecycle -----------------------------
(***************************************************************************)
(* Process life-cycle of one wild link: optional fork (parent waits on a   *)
(* pipe), the worker's phases, the output file (created by a background    *)
(* task after the size is known, or inline when single-threaded; replaced  *)
(* or updated in place), faults at every phase boundary, the previous      *)
(* output possibly being executed / mapped by another process, a sibling   *)
(* file whose name resembles the output's, and jobserver tokens.           *)
(* Anchors: wild/src/main.rs, libwild/src/subprocess.rs, lib.rs            *)
(* (link_for_arch / load_inputs_and_link), file_writer.rs, args.rs         *)
(* (activate_thread_pool).                                                 *)
(*                                                                         *)
(* The phase names are the names of the cfg-guarded fault points in the    *)
(* code, so a behaviour of this module can be replayed into the binary     *)
(* (WILD_VERIF_FAULT=<phase>:<kind>) and the phases a real run reports can *)
(* be checked against the order the module prescribes.                     *)
(*                                                                         *)
(* Design switches (constants) select the design being checked:            *)
(*   CheckSignaled    parent treats a signalled child as failure           *)
(*   CleanupOnFailure a failing link removes the output it created/touched *)
(*   UniqueTemp       the old output is moved aside under a private name   *)
(* TLC shows which of C17/C18/C19/C21/C35 depend on which switch.          *)
(***************************************************************************)
EXTENDS Integers, Sequences, FiniteSets, TLC

CONSTANTS CheckSignaled, CleanupOnFailure, UniqueTemp,
          MaxTokens          \* jobserver tokens initially in the pipe (0 = no jobserver)

Phases == <<"start", "loaded", "symbols", "resolved", "laid_out", "pre_write", "mid_write", "flushed",
            "unmapped", "written", "verified", "finished", "pre_inform", "post_inform", "end">>
NPh == Len(Phases)
PhaseIdx(p) == CHOOSE i \in 1..NPh : Phases[i] = p
FaultKinds == {"error", "panic", "abort", "kill", "segv", "oom"}
(* faults after which no user-level code of the process runs any more *)
Hard == {"abort", "kill", "segv", "oom"}

VARIABLES
    \* ---- scenario (fixed in Init) ----
    fork,        \* TRUE: parent + forked worker; FALSE: one process
    multi,       \* TRUE: more than one thread => output file created by a background task
    prior,       \* "absent" | "file": was there a file at the output path before
    shared,      \* TRUE: output is a shared object (default write mode = replace)
    wopt,        \* "default" | "inplace" | "replace": --update-in-place / --no-update-in-place
    mmapOut,     \* TRUE: output written through mmap; FALSE: --no-mmap-output-file (written at flush)
    holder,      \* "none" | "exec" | "map": another process executes / has mapped the prior output
    faultAt,     \* phase name at whose fault point a fault fires, or "none"
    faultKind,
    symlink,     \* TRUE: the output path is a symbolic link to the previous output (libfoo.so -> libfoo.so.1)
    reapable,    \* FALSE: the caller runs wild with SIGCHLD ignored, so waitpid() on the worker fails (ECHILD)
    changeAt,    \* an input file is modified just after the worker passed this point ("none": never)
    changed,     \* an input that was read has been modified since it was opened
    \* ---- worker ----
    wph,         \* index into Phases: the last fault point the worker has passed
    wstate,      \* "run" | "exited"
    wexit,       \* exit status (0, 1, 101) or 128+signal; -1 while running
    creator,     \* "idle" | "requested" | "done": background creation of the output file
    \* ---- file system ----
    outClass,    \* "absent" | "old" | "zero" | "partial" | "complete": what the output path holds
    outInode,    \* "none" | "old" | "new"
    oldInodeWritten,  \* TRUE once any byte of the prior output's inode has been modified
    sibling,     \* "intact" | "destroyed": an unrelated file <stem>.delete next to the output
    temp,        \* "none" | "present": a temporary file created by the link still exists
    \* ---- parent / pipe ----
    pipe,        \* "open" | "byte" | "closed"
    pexit,       \* parent's exit status, -1 while running / when there is no parent
    \* ---- jobserver ----
    tokens,      \* tokens in the jobserver pipe
    held,        \* tokens held by the worker
    threads      \* worker threads in use (0 before the pool exists)

vars == <<fork, multi, prior, shared, wopt, mmapOut, holder, faultAt, faultKind, symlink, reapable, changeAt, changed, wph, wstate, wexit, creator,
          outClass, outInode, oldInodeWritten, sibling, temp, pipe, pexit, tokens, held, threads>>
scenario == <<fork, multi, prior, shared, wopt, mmapOut, holder, faultAt, faultKind, symlink, reapable, changeAt>>

(* default_file_write_mode *)
WriteMode ==
    IF wopt = "inplace" THEN "inplace"
    ELSE IF wopt = "replace" THEN "replace"
    ELSE IF shared \/ prior = "absent" THEN "replace" ELSE "inplaceFallback"

Init ==
    /\ fork \in BOOLEAN /\ multi \in BOOLEAN /\ shared \in BOOLEAN /\ mmapOut \in BOOLEAN
    /\ prior \in {"absent", "file"}
    /\ wopt \in {"default", "inplace", "replace"}
    /\ holder \in {"none", "exec", "map"}
    /\ (holder # "none" => prior = "file")
    /\ (holder = "map" => shared) /\ (holder = "exec" => ~shared)
    /\ changeAt \in {Phases[i] : i \in 2..PhaseIdx("written")} \cup {"none"}
    /\ (changeAt # "none" => faultAt = "none")
    /\ changed = FALSE
    /\ symlink \in BOOLEAN
    \* Replacing the output replaces the link itself (rename/unlink act on the path), so the inode
    \* the link pointed to is exactly the `old` inode of this model; only scenarios with a holder
    \* are distinguished.
    /\ (symlink => (prior = "file" /\ holder # "none" /\ changeAt = "none"))
    /\ reapable \in BOOLEAN
    /\ (~reapable => (fork /\ holder = "none" /\ changeAt = "none" /\ prior = "absent" /\ wopt = "default" /\ ~symlink))
    /\ faultAt \in {Phases[i] : i \in 2..(NPh - 1)} \cup {"none"}
    /\ faultKind \in FaultKinds
    /\ (faultAt = "none" => faultKind = "error")
    /\ (faultAt \in {"pre_inform", "post_inform"} => fork)
    /\ wph = 1 /\ wstate = "run" /\ wexit = -1 /\ creator = "idle"
    /\ outClass = IF prior = "file" THEN "old" ELSE "absent"
    /\ outInode = IF prior = "file" THEN "old" ELSE "none"
    /\ oldInodeWritten = FALSE
    /\ sibling = "intact" /\ temp = "none"
    /\ pipe = IF fork THEN "open" ELSE "closed"
    /\ pexit = -1
    /\ tokens = MaxTokens /\ held = 0 /\ threads = 0

-----------------------------------------------------------------------------
(* Creating the output file (SizedOutput::new, preceded in replace mode by moving the old file
   aside and deleting it in the background). *)
CreateFile ==
    LET wm == WriteMode IN
    IF wm = "replace" \/ prior = "absent"
    THEN \* old file (if any) renamed away and unlinked; a fresh inode appears at the path
         /\ outInode' = "new" /\ outClass' = "zero"
         /\ sibling' = IF prior = "file" /\ ~UniqueTemp THEN "destroyed" ELSE sibling
         /\ UNCHANGED <<oldInodeWritten, temp>>
    ELSE IF holder = "exec"
         THEN \* opening a running executable for write fails with ETXTBSY
              IF wm = "inplaceFallback"
              THEN /\ outInode' = "new" /\ outClass' = "zero"      \* remove + recreate
                   /\ UNCHANGED <<oldInodeWritten, sibling, temp>>
              ELSE UNCHANGED <<outInode, outClass, oldInodeWritten, sibling, temp>>   \* creation fails: error
         ELSE \* reuse the old inode: set_len + overwrite in place
              /\ outInode' = "old" /\ outClass' = "partial" /\ oldInodeWritten' = TRUE
              /\ UNCHANGED <<sibling, temp>>

CreationFails == WriteMode = "inplace" /\ prior = "file" /\ holder = "exec"

(* The background task created after set_size. *)
BgCreate ==
    /\ multi /\ creator = "requested"
    /\ creator' = "done"
    /\ CreateFile
    /\ UNCHANGED <<scenario, changed, wph, wstate, wexit, pipe, pexit, tokens, held, threads>>

(* Jobserver: acquire whatever is there (non-blocking); thread count = held + 1. *)
AcquireTokens ==
    /\ held' = tokens /\ tokens' = 0 /\ threads' = tokens + 1

ReleaseTokens == tokens' = tokens + held /\ held' = 0

(* What removing a failed output does (the intended design): wait for the creator, then unlink what
   this link created or modified. *)
Cleanup ==
    IF CleanupOnFailure /\ (outInode = "new" \/ oldInodeWritten)
    THEN outClass' = "absent" /\ outInode' = "none"
    ELSE UNCHANGED <<outClass, outInode>>

(* The worker passes the next fault point without a fault. Effects of the code between the previous
   point and this one happen here. *)
Advance ==
    /\ wstate = "run" /\ wph < NPh
    /\ LET next == Phases[wph + 1] IN
       /\ ~(Phases[wph] = faultAt)                    \* a fault fires at the point just reached
       /\ ~(Phases[wph] = changeAt /\ ~changed)      \* the modification happens exactly there
       /\ ~(next = "verified" /\ changed)            \* verification would fail instead
       /\ (next \in {"pre_inform", "post_inform"} => (fork \/ Phases[wph] = "finished"))
       /\ IF ~fork /\ Phases[wph] = "finished"
          THEN \* single process: nothing between "finished" and process exit
               /\ wph' = NPh /\ wstate' = "exited" /\ wexit' = 0 /\ ReleaseTokens
               /\ UNCHANGED <<creator, outClass, outInode, oldInodeWritten, sibling, temp, pipe, threads>>
          ELSE
          /\ wph' = wph + 1
          /\ CASE next = "loaded" ->
                    /\ AcquireTokens
                    /\ UNCHANGED <<creator, outClass, outInode, oldInodeWritten, sibling, temp, pipe, wstate, wexit>>
               [] next = "laid_out" ->          \* layout::compute called set_size
                    /\ creator' = IF multi THEN "requested" ELSE "idle"
                    /\ UNCHANGED <<outClass, outInode, oldInodeWritten, sibling, temp, pipe, wstate, wexit, tokens, held, threads>>
               [] next = "pre_write" ->         \* Output::write obtained the file (waits for the creator / creates inline)
                    /\ IF multi THEN creator = "done" /\ UNCHANGED <<creator, outClass, outInode, oldInodeWritten, sibling, temp>>
                                ELSE creator' = "done" /\ CreateFile
                    /\ ~CreationFails
                    /\ UNCHANGED <<pipe, wstate, wexit, tokens, held, threads>>
               [] next = "mid_write" ->         \* write_fn ran: with mmap every byte is in the file now
                    /\ outClass' = IF mmapOut THEN "complete" ELSE outClass
                    /\ UNCHANGED <<creator, outInode, oldInodeWritten, sibling, temp, pipe, wstate, wexit, tokens, held, threads>>
               [] next = "flushed" ->           \* flush(): the in-memory buffer is written
                    /\ outClass' = "complete"
                    /\ UNCHANGED <<creator, outInode, oldInodeWritten, sibling, temp, pipe, wstate, wexit, tokens, held, threads>>
               [] next = "post_inform" ->       \* inform_parent_done wrote the byte
                    /\ pipe' = "byte"
                    /\ UNCHANGED <<creator, outClass, outInode, oldInodeWritten, sibling, temp, wstate, wexit, tokens, held, threads>>
               [] next = "end" ->               \* forked worker: shutdown, drop the pool, exit(0)
                    /\ wstate' = "exited" /\ wexit' = 0 /\ ReleaseTokens
                    /\ pipe' = IF pipe = "byte" THEN "byte" ELSE "closed"
                    /\ UNCHANGED <<creator, outClass, outInode, oldInodeWritten, sibling, temp, threads>>
               [] OTHER ->
                    UNCHANGED <<creator, outClass, outInode, oldInodeWritten, sibling, temp, pipe, wstate, wexit, tokens, held, threads>>
    /\ UNCHANGED <<scenario, changed, pexit>>

(* The environment modifies an input the link has read (C20). *)
ModifyInput ==
    /\ wstate = "run" /\ ~changed /\ Phases[wph] = changeAt
    /\ changed' = TRUE
    /\ UNCHANGED <<scenario, wph, wstate, wexit, creator, outClass, outInode, oldInodeWritten, sibling, temp,
                   pipe, pexit, tokens, held, threads>>

(* verify_inputs_unchanged finds the change: an ordinary error after a complete write. *)
InputsChangedError ==
    /\ wstate = "run" /\ Phases[wph] = "written" /\ changed
    /\ wstate' = "exited" /\ wexit' = 1
    /\ ReleaseTokens
    /\ Cleanup
    /\ pipe' = IF fork THEN "closed" ELSE pipe
    /\ UNCHANGED <<scenario, changed, wph, creator, oldInodeWritten, sibling, temp, pexit, threads>>

(* Creating the output fails (in-place update of a running executable): an ordinary error. *)
CreateError ==
    /\ wstate = "run" /\ Phases[wph] = "laid_out" /\ CreationFails
    /\ (multi => creator = "done")
    /\ wstate' = "exited" /\ wexit' = 1
    /\ ReleaseTokens
    /\ pipe' = IF fork THEN "closed" ELSE pipe
    /\ UNCHANGED <<scenario, changed, wph, creator, outClass, outInode, oldInodeWritten, sibling, temp, pexit, threads>>

(* The fault fires at the point the worker has just reached (the effects of the code before the
   point have happened). error/panic unwind (destructors run: tokens released, the
   intended cleanup happens - it first waits for a pending background creation); the hard kinds stop
   the process dead: tokens held are lost to the jobserver only if never released, see C35's
   quantifier (success / error / panic). *)
Fault ==
    /\ wstate = "run" /\ Phases[wph] = faultAt
    /\ UNCHANGED wph
    /\ wstate' = "exited"
    /\ IF faultKind \in Hard
       THEN /\ wexit' = 128 + 9          \* some signal
            /\ UNCHANGED <<outClass, outInode, tokens, held, creator>>
       ELSE /\ wexit' = IF faultKind = "error" THEN 1 ELSE 101
            /\ ReleaseTokens
            \* unwinding joins a requested creation before removing the file
            /\ (creator = "requested" => FALSE)
            \* only a failure of the link itself removes the output ("written" is the last fault point
            \* inside load_inputs_and_link; later failures - changed inputs, dependency file - are
            \* separate actions); after that the file is the link's product, whatever happens in shutdown
            /\ IF PhaseIdx(faultAt) <= PhaseIdx("written") THEN Cleanup ELSE UNCHANGED <<outClass, outInode>>
            /\ UNCHANGED creator
    \* a fault after the byte was sent cannot take the byte back
    /\ pipe' = IF pipe = "byte" THEN "byte" ELSE IF fork THEN "closed" ELSE pipe
    /\ UNCHANGED <<scenario, changed, oldInodeWritten, sibling, temp, pexit, threads>>

(* Parent: fread returned 1 -> exit 0; EOF -> waitpid -> status. *)
ParentDecide ==
    /\ fork /\ pexit = -1
    /\ \/ /\ pipe = "byte" /\ pexit' = 0
       \/ /\ pipe = "closed" /\ wstate = "exited"
          \* no success byte and no status to be had (waitpid failed): that is a failure too
          /\ pexit' = IF ~reapable THEN 1
                      ELSE IF wexit >= 128 /\ ~CheckSignaled THEN 0 ELSE wexit
    /\ UNCHANGED <<scenario, changed, wph, wstate, wexit, creator, outClass, outInode, oldInodeWritten, sibling, temp,
                   pipe, tokens, held, threads>>

Done == wstate = "exited" /\ (fork => pexit # -1) /\ creator # "requested"
Finished == Done /\ UNCHANGED vars

Next == Advance \/ BgCreate \/ CreateError \/ Fault \/ ParentDecide \/ ModifyInput \/ InputsChangedError \/ Finished

Spec == Init /\ [][Next]_vars /\ WF_vars(Next)

-----------------------------------------------------------------------------
TopExit == IF fork THEN pexit ELSE wexit
SoftFailure == faultAt # "none" /\ faultKind \in {"error", "panic"}

(* C17: exit status 0 only if the output was completely written. *)
ExitZeroImpliesComplete == (Done /\ TopExit = 0) => outClass = "complete"
(* ... and a fault before the byte was sent is never reported as success. *)
FaultImpliesNonZero ==
    (Done /\ faultAt # "none" /\ PhaseIdx(faultAt) <= PhaseIdx("pre_inform")) => TopExit # 0

(* C18: a failed link (errors, not asynchronous kills) leaves nothing it created or modified. *)
FailureLeavesNoOutput ==
    (Done /\ TopExit # 0 /\ (faultAt = "none" \/ (SoftFailure /\ PhaseIdx(faultAt) <= PhaseIdx("written")))) =>
        (outClass = "absent" \/ (outClass = "old" /\ outInode = "old" /\ ~oldInodeWritten))

(* C19: nothing but the declared outputs is touched; no temporary is left. *)
OnlyDeclaredTouched == Done => (sibling = "intact" /\ temp = "none")

(* C21: with default options the inode a running process executes / has mapped is never written. *)
HeldInodeNeverWritten == (holder # "none" /\ wopt = "default") => ~oldInodeWritten

(* C35: at most tokens+1 threads; tokens conserved for success / error / panic. *)
ThreadsBounded == threads <= held + 1 \/ wstate = "exited"
TokensConserved ==
    (Done /\ (faultAt = "none" \/ faultKind \in {"error", "panic"})) => (tokens = MaxTokens /\ held = 0)

(* C20: an input modified between being opened and the end of the link makes the link fail. *)
ChangedInputImpliesError == (Done /\ changed) => TopExit # 0

Terminates == <>Done
=============================================================================
