------------------------------- MODULE Loader -------------------------------
(***************************************************************************)
(* The dynamic loader's treatment of base-relative relocations, and the    *)
(* C09 properties of a position-independent output.                        *)
(*                                                                         *)
(* An output is described by                                               *)
(*   addrPlaces  the places (link-time addresses) that hold an absolute    *)
(*               address of the module itself - ground truth from the      *)
(*               scenario (markers + offsets, decoded GOT/PLT slots), NOT  *)
(*               from the output's relocation tables;                      *)
(*   target      [place -> link-time address it must point to]  (S + A);   *)
(*   img0        [place -> 64-bit word stored in the file at the place];   *)
(*   rela        sequence of R_*_RELATIVE entries [off, addend];           *)
(*   relr        sequence of RELR entries: [t |-> "addr", addr] for an     *)
(*               even word, [t |-> "bitmap", bits] for an odd word whose   *)
(*               set bit numbers (1..63, bit 0 is the tag) are listed      *)
(*               minus one, i.e. bits \subseteq 0..62.                     *)
(*                                                                         *)
(* RelrDecode follows the RELR format: an address entry relocates that     *)
(* word and sets `where` to the next word; a bitmap entry relocates        *)
(* where + 8*i for every set bit i and advances `where` by 63 words.       *)
(*                                                                         *)
(* Exactly1    the multiset RelaOffsets (+) RelrDecode equals addrPlaces   *)
(* RelrEven    every RELR-covered place is even                            *)
(* ImageShift  Image(B)[p] = target[p] + B on addrPlaces for every base B  *)
(*             (and, by Exactly1's "no extra", nothing else is touched by  *)
(*             a base-relative relocation)                                 *)
(*                                                                         *)
(* The same operators are (a) invariants of the small linker/loader model  *)
(* below, explored exhaustively by TLC, and (b) evaluated by LoaderObs.tla *)
(* on observations of real outputs.                                        *)
(***************************************************************************)
EXTENDS LoaderOps

(* ------------------------------------------------------------------ a small linker + loader model *)
(* Which pointer fields are AddrPlaces does not depend on HOW the target symbol got its address: a symbol defined by
   an assignment from another symbol (`--defsym a=b`, script `a = b;`) is address-valued like b itself (only
   `a = <number>` is absolute).  The replay names half of the non-shared scenarios' targets through such aliases. *)
SymDefKinds == {"direct", "alias-of-symbol", "number"}
AddrValued(k) == k \in {"direct", "alias-of-symbol"}

CONSTANTS Offs,         \* candidate offsets of pointer fields inside one input section
          Rule,         \* "code"     the rule of the tree (elf::relr_eligible, layout AND writer): RELR iff relr
                        \*            enabled, the offset in the input section is even and the section is >= 2-aligned
                        \* "address"  the most permissive correct rule: RELR iff relr enabled and the PLACE is even
                        \* "packed"   like "address" but entries packed into bitmaps (GNU ld style)
                        \* "offset"   the fixed defect, kept as a broken variant TLC must reject: layout reserves
                        \*            RELR by SECTION-OFFSET parity, the writer uses it by ADDRESS parity
          ModelBases    \* set of W64 bases

VARIABLES offs,         \* chosen pointer fields: set of section offsets
          aligned,      \* the input section is at least 2-aligned (then it starts at an even address)
          secodd,       \* the section starts at an odd address
          relrOn, out, phase

mvars == <<offs, aligned, secodd, relrOn, out, phase>>

SecBase == 4096
AddrOf(f) == SecBase + (IF secodd THEN 1 ELSE 0) + f
NoOverlap(S) == \A a, b \in S : a # b => (a + 8 <= b \/ b + 8 <= a)
OffSets == {{}} \cup {S \in {{a, b, c} : a \in Offs, b \in Offs, c \in Offs} : NoOverlap(S)}

CodeRelr(f) == relrOn /\ aligned /\ f % 2 = 0       \* elf::relr_eligible
DesignRelr(f) == relrOn /\ AddrOf(f) % 2 = 0
OldAllocRelr(f) == relrOn /\ f % 2 = 0             \* old layout: parity of the offset in the input section
(* old writer: parity of the place; it had a RELR table only if the layout reserved at least one
   entry (TableWriter::new filters an empty .relr.dyn part out) *)
OldWriteRelr(f) == relrOn /\ AddrOf(f) % 2 = 0 /\ (\E g \in offs : OldAllocRelr(g))
(* what the layout reserves / what the writer consumes under each rule *)
AllocRelr(f) == CASE Rule = "code" -> CodeRelr(f) [] Rule = "offset" -> OldAllocRelr(f) [] OTHER -> DesignRelr(f)
WriteRelr(f) == CASE Rule = "code" -> CodeRelr(f) [] Rule = "offset" -> OldWriteRelr(f) [] OTHER -> DesignRelr(f)
(* the table that ends up in the file: for the broken rule, what the layout reserved *)
UseRelr(f) == AllocRelr(f)

(* sort a set of naturals ascending *)
RECURSIVE SortSet(_)
SortSet(S) == IF S = {} THEN <<>> ELSE LET m == CHOOSE x \in S : \A y \in S : x <= y IN <<m>> \o SortSet(S \ {m})

(* GNU ld style packing of sorted even places *)
RECURSIVE Pack(_)
Pack(ps) ==
    IF ps = <<>> THEN <<>>
    ELSE LET base == ps[1] + 8
             inwin == {i \in 2..Len(ps) : \A j \in 2..i : ps[j] >= base /\ ps[j] < base + 63 * 8 /\ (ps[j] - base) % 8 = 0}
             n == Cardinality(inwin)
             bits == [i \in 1..n |-> (ps[i + 1] - base) \div 8]
             rest == SubSeq(ps, n + 2, Len(ps))
         IN IF n = 0 THEN <<[t |-> "addr", addr |-> ps[1]]>> \o Pack(rest)
            ELSE <<[t |-> "addr", addr |-> ps[1]], [t |-> "bitmap", bits |-> bits]>> \o Pack(rest)

(* an odd word written as an "address" entry is read back by the loader as a bitmap *)
AsRead(p) == IF p % 2 = 0 THEN [t |-> "addr", addr |-> p]
             ELSE [t |-> "bitmap", bits |-> SortSet({i \in 0..13 : ((p \div 2) \div (2 ^ i)) % 2 = 1})]

LinkOut ==
    LET relrP == SortSet({AddrOf(f) : f \in {g \in offs : UseRelr(g)}})
        relaP == SortSet({AddrOf(f) : f \in {g \in offs : ~UseRelr(g)}})
        ps == {AddrOf(f) : f \in offs}
        tgt == [p \in ps |-> 1000 + p]
    IN [addrPlaces |-> ps,
        target |-> tgt,
        rela |-> [i \in 1..Len(relaP) |-> [off |-> relaP[i], addend |-> tgt[relaP[i]]]],
        relr |-> IF Rule = "packed" THEN Pack(relrP) ELSE [i \in 1..Len(relrP) |-> AsRead(relrP[i])],
        (* RELR places keep the link-time target in the field, RELA places hold 0 *)
        img0 |-> [p \in ps |-> IF \E f \in offs : AddrOf(f) = p /\ UseRelr(f) THEN W64(tgt[p]) ELSE WZero64]]

MInit == /\ offs \in OffSets /\ secodd \in BOOLEAN /\ relrOn \in BOOLEAN
         /\ aligned \in BOOLEAN /\ (aligned => ~secodd)
         /\ out = [addrPlaces |-> {}, target |-> <<>>, rela |-> <<>>, relr |-> <<>>, img0 |-> <<>>]
         /\ phase = "input"
MLink == phase = "input" /\ out' = LinkOut /\ phase' = "linked" /\ UNCHANGED <<offs, aligned, secodd, relrOn>>
MLoad == phase = "linked" /\ phase' = "loaded" /\ UNCHANGED <<offs, aligned, secodd, relrOn, out>>
MNext == MLink \/ MLoad \/ (phase = "loaded" /\ UNCHANGED mvars)
MSpec == MInit /\ [][MNext]_mvars

MExactly1 == phase = "loaded" => Exactly1(out)
MRelrEven == phase = "loaded" => RelrEven(out)
MImageShift == phase = "loaded" => \A B \in ModelBases : ImageShift(out, B)
(* entries the layout reserves (its own rule) vs entries the writer consumes (place parity): C23 *)
NAllocRelr == Cardinality({f \in offs : AllocRelr(f)})
NWriteRelr == Cardinality({f \in offs : WriteRelr(f)})
MAccounting == phase = "loaded" => NAllocRelr = NWriteRelr
=============================================================================
