------------------------------- MODULE Loader -------------------------------
(***************************************************************************)
(* The dynamic loader's treatment of base-relative relocations, and the    *)
(* C09 properties of a position-independent output.                        *)
(*                                                                         *)
(* An output is described by                                               *)
(*   addrPlaces  the places (link-time addresses) that hold an absolute    *)
(*               address of the module itself - ground truth from the      *)
(*               scenario (markers + offsets, decoded GOT/PLT slots), NOT  *)
(*               from the output's relocation tables;                      *)
(*   target      [place -> link-time address it must point to]  (S + A);   *)
(*   img0        [place -> 64-bit word stored in the file at the place];   *)
(*   rela        sequence of R_*_RELATIVE entries [off, addend];           *)
(*   relr        sequence of RELR entries: [t |-> "addr", addr] for an     *)
(*               even word, [t |-> "bitmap", bits] for an odd word whose   *)
(*               set bit numbers (1..63, bit 0 is the tag) are listed      *)
(*               minus one, i.e. bits \subseteq 0..62.                     *)
(*                                                                         *)
(* RelrDecode follows the RELR format: an address entry relocates that     *)
(* word and sets `where` to the next word; a bitmap entry relocates        *)
(* where + 8*i for every set bit i and advances `where` by 63 words.       *)
(*                                                                         *)
(* Exactly1    the multiset RelaOffsets (+) RelrDecode equals addrPlaces   *)
(* RelrEven    every RELR-covered place is even                            *)
(* ImageShift  Image(B)[p] = target[p] + B on addrPlaces for every base B  *)
(*             (and, by Exactly1's "no extra", nothing else is touched by  *)
(*             a base-relative relocation)                                 *)
(*                                                                         *)
(* The same operators are (a) invariants of the small linker/loader model  *)
(* below, explored exhaustively by TLC, and (b) evaluated by LoaderObs.tla *)
(* on observations of real outputs.                                        *)
(***************************************************************************)
EXTENDS LoaderOps

(* ------------------------------------------------------------------ a small linker + loader model *)
CONSTANTS Addrs,        \* candidate link-time addresses of pointer fields
          Rule,         \* "address"  RELR iff relr enabled and the PLACE is even        (elf_writer.rs ~1058)
                        \* "offset"   RELR iff relr enabled and the SECTION OFFSET is even (elf.rs ~4866)
                        \* "packed"   like "address" but entries packed into bitmaps (GNU ld style)
          ModelBases    \* set of W64 bases

VARIABLES places,       \* chosen pointer fields: set of [p |-> address, secodd |-> section starts at an odd address]
          relrOn, out, phase

mvars == <<places, relrOn, out, phase>>

NoOverlap(S) == \A a, b \in S : a # b => (a.p + 8 <= b.p \/ b.p + 8 <= a.p)
PlaceRecs == [p : Addrs, secodd : BOOLEAN]
PlaceSets == {{}} \cup {S \in {{a, b, c} : a \in PlaceRecs, b \in PlaceRecs, c \in PlaceRecs} : NoOverlap(S)}

SecOffsetEven(x) == (IF x.secodd THEN x.p - 1 ELSE x.p) % 2 = 0
UseRelr(x) == relrOn /\ (IF Rule = "offset" THEN SecOffsetEven(x) ELSE x.p % 2 = 0)

(* sort a set of naturals ascending *)
RECURSIVE SortSet(_)
SortSet(S) == IF S = {} THEN <<>> ELSE LET m == CHOOSE x \in S : \A y \in S : x <= y IN <<m>> \o SortSet(S \ {m})

(* GNU ld style packing of sorted even places *)
RECURSIVE Pack(_)
Pack(ps) ==
    IF ps = <<>> THEN <<>>
    ELSE LET base == ps[1] + 8
             inwin == {i \in 2..Len(ps) : ps[i] >= base /\ ps[i] < base + 63 * 8 /\ (ps[i] - base) % 8 = 0
                                          /\ \A j \in 2..i : ps[j] >= base /\ ps[j] < base + 63 * 8 /\ (ps[j] - base) % 8 = 0}
             n == Cardinality(inwin)
             bits == [i \in 1..n |-> (ps[i + 1] - base) \div 8]
             rest == SubSeq(ps, n + 2, Len(ps))
         IN IF n = 0 THEN <<[t |-> "addr", addr |-> ps[1]]>> \o Pack(rest)
            ELSE <<[t |-> "addr", addr |-> ps[1]], [t |-> "bitmap", bits |-> bits]>> \o Pack(rest)

(* an odd word written as an "address" entry is read back by the loader as a bitmap *)
AsRead(p) == IF p % 2 = 0 THEN [t |-> "addr", addr |-> p]
             ELSE [t |-> "bitmap", bits |-> SortSet({i \in 0..5 : ((p \div 2) \div (2 ^ i)) % 2 = 1})]

LinkOut ==
    LET relrP == SortSet({x.p : x \in {y \in places : UseRelr(y)}})
        relaP == SortSet({x.p : x \in {y \in places : ~UseRelr(y)}})
        tgt == [p \in {x.p : x \in places} |-> 1000 + p]
    IN [addrPlaces |-> {x.p : x \in places},
        target |-> tgt,
        rela |-> [i \in 1..Len(relaP) |-> [off |-> relaP[i], addend |-> tgt[relaP[i]]]],
        relr |-> IF Rule = "packed" THEN Pack(relrP) ELSE [i \in 1..Len(relrP) |-> AsRead(relrP[i])],
        (* RELR places keep the link-time target in the field, RELA places hold 0 *)
        img0 |-> [p \in {x.p : x \in places} |->
                     IF \E y \in places : y.p = p /\ UseRelr(y) THEN W64(tgt[p]) ELSE WZero64]]

MInit == /\ places \in PlaceSets /\ relrOn \in BOOLEAN
         /\ out = [addrPlaces |-> {}, target |-> <<>>, rela |-> <<>>, relr |-> <<>>, img0 |-> <<>>]
         /\ phase = "input"
MLink == phase = "input" /\ out' = LinkOut /\ phase' = "linked" /\ UNCHANGED <<places, relrOn>>
MLoad == phase = "linked" /\ phase' = "loaded" /\ UNCHANGED <<places, relrOn, out>>
MNext == MLink \/ MLoad \/ (phase = "loaded" /\ UNCHANGED mvars)
MSpec == MInit /\ [][MNext]_mvars

MExactly1 == phase = "loaded" => Exactly1(out)
MRelrEven == phase = "loaded" => RelrEven(out)
MImageShift == phase = "loaded" => \A B \in ModelBases : ImageShift(out, B)
(* entries the layout reserved (by its own rule) vs entries the writer consumes (by place parity): C23 *)
MAccounting == phase = "loaded" =>
    Cardinality({x \in places : UseRelr(x)}) = Cardinality({x \in places : relrOn /\ x.p % 2 = 0})
=============================================================================
