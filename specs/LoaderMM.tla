------------------------------ MODULE LoaderMM ------------------------------
(***************************************************************************)
(* C38: one address per function / object across the modules of a          *)
(* dynamically linked program.                                             *)
(*                                                                         *)
(* Modules: the executable "E" (PIE or not) and two shared libraries "L1", *)
(* "L2", loaded in that order (global lookup scope E, L1, L2).  One entity *)
(* x (function or object) is defined in one module; every module refers to *)
(* it in one of the ways                                                   *)
(*   "got"     GOT load (PIC code)                -> GLOB_DAT              *)
(*   "dataptr" address stored in writable data    -> R_*_64                *)
(*   "direct"  non-PIC reference from E's text (abs32 / PC32) - cannot     *)
(*             take a dynamic relocation: the static linker must give the  *)
(*             executable a link-time address for x: a COPY relocation for *)
(*             an object, a canonical PLT entry for a function.            *)
(*                                                                         *)
(* Static linker model (per module): what it emits.  Loader model: symbol  *)
(* lookup in scope order; a definition found = a dynsym entry with a       *)
(* section index, or - for references that are not JUMP_SLOT - an          *)
(* undefined function entry with a non-zero value (canonical PLT).         *)
(*                                                                         *)
(* OneAddress  == all modules see the same address for x                   *)
(* SharedStore == a store through one module's view is read through every  *)
(*                other module's view (objects)                            *)
(* which force: copy relocation in E => E exports its copy and every       *)
(* library's reference resolves to it; canonical PLT in E => E's dynsym    *)
(* carries the PLT address; E's own GOT / data references use the same.    *)
(* The variants NoExportCopy / NoCanonicalPlt / LocalBindInLib are the     *)
(* classical ways to break it and must be rejected.                        *)
(***************************************************************************)
EXTENDS Integers, Sequences, FiniteSets, TLC

Mods == <<"E", "L1", "L2">>
ModSet == {"E", "L1", "L2"}
Kinds == {"func", "data"}
RefKinds == {"got", "dataptr", "direct", "none"}

CONSTANT Variant     \* "correct" | "NoExportCopy" | "NoCanonicalPlt" | "LocalBindInLib" | "NoAliasExport"

(* Aliases: a library object may have a second, weak name at the same address (the
   __environ / environ pattern).  usesAlias[m]: module m refers to the entity by the weak name.
   A copy relocation made for ONE name moves the object: EVERY name of that address must then
   resolve to the executable's copy, also names nothing in the static link mentions (the library's
   own references are invisible at link time).  Variant NoAliasExport exports the copy only under
   the name the executable itself used. *)
VARIABLES kind, def, refs, pie, phase, addrSeen, mem, storeSeen, alias, usesAlias
vars == <<kind, def, refs, pie, phase, addrSeen, mem, storeSeen, alias, usesAlias>>

(* abstract addresses: the definition, E's copy, E's PLT entry *)
AddrDef == 100
AddrCopy == 200
AddrPlt == 300

Scenarios == {r \in [ModSet -> RefKinds] :
                 /\ r["L1"] # "direct" /\ r["L2"] # "direct"          \* libraries are PIC
                 /\ \E m \in ModSet : r[m] # "none"}

NeedsCopy == kind = "data" /\ def # "E" /\ refs["E"] = "direct"
NeedsCanonicalPlt == kind = "func" /\ def # "E" /\ refs["E"] = "direct"

(* what E's dynamic symbol table says about the name module m uses for x *)
EExportsDefinitionOf(m) ==
    \/ def = "E"
    \/ /\ NeedsCopy /\ Variant # "NoExportCopy"
       \* the copy is exported under the name E used; under the other name of the address too,
       \* unless the variant forgets aliases
       /\ (usesAlias[m] = usesAlias["E"] \/ Variant # "NoAliasExport")
EHasCanonicalPlt == NeedsCanonicalPlt /\ Variant # "NoCanonicalPlt"

(* global lookup of x for a GLOB_DAT / R_64 reference made by module m *)
Lookup(m) ==
    IF Variant = "LocalBindInLib" /\ m = def /\ m # "E" THEN AddrDef      \* -Bsymbolic-like local binding
    ELSE IF EExportsDefinitionOf(m) THEN (IF def = "E" THEN AddrDef ELSE AddrCopy)
    ELSE IF EHasCanonicalPlt THEN AddrPlt
    ELSE AddrDef

View(m) ==
    CASE refs[m] = "none" -> 0
      [] refs[m] = "direct" -> IF def = "E" THEN AddrDef ELSE IF kind = "data" THEN AddrCopy ELSE AddrPlt
      [] OTHER -> Lookup(m)

Init == /\ kind \in Kinds /\ def \in ModSet /\ refs \in Scenarios /\ pie \in BOOLEAN
        (* the address of a function is taken directly only by non-PIC code of a non-PIE executable
           (R_X86_64_32); PIE code and PC-relative references to functions are calls, not addresses *)
        /\ (kind = "func" /\ pie) => refs["E"] # "direct"
        /\ alias \in BOOLEAN
        /\ alias => (kind = "data" /\ def # "E")              \* aliased library objects
        /\ usesAlias \in [ModSet -> BOOLEAN]
        /\ \A m \in ModSet : usesAlias[m] => (alias /\ refs[m] # "none")
        /\ alias => \E m \in ModSet : usesAlias[m]
        /\ phase = "linked"
        /\ addrSeen = [m \in ModSet |-> 0]
        /\ mem = [a \in {AddrDef, AddrCopy, AddrPlt} |-> 0]
        /\ storeSeen = [m \in ModSet |-> 0]

Load == /\ phase = "linked"
        /\ addrSeen' = [m \in ModSet |-> View(m)]
        (* COPY relocation: the initial value (1) is copied into E's copy *)
        /\ mem' = [mem EXCEPT ![AddrDef] = 1, ![AddrCopy] = IF NeedsCopy THEN 1 ELSE 0]
        /\ phase' = "loaded"
        /\ UNCHANGED <<kind, def, refs, pie, storeSeen, alias, usesAlias>>

Users == {m \in ModSet : refs[m] # "none"}
Writer == CHOOSE m \in Users : TRUE

Store == /\ phase = "loaded" /\ kind = "data"
         /\ mem' = [mem EXCEPT ![addrSeen[Writer]] = 7]
         /\ storeSeen' = [m \in ModSet |-> IF m \in Users THEN (IF addrSeen[m] = addrSeen[Writer] THEN 7 ELSE mem[addrSeen[m]]) ELSE 7]
         /\ phase' = "stored"
         /\ UNCHANGED <<kind, def, refs, pie, addrSeen, alias, usesAlias>>

Next == Load \/ Store \/ (phase \in {"loaded", "stored"} /\ UNCHANGED vars)
Spec == Init /\ [][Next]_vars

OneAddress == phase \in {"loaded", "stored"} => \A m1, m2 \in Users : addrSeen[m1] = addrSeen[m2]
InitialValueVisible == phase = "loaded" /\ kind = "data" => \A m \in Users : mem[addrSeen[m]] = 1
SharedStore == phase = "stored" => \A m \in Users : storeSeen[m] = 7

(* the mechanism each module must use, for the replay record *)
Mechanism == [m \in ModSet |->
    CASE refs[m] = "none" -> "none"
      [] refs[m] = "direct" /\ def = "E" -> "static"
      [] refs[m] = "direct" /\ kind = "data" -> "copy"
      [] refs[m] = "direct" -> "canonical-plt"
      [] OTHER -> "symbolic"]
=============================================================================
