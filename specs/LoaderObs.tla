----------------------------- MODULE LoaderObs -----------------------------
(***************************************************************************)
(* Observed-state validation (binding mode O) for C01 / C09 / C38.         *)
(* The harness writes one JSON file per batch (environment variable OBS):  *)
(*   { "sites":  [ {id, facts: [ {formula, lhs, S, A, P, GOT, TP} ]} ],    *)
(*     "images": [ {id, addrPlaces: [p], target: [t], img0: [w64],         *)
(*                  rela: [{off, addend}], relr: [{t, addr, bits}],        *)
(*                  bases: [w64]} ],                                       *)
(*     "views":  [ {id, entity, seen: [w64 per module]} ] }                *)
(* with every 64-bit quantity as a LoaderW word <<l0,l1,l2>> and every     *)
(* link-time address of a small output as a plain natural.                 *)
(* Each observation is judged by the specification's own operators:        *)
(*   site   : lhs = Reloc!PsabiValue(formula, ingredients)                 *)
(*   image  : LoaderOps!Exactly1, RelrEven, ImageShift at every base       *)
(*   view   : OneAddress - all modules see one address                     *)
(* and the verdicts are printed as OBSRESULT records for the harness.      *)
(***************************************************************************)
EXTENDS LoaderOps, Json, IOUtils

R == INSTANCE Reloc

Obs == JsonDeserialize(IOEnv.OBS)

FactOK(f) == f.lhs = R!PsabiValue(f.formula, f)
SiteBadFacts(s) == {k \in 1..Len(s.facts) : ~FactOK(s.facts[k])}

(* JSON arrays are sequences: build the functions LoaderOps expects *)
ImageOf(m) ==
    LET n == Len(m.addrPlaces)
        ps == {m.addrPlaces[i] : i \in 1..n}
        idx(p) == CHOOSE i \in 1..n : m.addrPlaces[i] = p
    IN [addrPlaces |-> ps,
        target |-> [p \in ps |-> m.target[idx(p)]],
        img0 |-> [p \in ps |-> m.img0[idx(p)]],
        rela |-> m.rela,
        relr |-> m.relr]

ImageVerdict(m) ==
    LET o == ImageOf(m)
        wf == RelrWellFormed(o.relr)
    IN [id |-> m.id,
        wellformed |-> wf,
        missing |-> IF wf THEN Missing(o) ELSE {},
        twice |-> IF wf THEN Twice(o) ELSE {},
        extra |-> IF wf THEN Extra(o) ELSE {},
        odd |-> IF wf THEN OddRelr(o) ELSE {},
        notshifted |-> IF wf THEN UNION {NotShifted(o, m.bases[b]) : b \in 1..Len(m.bases)} ELSE {},
        dupplaces |-> Cardinality(o.addrPlaces) # Len(m.addrPlaces)]
ImageOK(v) == v.wellformed /\ v.missing = {} /\ v.twice = {} /\ v.extra = {} /\ v.odd = {}
              /\ v.notshifted = {} /\ ~v.dupplaces

(* C38: one address per entity over all module views *)
OneAddress(v) == \A i, j \in 1..Len(v.seen) : v.seen[i] = v.seen[j]

SiteResults == [i \in 1..Len(Obs.sites) |-> [id |-> Obs.sites[i].id, bad |-> SiteBadFacts(Obs.sites[i])]]
ImageResults == [i \in 1..Len(Obs.images) |-> ImageVerdict(Obs.images[i])]
ViewResults == [i \in 1..Len(Obs.views) |-> [id |-> Obs.views[i].id, ok |-> OneAddress(Obs.views[i])]]

ASSUME PrintT(<<"OBSRESULT", ToJson(
          [sites_bad |-> [i \in {j \in 1..Len(SiteResults) : SiteResults[j].bad # {}} |-> SiteResults[i]],
           images_bad |-> [i \in {j \in 1..Len(ImageResults) : ~ImageOK(ImageResults[j])} |-> ImageResults[i]],
           views_bad |-> [i \in {j \in 1..Len(ViewResults) : ~ViewResults[j].ok} |-> ViewResults[i]],
           nsites |-> Len(Obs.sites), nimages |-> Len(Obs.images), nviews |-> Len(Obs.views)])>>)
=============================================================================
