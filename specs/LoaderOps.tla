----------------------------- MODULE LoaderOps -----------------------------
(***************************************************************************)
(* Pure operators of the loader specification (see Loader.tla for the      *)
(* description): RELR decoding, the C09 predicates Exactly1 / RelrEven /   *)
(* ImageShift on a description of one output.  No constants, no variables: *)
(* shared by the model (Loader.tla) and by the observed-state module       *)
(* (LoaderObs.tla).                                                        *)
(***************************************************************************)
EXTENDS Integers, Sequences, FiniteSets, TLC, LoaderW

(* ------------------------------------------------------------------ RELR *)
RECURSIVE BitmapPlaces(_, _, _)
BitmapPlaces(where, bits, i) ==
    IF i > Len(bits) THEN <<>> ELSE <<where + 8 * bits[i]>> \o BitmapPlaces(where, bits, i + 1)

RECURSIVE RelrDecodeFrom(_, _, _)
RelrDecodeFrom(es, i, where) ==
    IF i > Len(es) THEN <<>>
    ELSE IF es[i].t = "addr" THEN <<es[i].addr>> \o RelrDecodeFrom(es, i + 1, es[i].addr + 8)
    ELSE BitmapPlaces(where, es[i].bits, 1) \o RelrDecodeFrom(es, i + 1, where + 63 * 8)

RelrWellFormed(es) ==
    /\ es # <<>> => es[1].t = "addr"
    /\ \A i \in 1..Len(es) : es[i].t = "bitmap" => \A j \in 1..Len(es[i].bits) : es[i].bits[j] \in 0..62
RelrDecode(es) == RelrDecodeFrom(es, 1, 0)

Range(s) == {s[i] : i \in 1..Len(s)}
Count(x, s) == Cardinality({i \in 1..Len(s) : s[i] = x})

(* ------------------------------------------------------------------ properties *)
RelaOffsets(o) == [i \in 1..Len(o.rela) |-> o.rela[i].off]
Covered(o) == RelaOffsets(o) \o RelrDecode(o.relr)

Missing(o) == {p \in o.addrPlaces : Count(p, Covered(o)) = 0}
Twice(o) == {p \in o.addrPlaces : Count(p, Covered(o)) > 1}
Extra(o) == Range(Covered(o)) \ o.addrPlaces
Exactly1(o) == RelrWellFormed(o.relr) /\ Missing(o) = {} /\ Twice(o) = {} /\ Extra(o) = {}

OddRelr(o) == {p \in Range(RelrDecode(o.relr)) : p % 2 # 0}
RelrEven(o) == OddRelr(o) = {}

(* the loader: word stored at place p after relocating at base B (a W64) *)
RelaAddendAt(o, p) == LET i == CHOOSE j \in 1..Len(o.rela) : o.rela[j].off = p IN o.rela[i].addend
ImageAt(o, B, p) ==
    IF p \in Range(RelaOffsets(o)) THEN Add64(W64(RelaAddendAt(o, p)), B)      \* *p = B + addend
    ELSE IF p \in Range(RelrDecode(o.relr)) THEN Add64(o.img0[p], B)          \* *p += B
    ELSE o.img0[p]
NotShifted(o, B) == {p \in o.addrPlaces : ImageAt(o, B, p) # Add64(W64(o.target[p]), B)}
ImageShift(o, B) == NotShifted(o, B) = {}

=============================================================================
