------------------------------ MODULE LoaderW ------------------------------
(***************************************************************************)
(* 64-bit address arithmetic for TLC (32-bit integers): a word is a tuple  *)
(* <<l0, l1, l2>> of limbs of 24, 24 and 16 bits, least significant first. *)
(* Only what the psABI value formulas and the loader need: wrapping + and  *)
(* -, the low 32 bits, conversion from small naturals.  Used by Reloc.tla, *)
(* Loader.tla and LoaderObs.tla; vlib/loader.py `limbs()` produces the     *)
(* same representation on the observation side.                            *)
(***************************************************************************)
EXTENDS Integers, Sequences

L24 == 16777216
L16 == 65536

IsW64(w) == /\ Len(w) = 3
            /\ w[1] \in 0..(L24 - 1) /\ w[2] \in 0..(L24 - 1) /\ w[3] \in 0..(L16 - 1)

(* n \in 0..2^31-1 *)
W64(n) == <<n % L24, (n \div L24) % L24, 0>>
WZero64 == <<0, 0, 0>>

Add64(a, b) ==
    LET s0 == a[1] + b[1]
        s1 == a[2] + b[2] + (s0 \div L24)
        s2 == a[3] + b[3] + (s1 \div L24)
    IN <<s0 % L24, s1 % L24, s2 % L16>>

Not64(a) == <<L24 - 1 - a[1], L24 - 1 - a[2], L16 - 1 - a[3]>>
Neg64(a) == Add64(Not64(a), <<1, 0, 0>>)
Sub64(a, b) == Add64(a, Neg64(b))

(* the low 32 bits, zero extended *)
Low32(a) == <<a[1], a[2] % 256, 0>>

(* small words back to TLC integers (only for words < 2^31) *)
Fits31(a) == a[3] = 0 /\ a[2] < 128
ToNat(a) == a[1] + a[2] * L24

(* self test, evaluated when the module is loaded by any model *)
ASSUME /\ Add64(W64(2147483647), W64(1)) = <<0, 128, 0>>
       /\ Sub64(W64(0), W64(1)) = <<L24 - 1, L24 - 1, L16 - 1>>
       /\ Add64(<<L24 - 1, L24 - 1, L16 - 1>>, W64(1)) = WZero64
       /\ Sub64(Add64(<<5, 7, 9>>, <<L24 - 2, 3, 65000>>), <<L24 - 2, 3, 65000>>) = <<5, 7, 9>>
       /\ Low32(<<1, 511, 3>>) = <<1, 255, 0>>
       /\ ToNat(W64(123456789)) = 123456789
=============================================================================
