------------------------------ MODULE MCAlign ------------------------------
(* Model-checking instance of Align: TLC enumerates (alignment, value, reference) cases, checks on
   each that the transcribed functions satisfy the property in both of its forms, and prints one
   REPLAY record per case with the model's results; the harness replays every record into the real
   Alignment::{new,align_up,align_down,align_modulo} (harness/wildconf `align`). *)
EXTENDS Align, Integers, TLC, Json

CONSTANTS Exps,      \* exponents k to enumerate (subset of 0..16)
          VMax,      \* values 0..VMax densely
          Near,      \* TRUE: also values around multiples of the alignment
          RDense,    \* TRUE: reference values 0..2a+1 densely, else a handful
          Broken     \* TRUE: deliberately wrong align_up (anti-vacuity: TLC must reject it)

VARIABLES kind, k, v, r

ExpsAll == 0..16
ExpsSmall == 0..4
ExpsMid == 0..7
vars == <<kind, k, v, r>>

NearVals(a) == {x \in {q * a + d : q \in 0..3, d \in -3..3} \cup
                      {q * a + (a \div 2) + d : q \in 0..2, d \in -1..1} : x >= 0}
Vals(a) == (0..VMax) \cup (IF Near THEN NearVals(a) ELSE {})
RVals(a) == IF RDense THEN 0..(2 * a + 1)
            ELSE {x \in {0, 1, 5, a - 1, a, a + 1, a \div 2, 2 * a + 3, 3 * a - 1} : x >= 0}

(* raw values offered to Alignment::new: small ones densely, and every power of two representable
   in TLC with its neighbours (beyond 2^30 the harness continues up to 2^63 using NoLargeValid) *)
Raws == (0..300) \cup {x \in {2^j + d : j \in 0..30, d \in -1..1} : x >= 0}

Up(a, x) == IF Broken THEN ((x \div a) + 1) * a ELSE AlignUp(a, x)

Init ==
    \/ /\ kind = "arith" /\ k \in Exps /\ v \in Vals(Pow2(k)) /\ r \in RVals(Pow2(k))
    \/ /\ kind = "new" /\ k = 0 /\ r = 0 /\ v \in Raws
Next == UNCHANGED vars
Spec == Init /\ [][Next]_vars

A == Pow2(k)

(* the property, quantifier-free form (what TLAPS proves for all naturals) *)
QfCorrect == kind = "arith" =>
    /\ IsAlignUp(A, v, Up(A, v))
    /\ IsAlignDown(A, v, AlignDown(A, v))
    /\ IsAlignModulo(A, r, v, AlignModulo(A, r, v))

(* the property as the text states it: least / greatest *)
TextCorrect == kind = "arith" =>
    /\ LeastAlignUp(A, v, Up(A, v))
    /\ GreatestAlignDown(A, v, AlignDown(A, v))
    /\ LeastAlignModulo(A, r, v, AlignModulo(A, r, v))

(* "accepted exactly when it is a power of two no larger than 2^16", stated independently of Valid *)
IsPow2(x) == \E j \in 0..30 : x = 2^j
NewCorrect == kind = "new" => (Valid(v) <=> (IsPow2(v) /\ v <= 65536))
NoLargeValid == \A x \in Alignments : x <= 65536
ASSUME NoLargeValid

Rec == IF kind = "arith"
       THEN [kind |-> "arith", k |-> k, v |-> v, r |-> r,
             up |-> AlignUp(A, v), down |-> AlignDown(A, v), mod |-> AlignModulo(A, r, v)]
       ELSE [kind |-> "new", raw |-> v, valid |-> Valid(v),
             exp |-> IF Valid(v) THEN CHOOSE j \in 0..MaxExp : v = Pow2(j) ELSE -1]
Emit == PrintT(<<"REPLAY", ToJson(Rec)>>)
=============================================================================
