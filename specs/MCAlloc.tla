------------------------------ MODULE MCAlloc ------------------------------
(* Enumeration of Alloc.tla: (1) the site-level product = Reloc's cases x offset parity x address
   parity x sibling RELR reservation, as a two-step machine Layout -> Write whose terminal state
   prints a REPLAY record with the predicted accounting outcome; (2) the symbol-level product over
   the ValueFlags bits, as an ASSUME-free invariant over a second variable. *)
EXTENDS Alloc, Json

CONSTANTS Level,      \* "site" | "symbol" | "ehframe"
          SymSubset   \* symbol kinds enumerated at the site level (all of them, or a few for the
                      \* anti-vacuity configurations, which only have to exhibit one counterexample)
AllSyms == SymKinds
FewSyms == {"global_d", "hidden_f", "imp_d", "imp_f"}
VARIABLES c, offpar, addrpar, aligned, sibling, fl, phase, alloc, used,
          eh       \* Level = "ehframe": [loaded, empty, hdr : BOOLEAN] and the two sides' entries
vars == <<c, offpar, addrpar, aligned, sibling, fl, phase, alloc, used, eh>>
EhNone == [loaded |-> FALSE, empty |-> FALSE, hdr |-> FALSE, a |-> <<>>, u |-> <<>>]

SiteCases == {x \in [sym : SymSubset, ref : RefKinds, out : Outs, secw : BOOLEAN, relax : {TRUE}, relr : BOOLEAN] :
                 /\ Applicable(x)
                 /\ WProcess(x).err = ""}
FlagRecs == [dynamic : BOOLEAN, absolute : BOOLEAN, ifunc : BOOLEAN, interposable : BOOLEAN, export : BOOLEAN,
             got : BOOLEAN, plt : BOOLEAN, tlsoff : BOOLEAN, tlsmod : BOOLEAN, tlsdesc : BOOLEAN, ifuncgot : BOOLEAN]
NoFlags == [dynamic |-> FALSE, absolute |-> FALSE, ifunc |-> FALSE, interposable |-> FALSE, export |-> FALSE,
            got |-> FALSE, plt |-> FALSE, tlsoff |-> FALSE, tlsmod |-> FALSE, tlsdesc |-> FALSE, ifuncgot |-> FALSE]
AnyCase == [sym |-> "global_d", ref |-> "abs64", out |-> "pie", secw |-> TRUE, relax |-> TRUE, relr |-> FALSE]

Init ==
    /\ phase = "start" /\ alloc = Zero /\ used = Zero
    /\ IF Level = "ehframe"
       THEN eh \in {[EhNone EXCEPT !.loaded = l, !.empty = e, !.hdr = h] : l \in BOOLEAN, e \in BOOLEAN, h \in BOOLEAN}
       ELSE eh = EhNone
    /\ IF Level = "site"
       THEN /\ c \in SiteCases
            /\ offpar \in 0..1 /\ addrpar \in 0..1 /\ aligned \in BOOLEAN /\ sibling \in BOOLEAN
            \* a section aligned to >= 2 starts at an even address
            /\ aligned => addrpar = offpar
            \* parities only matter where a relative relocation is involved
            /\ (WProcess(c).part # "relative" /\ WWrite(c) # "relative") => (offpar = 0 /\ addrpar = 0 /\ aligned /\ ~sibling)
            /\ ~c.relr => (offpar = 0 /\ addrpar = 0 /\ aligned /\ ~sibling)
            /\ c.ref \in CodeRefs => (offpar = 0 /\ addrpar = 0 /\ aligned)
            \* the writer's RELR table belongs to a GROUP of input files; the libc-based static PIE the
            \* replay builds always has other RELR reservations (crt / libc objects) in the group
            /\ (c.out = "staticpie" /\ c.relr /\ RelrRule = "old") => sibling
            /\ RelrRule = "code" => ~sibling            \* the rule of the tree does not depend on it
            /\ fl = NoFlags
       ELSE IF Level = "ehframe"
       THEN /\ c = AnyCase /\ offpar = 0 /\ addrpar = 0 /\ aligned = TRUE /\ sibling = FALSE /\ fl = NoFlags
       ELSE /\ c \in {[AnyCase EXCEPT !.out = o, !.relr = r] : o \in Outs, r \in BOOLEAN}
            /\ offpar = 0 /\ addrpar = 0 /\ aligned = TRUE /\ sibling = FALSE
            /\ fl \in {f \in FlagRecs : ReachableFlags(f, c.out)}

Layout == /\ phase = "start"
          /\ eh' = IF Level = "ehframe" THEN [eh EXCEPT !.a = EhAlloc(eh.loaded, eh.empty, eh.hdr)] ELSE eh
          /\ alloc' = IF Level = "site" THEN SiteAlloc(c, offpar, aligned) ELSE ResAlloc(fl, c.out, c.relr)
          /\ phase' = "laidout"
          /\ UNCHANGED <<c, offpar, addrpar, aligned, sibling, fl, used>>
Write == /\ phase = "laidout"
         /\ eh' = IF Level = "ehframe" THEN [eh EXCEPT !.u = EhConsume(eh.loaded, eh.empty, eh.hdr)] ELSE eh
         /\ used' = IF Level = "site" THEN SiteConsume(c, offpar, addrpar, aligned, sibling) ELSE ResConsume(fl, c.out, c.relr)
         /\ phase' = "written"
         /\ UNCHANGED <<c, offpar, addrpar, aligned, sibling, fl, alloc>>
Next == Layout \/ Write \/ (phase = "written" /\ UNCHANGED vars)
Spec == Init /\ [][Next]_vars
Done == phase = "written"
InvEhFrame == (Done /\ Level = "ehframe") => eh.a = eh.u
EhRec == [loaded |-> eh.loaded, empty |-> eh.empty, hdr |-> eh.hdr, agree |-> (eh.a = eh.u)]
EmitEh == (Done /\ Level = "ehframe") => PrintT(<<"REPLAY", ToJson(EhRec)>>)

(* the property, up to the named deviations *)
InvAccounting == Done => (alloc = used \/ (Level = "site" /\ SiteDev(c, offpar, addrpar, aligned, sibling) \in OpenDevs))
(* RELR never selected for an odd place *)
InvRelrEven == (Done /\ Level = "site") => RelrPlaceEven(c, offpar, addrpar, aligned, sibling)
(* strict form: must FAIL on the pinned tree's transcription (anti-vacuity, and the statement of the defects) *)
InvStrict == Done => alloc = used

Rec == [sym |-> c.sym, ref |-> c.ref, out |-> c.out, secw |-> c.secw, relax |-> c.relax, relr |-> c.relr,
        offpar |-> offpar, addrpar |-> addrpar, aligned |-> aligned, sibling |-> sibling,
        failure |-> SiteFailure(c, offpar, addrpar, aligned, sibling), dev |-> SiteDev(c, offpar, addrpar, aligned, sibling),
        class |-> Class(c), predicted |-> Predicted(c)]
EmitReplay == (Done /\ Level = "site") => PrintT(<<"REPLAY", ToJson(Rec)>>)
=============================================================================
