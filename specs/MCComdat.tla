------------------------------ MODULE MCComdat ------------------------------
(* Bounded instances of Comdat for TLC and the REPLAY record printed once per configuration. *)
EXTENDS Comdat, Json

CONSTANT Family

Kinds == {"obj", "member"}
Contents == {"ref", "refh", "g1s", "g1w", "g2s", "g2w", "ngs", "ngw"}
F(k, c) == [kind |-> k, c |-> c]
AllFiles == {F(k, c) : k \in Kinds, c \in Contents}
Seq1(S) == {<<x>> : x \in S}
Seq2(S) == {<<x, y>> : x \in S, y \in S}
Seq3(S) == {<<x, y, z>> : x \in S, y \in S, z \in S}
(* every sequence of one, two or three files: 16 + 256 + 4096 configurations *)
UpTo3(x) == Seq1(AllFiles) \cup Seq2(AllFiles) \cup Seq3(AllFiles)
Pairs(x) == Seq1(AllFiles) \cup Seq2(AllFiles)
(* four files, objects and members, strong-only contents: longer chains of discarded groups *)
Four(x) == {<<a, b, c, d>> : a \in AllFiles, b \in AllFiles, c \in AllFiles, d \in {F("obj", "ref"), F("obj", "g2w"), F("member", "g2s")}}
SpaceOf(fam) ==
    CASE fam = "UpTo3" -> UpTo3(0)
      [] fam = "Pairs" -> Pairs(0)
      [] fam = "Four" -> Four(0)
MCSpace == SpaceOf(Family)

PerConfig ==
    phase = "done" =>
        LET an == Analysis(files)
        IN /\ Theorems(an)
           /\ PrintT(<<"REPLAY", ToJson([files |-> files, expect |-> an.rule, model |-> an.model, causes |-> an.causes,
                                        loadDiv |-> an.loadDiv, timeOrder |-> an.timeOrder])>>)
PerConfigQuiet == phase = "done" => Theorems(Analysis(files))
=============================================================================
