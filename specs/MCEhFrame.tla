----------------------------- MODULE MCEhFrame -----------------------------
(* Bounded instances of the .eh_frame writer machine. *)
EXTENDS EhFrame
NFn221 == <<2, 2, 1>>
NFn21 == <<2, 1>>
Perms3 == {<<30, 10, 20>>}
NFn332 == <<3, 3, 2>>
NoTails2 == {<<FALSE, FALSE>>}
Tails2 == {<<FALSE, FALSE>>, <<TRUE, FALSE>>, <<TRUE, TRUE>>}
Tails3 == {<<FALSE, FALSE, FALSE>>, <<TRUE, FALSE, FALSE>>, <<FALSE, TRUE, FALSE>>}
Tails3all == [1..3 -> BOOLEAN]
St3 == {"kept", "gc", "comdat"}
St4 == {"kept", "gc", "comdat", "empty"}
(* address orders unrelated to FDE order: ascending, descending-ish, interleaved *)
Perms5 == {<<10, 20, 30, 40, 50>>, <<50, 10, 40, 20, 30>>}
Perms5q == {<<50, 10, 40, 20, 30>>}
Perms8 == {<<10, 20, 30, 40, 50, 60, 70, 80>>, <<80, 30, 10, 60, 20, 70, 40, 50>>}
=============================================================================
