------------------------------- MODULE MCExpr -------------------------------
(***************************************************************************)
(* Enumeration of well-formed linker-script expressions for C16.           *)
(* A state is one complete expression (a token string); the actions grow   *)
(* it (append `op operand`, prefix a unary operator, parenthesise, wrap in *)
(* MIN/MAX/ALIGN, prefix `operand op` before a parenthesised group), so    *)
(* the set of reachable states is the set of expressions up to the bounds. *)
(* Every state is checked (ParserAgreement) and printed with its value.    *)
(***************************************************************************)
EXTENDS Expr, TLC, Json, IOUtils

CONSTANTS FullLits,    \* literals for expressions of weight <= 1
          SmallLits,   \* ... of weight 2
          TinyLits,    \* ... of weight >= 3
          Ops,         \* binary operators used
          MaxBin, MaxUn, MaxWrap, MaxWeight

(* toks: the expression.  nb, nu, nw: its number of binary operators, unary operators, and
   parentheses/function wraps (functions of toks, carried along so that guards are cheap). *)
VARIABLES toks, nb, nu, nw
vars == <<toks, nb, nu, nw>>

NBin(ts) == Cardinality({i \in 1..Len(ts) : IsBinAt(ts, i)})
NUn(ts) == Cardinality({i \in 1..Len(ts) : ts[i] \in UnOps /\ ~IsBinAt(ts, i)})
NWrap(ts) == Cardinality({i \in 1..Len(ts) : ts[i] = "("})
CountersOK == nb = NBin(toks) /\ nu = NUn(toks) /\ nw = NWrap(toks)
Weight == nb + nu + nw
LitsOf(ts) == {ts[i] : i \in {j \in 1..Len(ts) : ts[j] \in Lits}}
Pool(w) == IF w <= 1 THEN FullLits ELSE IF w = 2 THEN SmallLits ELSE TinyLits
HasTopBin(ts) == \E i \in 1..Len(ts) : IsBinAt(ts, i) /\ TopAt(ts, i)

(* Several TLC processes share one enumeration: process K of N applies, as the FIRST binary operator
   of an expression, only the operators of its share (environment EXPR_PART_K / EXPR_PART_N). *)
PartN == IF "EXPR_PART_N" \in DOMAIN IOEnv THEN atoi(IOEnv.EXPR_PART_N) ELSE 1
PartK == IF "EXPR_PART_K" \in DOMAIN IOEnv THEN atoi(IOEnv.EXPR_PART_K) ELSE 0
OpOrder == <<"||", "&&", "|", "^", "&", "==", "!=", "<", "<=", ">", ">=", "<<", ">>", "+", "-", "*", "/", "%">>
MyFirstOps == {OpOrder[i] : i \in {j \in 1..Len(OpOrder) : j % PartN = PartK}} \cap Ops
OpsHere == IF nb = 0 THEN MyFirstOps ELSE Ops

(* the expression may grow by weight dw: the bound holds and its literals lie in the pool of the new weight *)
CanGrow(dw) == /\ Weight + dw <= MaxWeight
               /\ LitsOf(toks) \subseteq Pool(Weight + dw)
NewLits(dw) == Pool(Weight + dw)

Init == toks \in {<<l>> : l \in FullLits} /\ nb = 0 /\ nu = 0 /\ nw = 0

AppBin == /\ nb < MaxBin /\ CanGrow(1)
          /\ \E op \in OpsHere, l \in NewLits(1) : toks' = toks \o <<op, l>>
          /\ nb' = nb + 1 /\ UNCHANGED <<nu, nw>>
AppBinUn == /\ nb < MaxBin /\ nu < MaxUn /\ CanGrow(2)
            /\ \E op \in OpsHere, u \in UnOps, l \in NewLits(2) : toks' = toks \o <<op, u, l>>
            /\ nb' = nb + 1 /\ nu' = nu + 1 /\ UNCHANGED nw
PreUn == /\ nu < MaxUn /\ CanGrow(1)
         /\ \E u \in UnOps : toks' = <<u>> \o toks
         /\ nu' = nu + 1 /\ UNCHANGED <<nb, nw>>
Wrap == /\ nw < MaxWrap /\ CanGrow(1) /\ HasTopBin(toks)
        /\ toks' = <<"(">> \o toks \o <<")">>
        /\ nw' = nw + 1 /\ UNCHANGED <<nb, nu>>
PreBin == /\ nb < MaxBin /\ CanGrow(1)
          /\ toks[1] \in {"("} \cup Fns2 \cup Fns1
          /\ \E op \in OpsHere, l \in NewLits(1) : toks' = <<l, op>> \o toks
          /\ nb' = nb + 1 /\ UNCHANGED <<nu, nw>>
FnWrap == /\ nw < MaxWrap /\ CanGrow(1)
          /\ \/ \E f \in Fns2, l \in NewLits(1) :
                   \/ toks' = <<f, "(">> \o toks \o <<",", l, ")">>
                   \/ toks' = <<f, "(", l, ",">> \o toks \o <<")">>
             \/ toks' = <<"ALIGN", "(">> \o toks \o <<")">>
          /\ nw' = nw + 1 /\ UNCHANGED <<nb, nu>>

Next == AppBin \/ AppBinUn \/ PreUn \/ Wrap \/ PreBin \/ FnWrap

Spec == Init /\ [][Next]_vars

(* ---- what is checked / exported on every expression ------------------- *)
ParserAgreement == ParserAgreementAt(toks)

Rec(ts) ==
  LET ast == CParse(ts)
      v == Eval(ast, TRUE)
      hd == HasDiv(ts)
      vu == IF hd THEN Eval(ast, FALSE) ELSE v
      wp == Climb(WildTable, ts)
      differs == wp.ok /\ wp.ast # ast
      vw == IF differs THEN Eval(wp.ast, TRUE) ELSE v
      vwu == IF differs THEN (IF hd THEN Eval(wp.ast, FALSE) ELSE vw) ELSE vu
  IN [t |-> ts, st |-> v.st, v |-> v.w,
      w |-> nb + nu + nw, nb |-> nb,
      wp |-> IF ~wp.ok THEN "reject" ELSE IF differs THEN "diff" ELSE "same",
      az |-> AlignOfZero(ast),
      alt |-> [udiv |-> vu, wildprec |-> vw, wildprec_udiv |-> vwu]]

Emit == PrintT(<<"REPLAY", ToJson(Rec(toks))>>)

(* anti-vacuity inside the model: the wrong variant and wild's table do differ from the spec somewhere *)
UdivNeverDiffers == LET ast == CParse(toks) IN HasDiv(toks) => Eval(ast, FALSE) = Eval(ast, TRUE)
WildTableNeverDiffers == LET wp == Climb(WildTable, toks) IN wp.ok => wp.ast = CParse(toks)

ASSUME CTableMatchesCPrec
=============================================================================
