------------------------------- MODULE MCExpr -------------------------------
(***************************************************************************)
(* Enumeration of well-formed linker-script expressions for C16.           *)
(* A state is one complete expression (a token string); the actions grow   *)
(* it (append `op operand`, prefix a unary operator, parenthesise, wrap in *)
(* MIN/MAX/ALIGN, prefix `operand op` before a parenthesised group), so    *)
(* the set of reachable states is the set of expressions up to the bounds. *)
(* Every state is checked (ParserAgreement) and printed with its value.    *)
(***************************************************************************)
EXTENDS Expr, TLC, Json

CONSTANTS FullLits,    \* literals for expressions of weight <= 1
          SmallLits,   \* ... of weight 2
          TinyLits,    \* ... of weight >= 3
          Ops,         \* binary operators used
          MaxBin, MaxUn, MaxWrap, MaxWeight

VARIABLE toks

NBin(ts) == Cardinality({i \in 1..Len(ts) : IsBinAt(ts, i)})
NUn(ts) == Cardinality({i \in 1..Len(ts) : ts[i] \in UnOps /\ ~IsBinAt(ts, i)})
NWrap(ts) == Cardinality({i \in 1..Len(ts) : ts[i] = "("})
Weight(ts) == NBin(ts) + NUn(ts) + NWrap(ts)
LitsOf(ts) == {ts[i] : i \in {j \in 1..Len(ts) : ts[j] \in Lits}}
Pool(w) == IF w <= 1 THEN FullLits ELSE IF w = 2 THEN SmallLits ELSE TinyLits
HasTopBin(ts) == \E i \in 1..Len(ts) : IsBinAt(ts, i) /\ TopAt(ts, i)

WithinBounds(ts) ==
  /\ NBin(ts) <= MaxBin
  /\ NUn(ts) <= MaxUn
  /\ NWrap(ts) <= MaxWrap
  /\ Weight(ts) <= MaxWeight
  /\ LitsOf(ts) \subseteq Pool(Weight(ts))

AnyLit == FullLits \cup SmallLits \cup TinyLits

Init == toks \in {<<l>> : l \in FullLits}

AppBin == \E op \in Ops, l \in AnyLit : toks' = toks \o <<op, l>>
AppBinUn == \E op \in Ops, u \in UnOps, l \in AnyLit : toks' = toks \o <<op, u, l>>
PreUn == \E u \in UnOps : toks' = <<u>> \o toks
Wrap == HasTopBin(toks) /\ toks' = <<"(">> \o toks \o <<")">>
PreBin == /\ toks[1] \in {"("} \cup Fns2 \cup Fns1
          /\ \E op \in Ops, l \in AnyLit : toks' = <<l, op>> \o toks
FnWrap == \/ \E f \in Fns2, l \in AnyLit :
                \/ toks' = <<f, "(">> \o toks \o <<",", l, ")">>
                \/ toks' = <<f, "(", l, ",">> \o toks \o <<")">>
          \/ toks' = <<"ALIGN", "(">> \o toks \o <<")">>

Next == (AppBin \/ AppBinUn \/ PreUn \/ Wrap \/ PreBin \/ FnWrap) /\ WithinBounds(toks')

Spec == Init /\ [][Next]_toks

(* ---- what is checked / exported on every expression ------------------- *)
ParserAgreement == ParserAgreementAt(toks)

Rec(ts) ==
  LET ast == CParse(ts)
      v == Eval(ast, TRUE)
      hd == HasDiv(ts)
      vu == IF hd THEN Eval(ast, FALSE) ELSE v
      wp == Climb(WildTable, ts)
      differs == wp.ok /\ wp.ast # ast
      vw == IF differs THEN Eval(wp.ast, TRUE) ELSE v
      vwu == IF differs THEN (IF hd THEN Eval(wp.ast, FALSE) ELSE vw) ELSE vu
  IN [t |-> ts, st |-> v.st, v |-> v.w,
      w |-> Weight(ts), nb |-> NBin(ts),
      wp |-> IF ~wp.ok THEN "reject" ELSE IF differs THEN "diff" ELSE "same",
      alt |-> [udiv |-> vu, wildprec |-> vw, wildprec_udiv |-> vwu]]

Emit == PrintT(<<"REPLAY", ToJson(Rec(toks))>>)

(* anti-vacuity inside the model: the wrong variant and wild's table do differ from the spec somewhere *)
UdivNeverDiffers == LET ast == CParse(toks) IN HasDiv(toks) => Eval(ast, FALSE) = Eval(ast, TRUE)
WildTableNeverDiffers == LET wp == Climb(WildTable, toks) IN wp.ok => wp.ast = CParse(toks)

ASSUME WSelfTest({LitVal[l] : l \in {"0", "3", "65", "0x100000000", "0x8000000000000000", "0xffffffffffffffff", "0xfffffffffffffffa"}})
=============================================================================
