----------------------------- MODULE MCGcEnum -----------------------------
(* Enumerates every request graph of a GcTraversal configuration with the set the model says is
   handled (= kept) when the traversal ends, and what would be reported under the two error
   selection rules: one REPLAY record per terminal state. *)
EXTENDS MCGcTraversal, Json

Rank(i) == CASE i = "a" -> 1 [] i = "b" -> 2 [] i = "c" -> 3 [] i = "d" -> 4
MinErr == IF errors = <<>> THEN "none"
          ELSE CHOOSE e \in ErrSet : \A f \in ErrSet : Rank(e) <= Rank(f)
Rec == [succ |-> [i \in Items |-> succ[i]], roots |-> [g \in Groups |-> roots[g]], done |-> done,
        soft |-> soft, last |-> ReportedLast, min |-> MinErr]
EmitReplay == scopeEnd => PrintT(<<"REPLAY", ToJson(Rec)>>)
=============================================================================
