----------------------------- MODULE MCGcEnum -----------------------------
(* Enumerates every request graph of the quick GcTraversal configuration with the set the model
   says is handled (= kept) when the traversal ends: one REPLAY record per (graph, roots). *)
EXTENDS MCGcTraversal, Json

Rec == [succ |-> [i \in Items |-> succ[i]], roots |-> [g \in Groups |-> roots[g]], done |-> done]
EmitReplay == scopeEnd => PrintT(<<"REPLAY", ToJson(Rec)>>)
=============================================================================
