--------------------------- MODULE MCGcTraversal ---------------------------
(* Model-checking instances of GcTraversal: bounded constants live here. *)
EXTENDS GcTraversal

G3 == 0..2
D3 == {2}
I3 == {"a", "b", "c"}
I4 == {"a", "b", "c", "d"}
(* a in group 0, b in group 1, c in the delayed (synthetic) group *)
Owner3 == [i \in I3 |-> CASE i = "a" -> 0 [] i = "b" -> 1 [] i = "c" -> 2]
(* two items in one ordinary group, so local sends occur *)
Owner3b == [i \in I3 |-> CASE i = "a" -> 0 [] i = "b" -> 1 [] i = "c" -> 1]
Owner4 == [i \in I4 |-> CASE i = "a" -> 0 [] i = "b" -> 1 [] i = "c" -> 2 [] i = "d" -> 1]

AllSucc(I) == [I -> SUBSET I]
SuccI3 == AllSucc(I3)
SuccI4 == AllSucc(I4)

(* Roots: the prelude (group 0) requests the entry/-u/exported symbols; other groups request what
   their own retained sections reference during activation. *)
RootsFrom0(I) == {[g \in G3 |-> IF g = 0 THEN R ELSE {}] : R \in SUBSET I}
RootsTwo(I) == {[g \in G3 |-> IF g = 0 THEN R0 ELSE IF g = 1 THEN R1 ELSE {}] :
                   R0 \in SUBSET I, R1 \in {{}, I}}
RootsProbe == {[g \in G3 |-> IF g = 0 THEN {"a"} ELSE {}]}
RootsQ == {[g \in G3 |-> IF g = 0 THEN {"a"} ELSE {}],
           [g \in G3 |-> IF g = 0 THEN {"b"} ELSE IF g = 1 THEN {"c"} ELSE {}]}
RootsI3 == RootsTwo(I3)
RootsI3Any == [G3 -> SUBSET I3]
RootsI4 == RootsFrom0(I4)

NoFail == {{}}
SoftTwo == {{"a", "b"}, {"b", "c"}, {"a", "c"}}
(* graphs in which the root reaches everything directly: errors arise in different groups *)
SuccStar == {[i \in I3 |-> IF i = "a" THEN {"b", "c"} ELSE {}], [i \in I3 |-> IF i = "a" THEN {"b"} ELSE IF i = "b" THEN {"c"} ELSE {}],
             [i \in I3 |-> {}]}
RootsAll == {[g \in G3 |-> IF g = 0 THEN {"a", "b", "c"} ELSE {}], [g \in G3 |-> IF g = 0 THEN {"a"} ELSE {}]}
UpToTwoFail(I) == {F \in SUBSET I : Cardinality(F) \in 1..2}
FailI3 == UpToTwoFail(I3)
=============================================================================
