------------------------------- MODULE MCGlob -------------------------------
(***************************************************************************)
(* Enumeration of cases for C15.                                           *)
(*  MatchSpec: every pattern  Pre \o Mid \o Suf  (Pre a prefix of the       *)
(*    canonical name, possibly with an escaped or bracketed first           *)
(*    character; Mid up to MaxMid atoms: wildcards, classes, escapes,       *)
(*    literals; Suf a literal suffix) is printed with the set of ALL names  *)
(*    over Alphabet of length 1..MaxName that it matches.                   *)
(*  PlaceSpec: every list of 1..MaxRules input-section descriptions from    *)
(*    RulePool is printed with the placement and KEEP status of every       *)
(*    (file, name) of Files x PNames, and the class of wild's index model.  *)
(***************************************************************************)
EXTENDS Glob, TLC, Json, SequencesExt

CONSTANTS Alphabet, MaxName, LongHeads, MidAtoms, MaxMid, Sufs, MaxRules, PoolPats, PoolVariants

VARIABLES pat, stage, rules
vars == <<pat, stage, rules>>

(* all names of length 1..MaxName-1, and those of length MaxName whose first character is in LongHeads *)
Names == UNION {[1..n -> Alphabet] : n \in 1..(MaxName - 1)} \cup {n \in [1..MaxName -> Alphabet] : n[1] \in LongHeads}
RECURSIVE Str(_)
Str(s) == IF s = <<>> THEN "" ELSE Head(s) \o Str(Tail(s))

Canon == <<".", "t", "x", "0", "t">>
Pres == {SubSeq(Canon, 1, k) : k \in 0..Len(Canon)} \cup {<<"\\.", "t", "x", "0">>, <<"[.]", "t", "x", "0">>, <<"[.]", "t", "x">>}

MInit == pat \in Pres /\ stage = 0 /\ rules = <<>>
AddMid == /\ stage < MaxMid
          /\ \E a \in MidAtoms : pat' = Append(pat, a)
          /\ stage' = stage + 1 /\ UNCHANGED rules
AddSuf == /\ stage <= MaxMid
          /\ \E s \in Sufs : pat' = pat \o s
          /\ stage' = 9 /\ UNCHANGED rules
MNext == AddMid \/ AddSuf
MatchSpec == MInit /\ [][MNext]_vars

MatchRec(p) ==
  [kind |-> "match", p |-> p, text |-> Str(Text(p)),
   m |-> SetToSeq({Str(s) : s \in {n \in Names : Match(p, n)}}),
   ldq |-> SetToSeq({Str(s) : s \in {n \in Names : LdOverlapQuirk(p, n)}}),
   short |-> Len(IndexKeyText(p)) < 4,
   special4 |-> \E i \in 1..Len(p) : IsSpecial(p[i]) /\ Len(Text(SubSeq(p, 1, i - 1))) < 4]
EmitMatch == pat # <<>> => PrintT(<<"REPLAY", ToJson(MatchRec(pat))>>)

(* sanity of Match itself: constant laws once, pattern laws on every enumerated pattern *)
ASSUME \A n \in {x \in Names : Len(x) <= 3} :
        /\ Match(n, n)                                     \* a literal pattern matches itself
        /\ Match(<<"*">>, n) /\ Match(n \o <<"*">>, n) /\ Match(<<"*">> \o n, n)
        /\ Match(<<"?">> \o Tail(n), n)
MatchLaws ==
  pat # <<>> =>
        \A n \in {x \in Names : Len(x) <= 3} :
            /\ Match(pat, n) => Match(pat \o <<"*">>, n) /\ Match(<<"*">> \o pat, n)
            /\ Match(pat \o <<"?">>, n \o <<"t">>) = Match(pat, n)
            /\ ~HasGlobChar(pat) => (Match(pat, n) <=> Unescaped(pat) = n)

(* ---- placement ------------------------------------------------------------ *)
Files == <<<<"f", "a", ".", "o">>, <<"f", "b", ".", "o">>>>
PNames == <<<<".", "t", "x", "0">>, <<".", "t", "x", "0", "t">>, <<".", "t", "x", "t", "0">>, <<".", "t">>,
            <<".", "x", "0", "t", "x">>, <<"t", "x", "0", ".">>, <<".", "t", "x">>, <<".", "t", "0", "x", "0">>>>
OutName == <<"o1", "o2", "o3">>
(* PoolVariants: records [file, keep]; PoolPats: sequences of patterns (the section patterns of one description) *)
RulePool == {[out |-> "?", file |-> v.file, pats |-> ps, keep |-> v.keep] : v \in PoolVariants, ps \in PoolPats}

PInit == rules = <<>> /\ pat = <<>> /\ stage = 0
AddRule == /\ Len(rules) < MaxRules
           /\ \E r \in RulePool : rules' = Append(rules, [r EXCEPT !.out = OutName[Len(rules) + 1]])
           /\ UNCHANGED <<pat, stage>>
PlaceSpec == PInit /\ [][AddRule]_vars

PlaceRec(rs) ==
  [kind |-> "place",
   rules |-> [i \in 1..Len(rs) |-> [out |-> rs[i].out, file |-> Str(Text(rs[i].file)), keep |-> rs[i].keep,
                                     pats |-> [j \in 1..Len(rs[i].pats) |-> Str(Text(rs[i].pats[j]))]]],
   res |-> [k \in 1..(Len(Files) * Len(PNames)) |->
              LET f == Files[((k - 1) \div Len(PNames)) + 1]
                  s == PNames[((k - 1) % Len(PNames)) + 1]
              IN [f |-> Str(f), s |-> Str(s), out |-> Place(rs, f, s), keep |-> Kept(rs, f, s),
                  cls |-> WildClass(rs, f, s)]]]
EmitPlace == rules # <<>> => PrintT(<<"REPLAY", ToJson(PlaceRec(rules))>>)

P_exact == <<".", "t", "x", "0">>
P_pre4 == <<".", "t", "x", "0", "*">>
P_pre3 == <<".", "t", "x", "*">>
P_pre2 == <<".", "t", "*">>
P_all == <<"*">>
P_suf == <<"*", "x", "0">>
P_cls == <<".", "t", "[x0]", "*">>
P_q == <<".", "t", "x", "?">>
QuickSufs == {<<"0">>, <<"x", "0">>}
FullSufs == {<<"0">>, <<"x", "0">>, <<"t">>, <<"\\*">>}
QuickMid == {"*", "?", "[.t]", "[!t]", "\\*"}
FullMid == {"*", "?", "[.t]", "[!t]", "[^t]", "[0-x]", "\\*", "\\t", "x", "0"}
NoPats == {}
F_all == <<"*">>
F_a == <<"f", "a", ".", "o">>
F_b == <<"*", "b", ".", "o">>
QuickPats == {<<P_exact>>, <<P_pre4>>, <<P_pre3>>, <<P_all>>}
QuickVariants == {[file |-> F_all, keep |-> FALSE], [file |-> F_all, keep |-> TRUE], [file |-> F_a, keep |-> FALSE]}
FullPats == {<<P_exact>>, <<P_pre4>>, <<P_pre3>>, <<P_pre2>>, <<P_all>>, <<P_suf>>, <<P_cls>>, <<P_q>>,
             <<P_exact, P_suf>>, <<P_pre2, P_q>>}
FullVariants == QuickVariants \cup {[file |-> F_b, keep |-> FALSE]}

(* first-match: a later description never changes the placement of what an earlier one matched *)
FirstMatchLaw ==
  Len(rules) >= 2 =>
    \A fi \in 1..Len(Files), si \in 1..Len(PNames) :
       LET f == Files[fi]
           s == PNames[si]
           front == SubSeq(rules, 1, Len(rules) - 1)
       IN Place(front, f, s) # "orphan" => Place(rules, f, s) = Place(front, f, s) /\ Kept(rules, f, s) = Kept(front, f, s)
(* anti-vacuity inside the model: wild's index model does depart from Place somewhere *)
WildIndexAgrees == \A fi \in 1..Len(Files), si \in 1..Len(PNames) : WildClass(rules, Files[fi], PNames[si]) = "agrees"
ASSUME PrintT(<<"REPLAY", ToJson([kind |-> "meta", alphabet |-> SetToSeq(Alphabet), maxname |-> MaxName, longheads |-> SetToSeq(LongHeads),
                                    files |-> [i \in 1..Len(Files) |-> Str(Files[i])],
                                    pnames |-> [i \in 1..Len(PNames) |-> Str(PNames[i])]])>>)

=============================================================================
