---------------------------- MODULE MCHashTables ----------------------------
(***************************************************************************)
(* Bounded model for C08.  A state is a set of exported names (name id =   *)
(* position), each with an abstract hash of 2*HalfBits bits and a          *)
(* multiplicity (m > 1: several versions of one name, name@V1 name@@V2).   *)
(* Every reachable state is one scenario; the invariant builds wild's      *)
(* tables for it (all bucket counts / bloom sizes / tie orders / with and  *)
(* without an undefined symbol in front) and runs the loader's lookups for *)
(* every defined symbol, for the undefined name and for an absent name     *)
(* with every possible hash value.                                         *)
(*   mode "gnu":  --hash-style=both; .dynsym sorted by (bucket, name)      *)
(*   mode "sysv": --hash-style=sysv; .dynsym in any input order            *)
(***************************************************************************)
EXTENDS HashTables

CONSTANTS MaxNames, MaxSyms, MaxMult,
          GnuHashes,      \* hash values (as integers) a name may take in mode "gnu"
          SysvHashes,     \* ... in mode "sysv"
          NBuckets,       \* bucket counts tried besides wild's own choice
          MaskWordsSet, Shifts,
          Modes

Hashes64 == 0..63
(* representatives: all residues mod 4, both bloom words, equal-but-low-bit pairs, extremes *)
Hashes16 == {0, 1, 2, 3, 4, 5, 6, 9, 16, 17, 31, 32, 42, 43, 62, 63}
Hashes8  == {0, 1, 2, 5, 8, 17, 42, 63}
NB124 == {1, 2, 4}
NB1248 == {1, 2, 4, 8}
MW12 == {1, 2}
MW124 == {1, 2, 4}
Shifts12 == {1, 2}
Shifts125 == {1, 2, 5}
BothModes == {"gnu", "sysv"}
GnuMode == {"gnu"}
SysvMode == {"sysv"}

VARIABLES mode, names
vars == <<mode, names>>

H(v)   == <<v \div Half, v % Half>>
Val(h) == h[1] * Half + h[2]
AllVals == 0..(Half * Half - 1)

(* the piecewise arithmetic of HashTables is exact (all values of the small instance) *)
ASSUME ArithExact ==
    \A v \in AllVals :
        LET h == H(v) IN
        /\ IsHash(h) /\ Val(h) = v
        /\ \A n \in 1..9 : ModN(h, n) = v % n /\ ModNFast(h, n) = v % n /\ ModNSlow(h, n) = v % n
        /\ \A s \in 0..(2 * HalfBits + 2) : ShrModC(h, s) = (v \div 2^s) % C
        /\ \A m \in 1..4 : DivCModM(h, m) = (v \div C) % m
        /\ ModC(h) = v % C
        /\ \A w \in AllVals : SameIgnoringLow(H(w), h) <=> (w \div 2 = v \div 2)

ASSUME BucketCountsOK ==
    \A n \in 0..70 : /\ IsPow2(GnuBucketCount(n)) /\ IsPow2(SysvBucketCount(n))
                     /\ GnuBucketCount(n) >= n \div 2 /\ GnuBucketCount(n) <= (IF n < 2 THEN 1 ELSE n)

RECURSIVE SumM(_, _)
SumM(s, k) == IF k = 0 THEN 0 ELSE s[k].m + SumM(s, k - 1)
Total == SumM(names, Len(names))

Init == mode \in Modes /\ names = <<>>

AddName ==
    /\ Len(names) < MaxNames /\ Total < MaxSyms
    /\ \E hv \in (IF mode = "sysv" THEN SysvHashes ELSE GnuHashes) :
           names' = Append(names, [h |-> hv, m |-> 1])
    /\ UNCHANGED mode

AddDup ==
    /\ Total < MaxSyms
    /\ \E k \in 1..Len(names) :
           /\ names[k].m < MaxMult
           /\ names' = [names EXCEPT ![k].m = @ + 1]
    /\ UNCHANGED mode

Next == AddName \/ AddDup
Spec == Init /\ [][Next]_vars

(* a second, unrelated hash for the other table so that the two bucketings differ *)
Mix(v) == (v * 5 + 3) % (Half * Half)
GhOf(k) == IF mode = "sysv" THEN H(Mix(names[k].h)) ELSE H(names[k].h)
ShOf(k) == IF mode = "sysv" THEN H(names[k].h) ELSE H(Mix(names[k].h))

(* definitions, name-major; version indices start at 2 as in .gnu.version *)
RECURSIVE Flat(_)
Flat(k) == IF k = 0 THEN <<>>
           ELSE Flat(k - 1) \o [j \in 1..names[k].m |->
                                   [name |-> k, ver |-> j + 1, gh |-> GhOf(k), sh |-> ShOf(k)]]
D0 == Flat(Len(names))
HasDup == \E k \in 1..Len(names) : names[k].m > 1

UndefName == 90
AbsentName == 100
(* an undefined dynamic symbol whose hashes collide with the first defined name *)
Undef == [name |-> UndefName,
          gh |-> IF names = <<>> THEN <<0, 0>> ELSE GhOf(1),
          sh |-> IF names = <<>> THEN <<0, 0>> ELSE ShOf(1)]
Us == {<<>>, <<Undef>>}

Probes == <<[name |-> UndefName, gh |-> Undef.gh, sh |-> Undef.sh]>>
          \o [k \in 1..Len(names) |-> [name |-> k, gh |-> GhOf(k), sh |-> ShOf(k)]]
          \o [v \in 1..(Half * Half) |-> [name |-> AbsentName, gh |-> H(v - 1), sh |-> H(v - 1)]]

GnuModeOK ==
    mode = "gnu" =>
        \A nb \in NBuckets \cup {GnuBucketCount(Len(D0))}, mw \in MaskWordsSet, sft \in Shifts,
           flip \in (IF HasDup THEN BOOLEAN ELSE {FALSE}), U \in Us :
            TableOK(BuildT(U, D0, TRUE, TRUE, nb, mw, sft, flip), Probes, TRUE, TRUE)

(* wild's own parameters, explicitly *)
WildParamsOK ==
    mode = "gnu" =>
        \A U \in Us : TableOK(BuildT(U, D0, TRUE, TRUE, GnuBucketCount(Len(D0)), WildBloomCount,
                                     WildBloomShift, FALSE), Probes, TRUE, TRUE)

Permute(D, p) == [k \in 1..Len(D) |-> D[p[k]]]
SysvModeOK ==
    mode = "sysv" =>
        \A p \in Permutations(1..Len(D0)), U \in Us :
            TableOK(BuildT(U, IF D0 = <<>> THEN <<>> ELSE Permute(D0, p), FALSE, TRUE, 1, 1, 1, FALSE),
                    Probes, FALSE, TRUE)

(* Lookups through a table that was not emitted find nothing: an output with defined dynamic
   symbols needs the requested tables (used by the observed-state check). *)
MissingTableNotOK ==
    (mode = "gnu" /\ names # <<>>) =>
        ~TableOK(BuildT(<<>>, D0, FALSE, TRUE, 1, 1, 1, FALSE), Probes, TRUE, FALSE)
=============================================================================
