---------------------------- MODULE MCHashTables ----------------------------
(***************************************************************************)
(* Bounded model for C08.  A state is a set of exported names (name id =   *)
(* position), each with an abstract hash of 2*HalfBits bits and a          *)
(* multiplicity (m > 1: several versions of one name, name@V1 name@@V2).   *)
(* Every reachable state is one scenario; the invariant builds wild's      *)
(* tables for it (all bucket counts / bloom sizes / tie orders / with and  *)
(* without an undefined symbol in front) and runs the loader's lookups for *)
(* every defined symbol, for the undefined name and for an absent name     *)
(* with every possible hash value.                                         *)
(*   mode "gnu":  --hash-style=both; .dynsym sorted by (bucket, name)      *)
(*   mode "sysv": --hash-style=sysv; .dynsym in any input order            *)
(***************************************************************************)
EXTENDS HashTables, Bitwise

CONSTANTS MaxNames, MaxSyms, MaxMult,
          MaxSymsSysv,    \* mode "sysv" tries every input order: keep it smaller
          GnuHashes,      \* hash values (as integers) a name may take in mode "gnu"
          SysvHashes,     \* ... in mode "sysv"
          ParamSet,       \* table parameters tried: [nb (0: wild's choice), mw, sft, u (undefined symbol in front)]
          AllAbsent,      \* TRUE: probe an absent name with every hash value; FALSE: with the values
                          \* that are critical for the scenario (equal, equal but low bit, same bucket...)
          Modes

Hashes64 == 0..63
(* representatives: all residues mod 4, both bloom words, equal-but-low-bit pairs, extremes *)
Hashes16 == {0, 1, 2, 3, 4, 5, 6, 9, 16, 17, 31, 32, 42, 43, 62, 63}
(* all values of the low four bits (every bucket for <= 8 buckets, both bloom words), high bits 00 / 11 *)
Hashes32 == (0..15) \cup (48..63)
Hashes12 == {0, 1, 2, 3, 5, 8, 9, 17, 32, 42, 43, 63}
Hashes8  == {0, 1, 2, 5, 8, 17, 42, 63}
P(nb, mw, sft, u) == [nb |-> nb, mw |-> mw, sft |-> sft, u |-> u]
(* wild's parameters (one bloom word, shift = log2 C) for 1/2/4 buckets and its own bucket count,
   with and without an undefined symbol in front; two bloom words / another shift once *)
QuickParams == {P(0, 1, 2, FALSE), P(1, 1, 2, TRUE), P(2, 1, 2, FALSE), P(4, 1, 2, TRUE),
                P(2, 2, 1, TRUE), P(4, 2, 2, FALSE)}
(* a bloom word count that is not a power of two: wild's writer picks the word with % n, the
   loader with & (n - 1) - must be rejected (with the assertion: every lookup faults; without:
   lookups miss symbols whose bits went to another word) *)
NonPow2Params == {P(0, 3, 2, FALSE), P(2, 3, 2, TRUE), P(4, 3, 2, FALSE)}
FullParams == {P(nb, mw, sft, u) : nb \in {0, 1, 2, 4, 8}, mw \in {1, 2, 4}, sft \in {1, 2, 5}, u \in BOOLEAN}
BothModes == {"gnu", "sysv"}
GnuMode == {"gnu"}
SysvMode == {"sysv"}

VARIABLES mode, names
vars == <<mode, names>>

H(v)   == <<v \div Half, v % Half>>
Val(h) == h[1] * Half + h[2]
AllVals == 0..(Half * Half - 1)

(* the piecewise arithmetic of HashTables is exact (all values of the small instance) *)
ASSUME ArithExact ==
    \A v \in AllVals :
        LET h == H(v) IN
        /\ IsHash(h) /\ Val(h) = v
        /\ \A n \in 1..9 : ModN(h, n) = v % n /\ ModNFast(h, n) = v % n /\ ModNSlow(h, n) = v % n
        /\ \A s \in 0..(2 * HalfBits + 2) : ShrModC(h, s) = (v \div 2^s) % C
        /\ \A m \in 1..4 : DivCModM(h, m) = (v \div C) % m
        /\ \A m \in {1, 2, 4, 8} : BloomWordIndex(h, m) = (v \div C) % m      \* & = % for powers of two
        /\ BloomWordIndex(h, 3) = ((v \div C) \div 2 % 2) * 2                  \* & 2 keeps bit 1 only
        /\ BloomWordIndex(h, 0) = v \div C
        /\ \A b \in 0..15 : AndNat(v, b) = (v & b)                             \* Bitwise community module
        /\ ModC(h) = v % C
        /\ \A w \in AllVals : SameIgnoringLow(H(w), h) <=> (w \div 2 = v \div 2)

ASSUME BucketCountsOK ==
    \A n \in 0..70 : /\ IsPow2(GnuBucketCount(n)) /\ IsPow2(SysvBucketCount(n))
                     /\ GnuBucketCount(n) >= n \div 2 /\ GnuBucketCount(n) <= (IF n < 2 THEN 1 ELSE n)

RECURSIVE SumM(_, _)
SumM(s, k) == IF k = 0 THEN 0 ELSE s[k].m + SumM(s, k - 1)
Total == SumM(names, Len(names))

Init == mode \in Modes /\ names = <<>>

Cap == IF mode = "sysv" THEN MaxSymsSysv ELSE MaxSyms

AddName ==
    /\ Len(names) < MaxNames /\ Total < Cap
    /\ \E hv \in (IF mode = "sysv" THEN SysvHashes ELSE GnuHashes) :
           names' = Append(names, [h |-> hv, m |-> 1])
    /\ UNCHANGED mode

AddDup ==
    /\ Total < Cap
    /\ \E k \in 1..Len(names) :
           /\ names[k].m < MaxMult
           /\ names' = [names EXCEPT ![k].m = @ + 1]
    /\ UNCHANGED mode

Next == AddName \/ AddDup
Spec == Init /\ [][Next]_vars

(* a second, unrelated hash for the other table so that the two bucketings differ *)
Mix(v) == (v * 5 + 3) % (Half * Half)
GhOf(k) == IF mode = "sysv" THEN H(Mix(names[k].h)) ELSE H(names[k].h)
ShOf(k) == IF mode = "sysv" THEN H(names[k].h) ELSE H(Mix(names[k].h))

(* definitions, name-major; version indices start at 2 as in .gnu.version *)
RECURSIVE Flat(_)
Flat(k) == IF k = 0 THEN <<>>
           ELSE Flat(k - 1) \o [j \in 1..names[k].m |->
                                   [name |-> k, ver |-> j + 1, gh |-> GhOf(k), sh |-> ShOf(k)]]
D0 == Flat(Len(names))
HasDup == \E k \in 1..Len(names) : names[k].m > 1
(* one order (ascending / descending version) per name that has several versions *)
FlipSet == {f \in [1..Len(names) -> BOOLEAN] : \A k \in 1..Len(names) : names[k].m = 1 => ~f[k]}
NoFlip == [k \in 1..Len(names) |-> FALSE]

UndefName == 90
AbsentName == 100
(* an undefined dynamic symbol whose hashes collide with the first defined name *)
Undef == [name |-> UndefName,
          gh |-> IF names = <<>> THEN <<0, 0>> ELSE GhOf(1),
          sh |-> IF names = <<>> THEN <<0, 0>> ELSE ShOf(1)]
Us == {<<>>, <<Undef>>}

(* Probes: the undefined name and an absent name (defined names are looked up by GnuFinds /
   SysvFinds).  Hash values for the absent name: everything, or what is critical relative to the defined
   hashes v: v (full collision), v+-1 within the pair (equal but for the low bit), v+C (same low
   bloom bit), v+Half (differs in the high half only), and the extremes *)
Top == Half * Half
NearVals == {0, 1, Top - 1} \cup
            UNION {{names[k].h, (names[k].h \div 2) * 2 + (1 - (names[k].h % 2)), (names[k].h + C) % Top,
                    (names[k].h + Half) % Top, Mix(names[k].h)} : k \in 1..Len(names)}
AbsentVals == IF AllAbsent THEN 0..(Top - 1) ELSE NearVals
RECURSIVE SeqOf(_)
SeqOf(S) == IF S = {} THEN <<>> ELSE LET x == CHOOSE y \in S : TRUE IN <<x>> \o SeqOf(S \ {x})

Probes == LET av == SeqOf(AbsentVals) IN
          <<[name |-> UndefName, gh |-> Undef.gh, sh |-> Undef.sh]>>
          \o [j \in 1..Len(av) |-> [name |-> AbsentName, gh |-> H(av[j]), sh |-> H(av[j])]]

GnuModeOK ==
    mode = "gnu" =>
        LET D == D0
            pr == Probes IN
        \A q \in ParamSet, flip \in FlipSet :
            LET T == BuildT(IF q.u THEN <<Undef>> ELSE <<>>, D, TRUE, TRUE,
                            IF q.nb = 0 THEN GnuBucketCount(Len(D)) ELSE q.nb, q.mw, q.sft, flip)
            IN TableOK(T, pr, TRUE, TRUE)

(* wild's own parameters, explicitly *)
WildParamsOK ==
    mode = "gnu" =>
        \A U \in Us : TableOK(BuildT(U, D0, TRUE, TRUE, GnuBucketCount(Len(D0)), WildBloomCount,
                                     WildBloomShift, NoFlip), Probes, TRUE, TRUE)

Permute(D, p) == [k \in 1..Len(D) |-> D[p[k]]]
SysvModeOK ==
    mode = "sysv" =>
        LET D == D0
            pr == Probes IN
        \A p \in Permutations(1..Len(D)), U \in Us :
            LET T == BuildT(U, IF D = <<>> THEN <<>> ELSE Permute(D, p), FALSE, TRUE, 1, 1, 1, NoFlip)
            IN TableOK(T, pr, FALSE, TRUE)

(* Lookups through a table that was not emitted find nothing: an output with defined dynamic
   symbols needs the requested tables (used by the observed-state check). *)
MissingTableNotOK ==
    (mode = "gnu" /\ names # <<>>) =>
        ~TableOK(BuildT(<<>>, D0, FALSE, TRUE, 1, 1, 1, NoFlip), Probes, TRUE, FALSE)
=============================================================================
