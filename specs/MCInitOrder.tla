---------------------------- MODULE MCInitOrder ----------------------------
(* Model-checking instances of InitOrder: bounded scenario sets, REPLAY records for the harness. *)
EXTENDS InitOrder, Json, IOUtils

CONSTANT Set      \* name of the scenario set (see ScnByName)

K(a, p) == [a |-> a, p |-> p, t |-> NativeType(a)]
KindsOf(arrs, prios) == {K(a, p) : a \in arrs \ {"preinit"}, p \in prios}
                            \cup (IF "preinit" \in arrs THEN {K("preinit", NoPrio)} ELSE {})

(* the priorities of DESIGN.md: none, 0, 1, 100, 101, 65534, 65535; 65435/65434 are the .ctors
   images of 100/101 (so that .ctors.100 and .init_array.65435 tie), 9 < 10 < 100 distinguishes a
   numeric from a lexicographic comparison of the suffix *)
PriosDesign == {NoPrio, 0, 1, 100, 101, 65534, 65535}
PriosWide == PriosDesign \cup {9, 10, 65434, 65435}
PriosSmall == {NoPrio, 1, 65534}
PriosTiny == {NoPrio, 1}

(* A generator describes a bounded family of scenarios: objects 1..nobj with 1..per entries each, at
   most `total` entries, kinds from `kinds`, with or without all archive layouts.  The scenario is
   chosen in MCInit by nested choices (shape, kinds, layout) - building the explicit set of scenarios
   first is an order of magnitude slower in TLC. *)
RECURSIVE SumSeq(_)
SumSeq(s) == IF s = <<>> THEN 0 ELSE Head(s) + SumSeq(Tail(s))
Shapes(nobj, per, total) ==
    {sh \in UNION {[1..n -> 1..per] : n \in 1..nobj} : SumSeq(sh) <= total}
Offset(sh, o) == SumSeq(SubSeq(sh, 1, o - 1))
PlainLayout(n) == [o \in 1..n |-> [member |-> FALSE, pulledby |-> 0]]
LayoutsOf(n) ==
    {lay \in [1..n -> [member : BOOLEAN, pulledby : -1..n]] :
        \A o \in 1..n : IF lay[o].member
                        THEN /\ lay[o].pulledby # o
                             /\ lay[o].pulledby > 0 => lay[lay[o].pulledby].member
                        ELSE lay[o].pulledby = 0}
(* fl[o] = "swapped": object o comes from a toolchain that types its sections the other way round
   (.init_array* etc. PROGBITS, .ctors* / .dtors* INIT_ARRAY / FINI_ARRAY) *)
Retype(k, flavour) ==
    IF flavour = "swapped" THEN [k EXCEPT !.t = IF Legacy(k.a) THEN "array" ELSE "progbits"] ELSE k
Mk(sh, f, lay, fl) ==
    [o \in 1..Len(sh) |-> [member |-> lay[o].member, pulledby |-> lay[o].pulledby,
                            entries |-> [e \in 1..sh[o] |-> Retype(f[Offset(sh, o) + e], fl[o])]]]
Gen(kinds, nobj, per, total, layouts) ==
    [kinds |-> kinds, nobj |-> nobj, per |-> per, total |-> total, layouts |-> layouts, typed |-> FALSE]
GenTyped(kinds, nobj, per, total) ==
    [kinds |-> kinds, nobj |-> nobj, per |-> per, total |-> total, layouts |-> FALSE, typed |-> TRUE]

InitFam == {"init", "ctors"}
FiniFam == {"fini", "dtors"}
RECURSIVE GensByName(_)
GensByName(n) ==
    CASE n = "probe" -> {Gen(KindsOf(InArrays, PriosTiny), 3, 3, 3, FALSE)}
      (* A: priorities, ties, reversal - one family, no archives *)
      [] n = "init3" -> {Gen(KindsOf(InitFam, PriosDesign), 3, 3, 3, FALSE)}
      [] n = "fini3" -> {Gen(KindsOf(FiniFam, PriosDesign), 3, 3, 3, FALSE)}
      [] n = "fini2" -> {Gen(KindsOf(FiniFam, PriosDesign), 2, 2, 2, FALSE)}
      [] n = "init4" -> {Gen(KindsOf(InitFam, PriosDesign), 3, 3, 4, FALSE)}
      [] n = "fini4" -> {Gen(KindsOf(FiniFam, PriosDesign), 3, 3, 4, FALSE)}
      [] n = "wide3" -> {Gen(KindsOf(InitFam, PriosWide), 3, 3, 3, FALSE), Gen(KindsOf(FiniFam, PriosWide), 3, 3, 3, FALSE)}
      (* C: all five arrays together *)
      [] n = "mix3" -> {Gen(KindsOf(InArrays, PriosTiny), 3, 3, 3, FALSE)}
      [] n = "mix4" -> {Gen(KindsOf(InArrays, PriosSmall), 3, 3, 4, FALSE)}
      (* B: archives - members, extraction order, unreferenced members *)
      [] n = "ar3" -> {Gen({K("init", NoPrio), K("ctors", NoPrio), K("init", 1)}, 3, 1, 3, TRUE)}
      [] n = "ar3x" -> {Gen(KindsOf(InArrays, PriosTiny), 3, 2, 3, TRUE)}
      [] n = "devprobe" -> {Gen(KindsOf(InitFam, {NoPrio, 0, 1, 65534, 65535}), 2, 1, 2, FALSE),
                            Gen({K("init", NoPrio)}, 3, 1, 3, TRUE)}
      (* D: section types - array sections typed PROGBITS and the converse, >= 2 entries per section *)
      [] n = "typed" -> {GenTyped({K("init", NoPrio), K("init", 1), K("fini", NoPrio), K("fini", 1),
                                   K("ctors", NoPrio), K("dtors", NoPrio), K("preinit", NoPrio)}, 2, 2, 3)}
      [] n = "typedx" -> {GenTyped(KindsOf(InArrays, PriosTiny), 2, 3, 3)}
      [] n = "mix4t" -> {Gen(KindsOf(InArrays, PriosTiny), 3, 3, 4, FALSE)}
      (* quick: three entries over the boundary priorities, two entries over all of them (9 < 100
         tells a numeric from a lexicographic comparison of the suffix) *)
      [] n = "init3s" -> {Gen(KindsOf(InitFam, {NoPrio, 0, 1, 65534, 65535}), 3, 3, 3, FALSE),
                          Gen(KindsOf(InitFam, PriosDesign \cup {9}), 2, 2, 2, FALSE)}
      [] n = "quick" -> GensByName("init3s") \cup GensByName("fini2") \cup GensByName("mix3") \cup GensByName("ar3")
                         \cup GensByName("typed")
      [] n = "thorough_a" -> GensByName("init4")
      [] n = "thorough_b" -> GensByName("fini3") \cup GensByName("wide3") \cup GensByName("mix4t")
                              \cup GensByName("ar3x") \cup GensByName("typedx")
Gens == GensByName(Set)

MCInit ==
    \E g \in Gens :
      \E sh \in Shapes(g.nobj, g.per, g.total) :
        \E f \in [1..SumSeq(sh) -> g.kinds] :
          \E lay \in (IF g.layouts THEN LayoutsOf(Len(sh)) ELSE {PlainLayout(Len(sh))}) :
            \E fl \in (IF g.typed THEN [1..Len(sh) -> {"native", "swapped"}]
                                  ELSE {[o \in 1..Len(sh) |-> "native"]}) :
              InitWith(Mk(sh, f, lay, fl))
MCSpec == MCInit /\ [][Next]_vars

(* ---- REPLAY records: a seeded sample of the terminal states ---- *)
ArrCode(a) == CASE a = "preinit" -> 1 [] a = "init" -> 2 [] a = "fini" -> 3 [] a = "ctors" -> 4 [] OTHER -> 5
RECURSIVE CodeEntries(_, _, _)
CodeEntries(es, o, e) ==
    IF e > Len(es) THEN 0
    ELSE (o * 31 + e * 7) * (ArrCode(es[e].a) * 13 + ((es[e].p + 1) % 101) + 1)
         + (IF es[e].t = NativeType(es[e].a) THEN 0 ELSE o * 3 + e) + CodeEntries(es, o, e + 1)
RECURSIVE Code(_, _)
Code(S, o) ==
    IF o > Len(S) THEN 0
    ELSE CodeEntries(S[o].entries, o, 1) + (IF S[o].member THEN o * 17 + (S[o].pulledby + 2) * 5 ELSE 0)
         + Code(S, o + 1)

SampleMod == atoi(IOEnv.C30_MOD)
SampleSeed == atoi(IOEnv.C30_SEED)
TotalEntries(S) == SumSeq([o \in 1..Len(S) |-> Len(S[o].entries)])
(* the seeded sample, plus every tiny scenario in which a recorded deviation is active (so that each
   of them is reproduced against the real binary in every run) *)
(* ... plus, in every run, the one-object scenarios whose only section holds all (2 or 3) entries and
   has a type that does not match its name *)
SwappedMulti(S) ==
    /\ Len(S) = 1 /\ Len(S[1].entries) >= 2
    /\ \A e \in 1..Len(S[1].entries) : S[1].entries[e] = S[1].entries[1]
    /\ S[1].entries[1].t # NativeType(S[1].entries[1].a)
(* ... and the same pair followed by a second object with one ordinary priority-1 entry for the
   same output array *)
SwappedPairPlus(S) ==
    /\ Len(S) = 2 /\ Len(S[1].entries) = 2 /\ Len(S[2].entries) = 1
    /\ S[1].entries[1] = S[1].entries[2]
    /\ S[1].entries[1].t # NativeType(S[1].entries[1].a)
    /\ S[2].entries[1].p = 1 /\ S[2].entries[1].t = NativeType(S[2].entries[1].a)
    /\ ~Legacy(S[2].entries[1].a)
    /\ OutOf(S[2].entries[1].a) = OutOf(S[1].entries[1].a)
Sampled(S) == \/ (Code(S, 1) + SampleSeed) % SampleMod = 0
              \/ cls # {} /\ TotalEntries(S) <= 2
              \/ SwappedMulti(S)
              \/ SwappedPairPlus(S)

Rec ==
    [objs |-> [o \in 1..Len(scn) |->
                  [member |-> scn[o].member, pulledby |-> scn[o].pulledby,
                   entries |-> scn[o].entries]],
     expect |-> Order(scn),
     classes |-> SetToSeq(cls),
     pinned_deviates |-> emitted[Devs] # Order(scn),
     variants |-> LET vq == SetToSeq(vs \ {{}})
                  IN  [i \in 1..Len(vq) |-> [devs |-> SetToSeq(vq[i]), out |-> emitted[vq[i]]]]]

EmitReplay == Done /\ Sampled(scn) => PrintT(<<"REPLAY", ToJson(Rec)>>)
=============================================================================
