---------------------------- MODULE MCInitOrder ----------------------------
(* Model-checking instances of InitOrder: bounded scenario sets, REPLAY records for the harness. *)
EXTENDS InitOrder, Json, IOUtils

CONSTANT Set      \* name of the scenario set (see ScnByName)

K(a, p) == [a |-> a, p |-> p]
KindsOf(arrs, prios) == {K(a, p) : a \in arrs \ {"preinit"}, p \in prios}
                            \cup (IF "preinit" \in arrs THEN {K("preinit", NoPrio)} ELSE {})

(* the priorities of DESIGN.md: none, 0, 1, 100, 101, 65534, 65535; 65435/65434 are the .ctors
   images of 100/101 (so that .ctors.100 and .init_array.65435 tie), 9 < 10 < 100 distinguishes a
   numeric from a lexicographic comparison of the suffix *)
PriosDesign == {NoPrio, 0, 1, 100, 101, 65534, 65535}
PriosWide == PriosDesign \cup {9, 10, 65434, 65435}
PriosSmall == {NoPrio, 1, 65534}
PriosTiny == {NoPrio, 1}

(* shapes: how many entries each object has *)
RECURSIVE SumSeq(_)
SumSeq(s) == IF s = <<>> THEN 0 ELSE Head(s) + SumSeq(Tail(s))
Shapes(nobj, per, total) ==
    {sh \in UNION {[1..n -> 1..per] : n \in 1..nobj} : SumSeq(sh) <= total}
Offset(sh, o) == SumSeq(SubSeq(sh, 1, o - 1))
PlainOfShape(kinds, sh) ==
    {[o \in 1..Len(sh) |-> [member |-> FALSE, pulledby |-> 0,
                            entries |-> [e \in 1..sh[o] |-> f[Offset(sh, o) + e]]]] :
        f \in [1..SumSeq(sh) -> kinds]}
Plain(kinds, nobj, per, total) == UNION {PlainOfShape(kinds, sh) : sh \in Shapes(nobj, per, total)}

(* all archive layouts of a plain scenario *)
LayoutsOf(n) ==
    {lay \in [1..n -> [member : BOOLEAN, pulledby : -1..n]] :
        \A o \in 1..n : IF lay[o].member
                        THEN /\ lay[o].pulledby # o
                             /\ lay[o].pulledby > 0 => lay[lay[o].pulledby].member
                        ELSE lay[o].pulledby = 0}
WithLayouts(scns) ==
    UNION {{[o \in 1..Len(s) |-> [member |-> lay[o].member, pulledby |-> lay[o].pulledby,
                                  entries |-> s[o].entries]] : lay \in LayoutsOf(Len(s))} : s \in scns}

(* ---- the registered scenario sets ----
   TLC evaluates every zero-arity constant definition at start-up, so the sets are selected by the
   constant Set and only the selected one is ever built. *)
InitFam == {"init", "ctors"}
FiniFam == {"fini", "dtors"}
RECURSIVE ScnByName(_)
ScnByName(n) ==
    CASE n = "probe" -> Plain(KindsOf(InitFam, PriosTiny), 2, 2, 3)
      (* A: priorities, ties, reversal - one family, no archives *)
      [] n = "init3" -> Plain(KindsOf(InitFam, PriosDesign), 3, 3, 3)
      [] n = "fini3" -> Plain(KindsOf(FiniFam, PriosDesign), 3, 3, 3)
      [] n = "init4" -> Plain(KindsOf(InitFam, PriosDesign), 3, 3, 4)
      [] n = "fini4" -> Plain(KindsOf(FiniFam, PriosDesign), 3, 3, 4)
      [] n = "wide3" -> Plain(KindsOf(InitFam, PriosWide), 3, 3, 3) \cup Plain(KindsOf(FiniFam, PriosWide), 3, 3, 3)
      (* C: all five arrays together *)
      [] n = "mix3" -> Plain(KindsOf(InArrays, PriosTiny), 3, 3, 3)
      [] n = "mix4" -> Plain(KindsOf(InArrays, PriosSmall), 3, 3, 4)
      (* B: archives - members, extraction order, unreferenced members *)
      [] n = "ar3" -> WithLayouts(Plain({K("init", NoPrio), K("ctors", NoPrio), K("init", 1)}, 3, 1, 3))
      [] n = "ar3x" -> WithLayouts(Plain(KindsOf(InArrays, PriosTiny), 3, 2, 3))
      [] n = "quick" -> ScnByName("init3") \cup ScnByName("fini3") \cup ScnByName("mix3") \cup ScnByName("ar3")
      [] n = "thorough" -> ScnByName("init4") \cup ScnByName("fini4") \cup ScnByName("wide3")
                            \cup ScnByName("mix4") \cup ScnByName("ar3x")
ScnSel == ScnByName(Set)

(* ---- REPLAY records: a seeded sample of the terminal states ---- *)
ArrCode(a) == CASE a = "preinit" -> 1 [] a = "init" -> 2 [] a = "fini" -> 3 [] a = "ctors" -> 4 [] OTHER -> 5
RECURSIVE CodeEntries(_, _, _)
CodeEntries(es, o, e) ==
    IF e > Len(es) THEN 0
    ELSE (o * 31 + e * 7) * (ArrCode(es[e].a) * 13 + ((es[e].p + 1) % 101) + 1) + CodeEntries(es, o, e + 1)
RECURSIVE Code(_, _)
Code(S, o) ==
    IF o > Len(S) THEN 0
    ELSE CodeEntries(S[o].entries, o, 1) + (IF S[o].member THEN o * 17 + (S[o].pulledby + 2) * 5 ELSE 0)
         + Code(S, o + 1)

SampleMod == atoi(IOEnv.C30_MOD)
SampleSeed == atoi(IOEnv.C30_SEED)
Sampled(S) == (Code(S, 1) + SampleSeed) % SampleMod = 0

Rec ==
    [objs |-> [o \in 1..Len(scn) |->
                  [member |-> scn[o].member, pulledby |-> scn[o].pulledby,
                   entries |-> scn[o].entries]],
     expect |-> Order(scn),
     classes |-> SetToSeq(ClassesOf(scn)),
     variants |-> LET vs == SetToSeq(SUBSET ClassesOf(scn) \ {{}})
                  IN  [i \in 1..Len(vs) |-> [devs |-> SetToSeq(vs[i]), out |-> emitted[vs[i]]]]]

EmitReplay == Done /\ Sampled(scn) => PrintT(<<"REPLAY", ToJson(Rec)>>)
=============================================================================
