---------------------------- MODULE MCInsnFields ----------------------------
(* Model-checking instance of InsnFields: for every encoding of the table, TLC enumerates boundary
   values (zero, one, all ones, each single bit, all-but-one bit, alternating patterns, extreme
   negative/positive for the signed encodings) and initial words (zeros, ones, alternating, an example
   opcode with zero / all-ones / alternating field), checks TableOK, Local, Oblivious and RoundTrip of
   the specified write on each, and prints REPLAY records: one "table" record per encoding (mask and
   segments, used by the harness for its exhaustive/random sweeps of the real functions) and one
   "vector" record per case with the exact expected word. *)
EXTENDS InsnFields, TLC, Json

CONSTANT Variant  \* "spec": the specified Write.  "or" / "movnz-clobber" / "call36-carry": the deliberately
                  \* broken writers of InsnFields; TLC must reject each (anti-vacuity)

VARIABLES kind, ei, W, V, neg
vars == <<kind, ei, W, V, neg>>

E == Encodings[ei]
Evens(Sx) == {i \in Sx : i % 2 = 0}
Odds(Sx) == {i \in Sx : i % 2 = 1}

(* log2 of valign (1 or 2) *)
Al(e) == IF e.valign = 2 THEN 1 ELSE 0

Patterns(P) == {{}, P, Evens(P), Odds(P)} \cup {{p} : p \in P} \cup {P \ {p} : p \in P}
Values(e) ==
    IF e.vmode = "bits" THEN Patterns(0..(e.width - 1))
    ELSE LET P == Al(e)..(e.width - 2)
             Hi == (e.width - 1)..63
         IN  Patterns(P) \cup {p \cup Hi : p \in Patterns(P)}
Negs(e, v) == IF e.movnz THEN BOOLEAN ELSE {63 \in v}
Words(e) == {{}, Window(e), Evens(Window(e)), Odds(Window(e)), e.op, e.op \cup Mask(e),
             e.op \cup Evens(Mask(e))}

(* Init enumerates (encoding, value); Next picks the initial word, so that TLC's workers share the
   enumeration.  kind = "pre": word not chosen yet. *)
Init ==
    \/ /\ kind = "pre" /\ ei \in 1..Len(Encodings)
       /\ V \in Values(Encodings[ei]) /\ W = {} /\ neg \in Negs(Encodings[ei], V)
    \/ /\ kind = "table" /\ ei \in 1..Len(Encodings) /\ V = {} /\ W = {} /\ neg = FALSE
Next == /\ kind = "pre"
        /\ kind' = "vector"
        /\ W' \in Words(E)
        /\ UNCHANGED <<ei, V, neg>>
Spec == Init /\ [][Next]_vars

Wr(e, w, v, n) == CASE Variant = "spec" -> Write(e, w, v, n)
                    [] Variant = "or" -> WriteOr(e, w, v, n)
                    [] Variant = "movnz-clobber" -> WriteMovnzClobber(e, w, v, n)
                    [] Variant = "call36-carry" -> WriteCall36Carry(e, w, v, n)

TableInv == TableOK(E)
LocalInv == kind = "vector" => Local(E, Wr, W, V, neg)
ObliviousInv == kind = "vector" => \A W2 \in Words(E) : Oblivious(E, Wr, W, W2, V, neg)
RoundTripInv == kind = "vector" => RoundTrip(E, Wr, W, V, neg)
(* names of (arch, use) are unique: the harness keys its verdicts on them *)
ASSUME \A i, j \in 1..Len(Encodings) :
          (Encodings[i].arch = Encodings[j].arch /\ Encodings[i].use = Encodings[j].use) => i = j

SegRec(s) == [vlo |-> s.vlo, w |-> s.w, ilo |-> s.ilo, add |-> IF s.addbit < 0 THEN 0 ELSE 2^s.addbit]
Rec == IF kind = "pre" THEN [kind |-> "pre"]
       ELSE IF kind = "table"
       THEN [kind |-> "table", ei |-> ei, arch |-> E.arch, insn |-> E.insn, use |-> E.use,
             bytes |-> E.bytes, width |-> E.width, vmode |-> E.vmode, valign |-> E.valign,
             movnz |-> E.movnz, mask |-> Mask(E), op |-> E.op, segs |-> {SegRec(s) : s \in E.segs}]
       ELSE [kind |-> "vector", ei |-> ei, w |-> W, v |-> V, neg |-> neg, out |-> Write(E, W, V, neg)]
Emit == PrintT(<<"REPLAY", ToJson(Rec)>>)
=============================================================================
