------------------------------ MODULE MCLayout ------------------------------
(* Bounded instances of the placement machine of Layout.tla (scaled constants).
   TLC evaluates every zero-arity constant definition at start-up, so the larger part-list sets
   live in their own modules (MCLayoutQuick / Mid / Wide). *)
EXTENDS Layout

Slots == <<"R", "X", "TD", "TB", "RR", "D", "B">>
NSlots == Len(Slots)
Mk(c, a, s, l) == [cls |-> c, align |-> a, size |-> s, loc |-> l]

(* All lists that fill at most `maxParts` of the class slots (wild orders sections by class), each
   with an alignment from A and a size from S; at most one part carries a fixed address, taken
   from L, and only parts of the classes custom / script-named sections can have. *)
Lists(maxParts, A, S, L) ==
    LET subsets == {X \in SUBSET (1..NSlots) : Cardinality(X) <= maxParts}
        opts == A \X S
        fill(X) == [X -> opts]
        idxSeq(X) == CHOOSE q \in [1..Cardinality(X) -> X] : \A i, j \in 1..Cardinality(X) : i < j => q[i] < q[j]
        build(X, f, li, l) ==
            LET q == idxSeq(X) IN
            [i \in 1..Cardinality(X) |-> Mk(Slots[q[i]], f[q[i]][1], f[q[i]][2], IF q[i] = li THEN l ELSE -1)]
    IN  UNION {UNION {{build(X, f, 0, -1)} \cup
                      {build(X, f, li, l) : <<li, l>> \in ({i \in X : Slots[i] \in {"R", "X", "D", "B"}} \X L)}
                      : f \in fill(X)} : X \in subsets}

Far == 40 * 16
ListsTiny == Lists(2, {1, 32}, {0, 3}, {Far + 3})
ListsBad == Lists(2, {1, 32}, {3}, {})
(* a fixed-address part followed, in the same segment, by a part whose alignment exceeds the page *)
ListsLoc == Lists(2, {1, 32}, {3}, {Far + 3})
BothRelro == {TRUE, FALSE}
=============================================================================
