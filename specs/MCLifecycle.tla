---------------------------- MODULE MCLifecycle ----------------------------
(* Model-checking / replay instance of Lifecycle: every terminal state is printed as one REPLAY
   record (scenario + the outcome the design prescribes), to be replayed into the real binary. *)
EXTENDS Lifecycle, Json

Outcome ==
    [fork |-> fork, multi |-> multi, prior |-> prior, shared |-> shared, wopt |-> wopt, mmapOut |-> mmapOut,
     holder |-> holder, faultAt |-> faultAt, faultKind |-> faultKind, symlink |-> symlink, reapable |-> reapable, changeAt |-> changeAt,
     exitZero |-> (TopExit = 0), outClass |-> outClass, outInode |-> outInode,
     oldWritten |-> oldInodeWritten, sibling |-> sibling, temp |-> temp,
     tokensBack |-> (tokens = MaxTokens), wexit |-> wexit]

EmitReplay == Done => PrintT(<<"REPLAY", ToJson(Outcome)>>)
=============================================================================
