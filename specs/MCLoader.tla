------------------------------ MODULE MCLoader ------------------------------
(* Bounded constants for the linker/loader model of Loader.tla, and the REPLAY records that drive
   the pointer-place scenarios of C09 / C23: the chosen offsets, the parity of the section start,
   the section's alignment class, RELR on/off, and what the rule under test predicts (entries reserved
   by the layout vs entries consumed by the writer; for the rule of the tree, "code", they never
   differ; for the old "offset" rule they differ exactly where the link used to fail with an
   accounting error). *)
EXTENDS Loader, Json
OffsSmall == {0, 1, 8, 9, 16, 17, 24, 32, 40, 520}
BasesSmall == {WZero64, W64(65536), <<5713920, 1249620, 32530>>}   \* 0, 0x10000, 0x7f12_3456_7000
Rec == [offs |-> SortSet(offs), secodd |-> secodd, aligned |-> aligned, relr |-> relrOn,
        alloc_relr |-> NAllocRelr, write_relr |-> NWriteRelr,
        predicted_mismatch |-> (NAllocRelr # NWriteRelr)]
EmitReplay == (phase = "loaded" /\ offs # {}) => PrintT(<<"REPLAY", ToJson(Rec)>>)
=============================================================================
