------------------------------ MODULE MCLoader ------------------------------
(* Bounded constants for the linker/loader model of Loader.tla. *)
EXTENDS Loader
AddrsSmall == {8, 9, 16, 17, 24, 25, 32, 40, 48, 528}
BasesSmall == {WZero64, W64(65536), <<5713920, 1249620, 32530>>}   \* 0, 0x10000, 0x7f12_3456_7000 - like
=============================================================================
