----------------------------- MODULE MCLoaderMM -----------------------------
EXTENDS LoaderMM, Json
Rec == [kind |-> kind, def |-> def, pie |-> pie,
        refE |-> refs["E"], refL1 |-> refs["L1"], refL2 |-> refs["L2"],
        mechE |-> Mechanism["E"], mechL1 |-> Mechanism["L1"], mechL2 |-> Mechanism["L2"],
        alias |-> alias, aliasE |-> usesAlias["E"], aliasL1 |-> usesAlias["L1"], aliasL2 |-> usesAlias["L2"],
        expectCopy |-> NeedsCopy, expectCanonicalPlt |-> NeedsCanonicalPlt]
EmitReplay == (phase = "loaded") => PrintT(<<"REPLAY", ToJson(Rec)>>)
=============================================================================
