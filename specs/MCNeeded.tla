------------------------------ MODULE MCNeeded ------------------------------
(* Bounded configuration families for Needed.tla (C37). *)
EXTENDS Needed

Tok(t, f) == [t |-> t, f |-> f]
File(k, d, s, w) == [kind |-> k, defs |-> d, strong |-> s, weak |-> w]

(* reference code: 0 none, 1 strong, 2 weak *)
StrongOf(m) == {n \in DOMAIN m : m[n] = 1}
WeakOf(m) == {n \in DOMAIN m : m[n] = 2}

Perms(S) == {p \in [1..Cardinality(S) -> S] : \A i, j \in 1..Cardinality(S) : i # j => p[i] # p[j]}
PermCode(p) == IF Len(p) = 0 THEN 0
               ELSE LET RECURSIVE C(_)
                        C(k) == IF k = 0 THEN 0 ELSE C(k - 1) * 5 + p[k]
                    IN C(Len(p))

-----------------------------------------------------------------------------
(* Family A: the modifier stack.  main.o (strong reference to s2), L1 (defines s1, unreferenced),
   L2 (defines s2); every sequence of up to K flags (--as-needed, --no-as-needed, --whole-archive,
   --no-whole-archive, --push-state, --pop-state) around the two libraries, including invalid ones
   (unbalanced --pop-state).  --whole-archive must not make an as-needed library unconditional. *)
Flags == {"as", "noas", "push", "pop", "wa", "nowa"}
FlagCode(t) == CASE t = "as" -> 0 [] t = "noas" -> 1 [] t = "push" -> 2 [] t = "pop" -> 3 [] t = "wa" -> 4 [] t = "nowa" -> 5

FilesA == << File("obj", {}, {"s2"}, {}), File("lib", {"s1"}, {}, {}), File("lib", {"s2"}, {}, {}) >>

SeqCode(fl) == LET RECURSIVE C(_)
                   C(k) == IF k = 0 THEN 0 ELSE C(k - 1) * 6 + FlagCode(fl[k])
               IN C(Len(fl))

MkA(fl, i, j) ==
    LET k == Len(fl)
        T(a, b) == [q \in 1..(b - a + 1) |-> Tok(fl[a + q - 1], 0)]
    IN [idx |-> ((SeqCode(fl) * 8 + i) * 8 + j) * 8 + k,
        tokens |-> <<Tok("file", 1)>> \o T(1, i) \o <<Tok("file", 2)>> \o T(i + 1, j)
                     \o <<Tok("file", 3)>> \o T(j + 1, k),
        files |-> FilesA]

InitA(K) == \E k \in 0..K : \E fl \in [1..k -> Flags] : \E i \in 0..k : \E j \in i..k :
               InitWith(MkA(fl, i, j))

-----------------------------------------------------------------------------
(* Family B: two libraries, main.o and a second regular file (object or archive member).
   Names: s1, s2 (own symbols of L1, L2), c (may be defined by L1, L2 and one regular file),
   m (defined by the second file; pulls the archive member in). *)
FlagTok(a) == Tok(IF a THEN "as" ELSE "noas", 0)

MkB(perm, a, cl, creg, mr, k2, sr, wa2) ==
    LET files == << File("obj", IF creg = 1 THEN {"c"} ELSE {}, StrongOf(mr), WeakOf(mr)),
                    File(k2, {"m"} \cup (IF creg = 2 THEN {"c"} ELSE {}), StrongOf(sr), WeakOf(sr)),
                    File("lib", {"s1"} \cup (IF cl[1] THEN {"c"} ELSE {}), {}, {}),
                    File("lib", {"s2"} \cup (IF cl[2] THEN {"c"} ELSE {}), {}, {}) >>
        RECURSIVE T(_)
        T(k) == IF k = 0 THEN <<>>
                ELSE T(k - 1) \o (IF perm[k] >= 3 THEN <<FlagTok(a[perm[k] - 2]), Tok("file", perm[k])>>
                                  ELSE IF perm[k] = 2 /\ wa2 THEN <<Tok("wa", 0), Tok("file", 2), Tok("nowa", 0)>>
                                  ELSE <<Tok("file", perm[k])>>)
        B(b) == IF b THEN 1 ELSE 0
        code == ((((((((((PermCode(perm) % 1000) * 2 + B(a[1])) * 2 + B(a[2])) * 2 + B(cl[1])) * 2 + B(cl[2])) * 3 + creg)
                   * 3 + mr.s1) * 3 + mr.s2) * 3 + mr.c) * 3 + mr.m) * 2 + (IF k2 = "obj" THEN 0 ELSE 1)
    IN [idx |-> (code % 100000) * 18 + sr.s2 * 6 + sr.c * 2 + B(wa2) + (code \div 100000),
        tokens |-> T(4), files |-> files]

WellFormedB(cl, creg, mr, k2, sr) ==
    /\ creg = 2 => k2 = "obj"             \* the archive member defines only m
    /\ creg = 1 => mr.c = 0               \* no reference to a name the file defines itself
    /\ creg = 2 => sr.c = 0
    /\ k2 = "obj" => mr.m = 0             \* m matters only as the name that pulls the member in
    /\ (mr.c = 1 \/ sr.c = 1) => (cl[1] \/ cl[2] \/ creg # 0)   \* a strong reference has a definition

InitB(PermSet, AS, CLS, MS1, MS2, MC, MK, SS2, SC) ==
    \E perm \in PermSet, a \in AS, cl \in CLS, creg \in 0..2, mk \in MK :
    \E ms1 \in MS1, ms2 \in MS2, mc \in MC, ss2 \in SS2, sc \in SC :
       LET mr == [s1 |-> ms1, s2 |-> ms2, c |-> mc, m |-> mk[1]]
           sr == [s1 |-> 0, s2 |-> ss2, c |-> sc]
       IN WellFormedB(cl, creg, mr, mk[2], sr) /\ InitWith(MkB(perm, a, cl, creg, mr, mk[2], sr, mk[3]))

BB == [1..2 -> BOOLEAN]
(* (reference of main.o to m, kind of the second file, second file inside --whole-archive) *)
MK3 == {<<0, "obj", FALSE>>, <<0, "member", FALSE>>, <<1, "member", FALSE>>, <<0, "member", TRUE>>}

Perms4 == Perms(1..4)
(* main.o before the second regular file *)
Perms4MainFirst == {p \in Perms4 : (CHOOSE i \in 1..4 : p[i] = 1) < (CHOOSE i \in 1..4 : p[i] = 2)}

(* quick: main.o before the second file, at least one library under --as-needed *)
InitBQuick == InitB(Perms4MainFirst, BB \ {<<FALSE, FALSE>>}, BB \ {<<FALSE, TRUE>>}, {0, 1}, {0}, 0..2, MK3, {0, 1}, {0, 1})
InitBFull == InitB(Perms4, BB, BB, 0..2, {0}, 0..2, MK3, {0, 1}, 0..2)
InitBTiny == InitB({<<3, 1, 4, 2>>, <<1, 3, 2, 4>>}, BB, BB, {0, 1}, {0}, {0, 1}, MK3, {0}, {0, 1})

-----------------------------------------------------------------------------
(* Family C: three libraries and main.o; DT_NEEDED order over three entries, c defined by any
   subset of the libraries and possibly by main.o. *)
MkC(perm, a, cl, creg, mr) ==
    LET files == << File("obj", IF creg = 1 THEN {"c"} ELSE {}, StrongOf(mr), WeakOf(mr)),
                    File("lib", {"s1"} \cup (IF cl[1] THEN {"c"} ELSE {}), {}, {}),
                    File("lib", {"s2"} \cup (IF cl[2] THEN {"c"} ELSE {}), {}, {}),
                    File("lib", {"s3"} \cup (IF cl[3] THEN {"c"} ELSE {}), {}, {}) >>
        RECURSIVE T(_)
        T(k) == IF k = 0 THEN <<>>
                ELSE T(k - 1) \o (IF perm[k] >= 2 THEN <<FlagTok(a[perm[k] - 1]), Tok("file", perm[k])>>
                                  ELSE <<Tok("file", perm[k])>>)
        B(b) == IF b THEN 1 ELSE 0
    IN [idx |-> ((((((((((PermCode(perm) % 1000) * 2 + B(a[1])) * 2 + B(a[2])) * 2 + B(a[3])) * 2 + B(cl[1])) * 2 + B(cl[2]))
                    * 2 + B(cl[3])) * 2 + creg) * 3 + mr.s1) * 3 + mr.s2) * 6 + mr.s3 * 3 + mr.c,
        tokens |-> T(4), files |-> files]

InitC(MS3) ==
    \E perm \in Perms4, a \in [1..3 -> BOOLEAN], cl \in [1..3 -> BOOLEAN], creg \in 0..1 :
    \E ms1 \in {0, 1}, ms2 \in {0, 1}, ms3 \in MS3, mc \in 0..2 :
       LET mr == [s1 |-> ms1, s2 |-> ms2, s3 |-> ms3, c |-> mc] IN
       /\ creg = 1 => mc = 0
       /\ mc = 1 => (cl[1] \/ cl[2] \/ cl[3] \/ creg = 1)
       /\ InitWith(MkC(perm, a, cl, creg, mr))

-----------------------------------------------------------------------------
InitQuick == InitA(3) \/ InitBQuick
InitThorough == InitA(4) \/ InitBFull \/ InitC({0, 1})
SpecQuick == SpecFrom(InitQuick)
SpecLive == SpecFrom(InitA(2) \/ InitBTiny)
SpecThorough == SpecFrom(InitThorough)

(* anti-vacuity: a broken declarative rule ("every library is needed") must be refuted *)
BrokenRuleHolds == pc = "done" => result = SelectSeq(OrderDecl, LAMBDA f : Kind(f) = "lib")
(* anti-vacuity: without the deviation class the operational model must NOT conform everywhere *)
StrictConforms == pc = "done" => ConformsD(Decl)
=============================================================================
