------------------------------ MODULE MCNotes ------------------------------
(* Model-checking instances of Notes: bounded constants live here. *)
EXTENDS Notes

(* x86-64 property types (offset from 0xc0000000) *)
F1AND   == <<"x86", 2>>       \* GNU_PROPERTY_X86_FEATURE_1_AND (IBT, SHSTK) = X86_UINT32_AND_LO
ANDHI   == <<"x86", 32767>>   \* GNU_PROPERTY_X86_UINT32_AND_HI
ORLO    == <<"x86", 32768>>   \* GNU_PROPERTY_X86_UINT32_OR_LO
NEEDED  == <<"x86", 32770>>   \* GNU_PROPERTY_X86_ISA_1_NEEDED 0xc0008002
ORHI    == <<"x86", 65535>>   \* GNU_PROPERTY_X86_UINT32_OR_HI
ORANDLO == <<"x86", 65536>>   \* GNU_PROPERTY_X86_UINT32_OR_AND_LO
F2USED  == <<"x86", 65537>>   \* GNU_PROPERTY_X86_FEATURE_2_USED 0xc0010001
USED    == <<"x86", 65538>>   \* GNU_PROPERTY_X86_ISA_1_USED 0xc0010002
ORANDHI == <<"x86", 98303>>   \* GNU_PROPERTY_X86_UINT32_OR_AND_HI
CUSED   == <<"x86", 0>>       \* GNU_PROPERTY_X86_COMPAT_ISA_1_USED (legacy)
CNEEDED == <<"x86", 1>>       \* GNU_PROPERTY_X86_COMPAT_ISA_1_NEEDED (legacy)
(* generic types (offset from 0xb0000000) *)
GANDLO  == <<"gen", 0>>
GANDHI  == <<"gen", 32767>>
GORLO   == <<"gen", 32768>>
GORHI   == <<"gen", 65535>>
(* AArch64 *)
A64F1   == <<"a64", 0>>       \* GNU_PROPERTY_AARCH64_FEATURE_1_AND (BTI, PAC)

Canon      == {F1AND, NEEDED, USED}
Boundaries == {F1AND, ANDHI, ORLO, ORHI, ORANDLO, F2USED, ORANDHI, GANDLO, GANDHI, GORLO, GORHI}
Legacy     == {CUSED, CNEEDED}
AllX86     == Canon \cup Boundaries
A64        == {A64F1}

One == {1}
Two == {2}

(* <<>> absent; one property with each 2-bit value *)
Vals5 == {<<>>, <<{}>>, <<{0}>>, <<{1}>>, <<{0, 1}>>}
(* reduced: absent, zero, one bit, both bits *)
Vals4 == {<<>>, <<{}>>, <<{0}>>, <<{0, 1}>>}
Vals3 == {<<>>, <<{0}>>, <<{1}>>}
Vals2 == {<<>>, <<{0}>>}
(* with the same type twice in one input *)
ValsDup == Vals5 \cup {<<{0}, {1}>>, <<{0, 1}, {0}>>, <<{1}, {1}>>}

S3 == {"absent", "noexec", "exec"}
SNoexec == {"noexec"}
KObj == {"obj"}
KAll == {"obj", "member", "lazy", "dso"}
Z3 == {<<>>, <<"execstack">>, <<"noexecstack">>}
Z7 == Z3 \cup {<<"execstack", "noexecstack">>, <<"noexecstack", "execstack">>,
               <<"execstack", "execstack">>, <<"noexecstack", "noexecstack">>}
ZNone == {<<>>}

P(maxn, types, cards, vals, stacks, kinds, zs) ==
  [maxn |-> maxn, types |-> types, cards |-> cards, vals |-> vals, stacks |-> stacks,
   kinds |-> kinds, zs |-> zs]

(* ---- quick ------------------------------------------------------------------------------- *)
QuickProfiles == {
  \* stack x -z x one canonical type of each class, 3 inputs, reduced values
  P(3, Canon, One, Vals2, S3, KObj, Z3),
  \* the same fully joint with all 2-bit values for <= 2 inputs
  P(2, Canon, One, Vals5, S3, KObj, Z3),
  \* all 2-bit values over 3 inputs, stack fixed
  P(3, Canon, One, Vals5, SNoexec, KObj, ZNone),
  \* class range boundaries, generic ranges and the legacy COMPAT types
  P(2, Boundaries \cup Legacy, One, Vals5, SNoexec, KObj, ZNone),
  P(3, Boundaries \cup Legacy, One, Vals3, SNoexec, KObj, ZNone),
  \* input kinds: archive members (extracted or not), shared objects
  P(2, {F1AND, USED}, One, Vals3, S3, KAll, Z3),
  \* repeated / contradicting -z options
  P(2, {F1AND}, One, Vals2, S3, KObj, Z7),
  \* the same type twice in one input
  P(2, Canon, One, ValsDup, SNoexec, KObj, ZNone),
  \* two types in one scenario
  P(2, Canon, Two, Vals4, SNoexec, KObj, ZNone),
  P(3, Canon, Two, Vals2, SNoexec, KObj, ZNone)
}

(* ---- thorough ---------------------------------------------------------------------------- *)
ThoroughProfiles == QuickProfiles \cup {
  \* fully joint, every x86 / generic / legacy type
  P(3, AllX86 \cup Legacy, One, Vals4, S3, KObj, Z3),
  P(3, Canon, One, Vals5, S3, KObj, Z3),
  P(3, Canon, One, Vals2, S3, KAll, Z3),
  P(3, {F1AND}, One, Vals2, S3, KObj, Z7),
  P(3, Canon, One, ValsDup, SNoexec, KObj, ZNone),
  P(3, Canon, Two, Vals4, SNoexec, KObj, ZNone),
  P(2, AllX86, Two, Vals3, SNoexec, KObj, ZNone),
  P(2, Canon, {3}, Vals3, SNoexec, KObj, ZNone)
}

(* ---- small spaces: liveness, deliberately broken variants, AArch64 ------------------------ *)
SmallProfiles == {
  P(2, Canon \cup {ANDHI} \cup Legacy, One, Vals4, SNoexec, KObj, ZNone),
  P(2, {F1AND}, One, Vals2, S3, KObj, Z7),
  P(3, {F1AND, USED}, One, Vals2, {"noexec", "exec"}, KObj, Z3)
}
A64Profiles == { P(3, A64, One, Vals5, SNoexec, KObj, ZNone) }
=============================================================================
