----------------------------- MODULE MCOptions -----------------------------
EXTENDS Options, Json
VARIABLE o
Init == o \in Adm
Next == UNCHANGED o
Spec == Init /\ [][Next]_o
Emit == PrintT(<<"REPLAY", ToJson(o)>>)
(* sanity: the admissible set is what the harness believes it is *)
Sane == Cardinality(Adm) > 100 /\ \A k \in Kind : \E v \in Adm : v.kind = k
=============================================================================
