----------------------------- MODULE MCPartial -----------------------------
(* All command lines of NObj objects x per-name definition kinds x all compositions into contiguous
   runs: Transparent must hold; each (kinds, cuts) is printed as a REPLAY record for the harness. *)
EXTENDS Partial, Json

VARIABLES kinds, cuts
Init == /\ kinds \in [1..NObj -> [Names -> Kinds]]
        /\ cuts \in SUBSET (1..(NObj - 1))
        /\ Linkable([i \in 1..NObj |-> Obj(i, kinds[i])])
        \* something must reference or define each name, and an undefined strong reference with no
        \* definition anywhere would be a link error in both worlds: keep such inputs out
        /\ \A n \in Names : (\E i \in 1..NObj : kinds[i][n] = "undef") => (\E i \in 1..NObj : IsDef(kinds[i][n]))
Next == UNCHANGED <<kinds, cuts>>
Spec == Init /\ [][Next]_<<kinds, cuts>>

Objs == [i \in 1..NObj |-> Obj(i, kinds[i])]
TransparentInv == Transparent(Objs, cuts)
Emit == (cuts # 1..(NObj - 1)) =>
          PrintT(<<"REPLAY", ToJson([kinds |-> kinds, cuts |-> cuts, bind |-> Abstract(Objs).bind])>>)
=============================================================================
