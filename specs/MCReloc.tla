------------------------------ MODULE MCReloc ------------------------------
(***************************************************************************)
(* Enumeration of the single-site case product of Reloc.tla (and of pairs  *)
(* of sites on one symbol) as a small state machine whose steps are the    *)
(* phases of wild that the operational side transcribes:                   *)
(*   Pick -> Relax -> Process -> Write -> Load (declarative verdict).      *)
(* Invariants: every case conforms or is a named deviation; no deviation   *)
(* is stale.  At the terminal state one REPLAY record per case is printed. *)
(***************************************************************************)
EXTENDS Reloc, Json

CONSTANTS SymSet, RefSet, OutSet,      \* the part of the product this run enumerates
          Pairs,                        \* TRUE: two sites on one symbol
          Ref2Set,                      \* second reference kinds (pairs only)
          Broken                        \* TRUE: a deliberately wrong declarative rule (anti-vacuity)

(* pruned product for two sites on one symbol: kinds whose symbol-level needs (GOT, PLT, copy
   relocation, canonical PLT, TLS slots) interact *)
PairSyms == {"global_d", "hidden_d", "global_f", "imp_d", "imp_f", "ifunc", "tls_def", "tls_imp", "weakundef"}
PairRefs == {"abs64", "pc32", "abs32s", "plt32", "gotpcrel", "rex_gotpcrelx", "gotpcrelx_call", "gotoff64",
             "tpoff32", "gottpoff_mov", "tlsgd", "tlsld", "tlsdesc"}

RelaxOld == "old"        \* mc/Reloc_oldrelax.cfg: RelaxVariant <- RelaxOld

VARIABLES c, r2, pc, eff, proc, wr, verdict
vars == <<c, r2, pc, eff, proc, wr, verdict>>

Cases == {x \in [sym : SymSet, ref : RefSet, out : OutSet, secw : BOOLEAN, relax : BOOLEAN, relr : BOOLEAN] :
             Applicable(x)}

Init == /\ c \in Cases
        /\ Pairs => (c.relax /\ ~c.relr)        \* pairs vary the second reference kind instead
        /\ r2 \in (IF Pairs THEN {r \in Ref2Set : Applicable([c EXCEPT !.ref = r, !.secw = (r \in DataRefs)])}
                   ELSE {""})
        /\ pc = "picked" /\ eff = "" /\ proc = "" /\ wr = "" /\ verdict = ""

Relax == /\ pc = "picked"
         /\ eff' = EffKind(c)
         /\ pc' = "relaxed"
         /\ UNCHANGED <<c, r2, proc, wr, verdict>>

Process == /\ pc = "relaxed"
           /\ proc' = (IF WProcess(c).err # "" THEN "err:" \o WProcess(c).err
                       ELSE IF WProcess(c).promote # "" THEN "promote:" \o WProcess(c).promote
                       ELSE "alloc:" \o WProcess(c).part)
           /\ pc' = "processed"
           /\ UNCHANGED <<c, r2, eff, wr, verdict>>

Write == /\ pc = "processed"
         /\ wr' = WWrite(c)
         /\ pc' = "written"
         /\ UNCHANGED <<c, r2, eff, proc, verdict>>

Load == /\ pc = "written"
        /\ verdict' = Predicted(c)
        /\ pc' = "done"
        /\ UNCHANGED <<c, r2, eff, proc, wr>>

Next == Relax \/ Process \/ Write \/ Load \/ (pc = "done" /\ UNCHANGED vars)
Spec == Init /\ [][Next]_vars

Done == pc = "done"

(* the deliberately broken rule: "a 32-bit absolute field can always take a dynamic relocation" *)
ClassUsed(x) == IF Broken /\ Reason(x) = "abs32-needs-dynreloc" THEN "ok" ELSE Class(x)
ConformUsed(x) ==
    CASE ClassUsed(x) = "ok" -> WOutcome(x) = "link" /\ WValueOK(x)
      [] ClassUsed(x) = "reject" -> WOutcome(x) # "link"
      [] OTHER -> WOutcome(x) # "link" \/ WValueOK(x)

InvConform == Done => (ConformUsed(c) \/ (DevName(c) # "" /\ ~Broken))
InvNoStale == Done => (~StaleDeviation(c) /\ AllocNamed(c))
InvTyped == /\ pc \in {"picked", "relaxed", "processed", "written", "done"}
            /\ Done => verdict \in {"link-ok", "link-wrong", "diag", "allocfail"}
            /\ Done => (verdict = "link-ok") = (WOutcome(c) = "link" /\ WValueOK(c))

(* second site of a pair: predicted individually *)
C2 == [c EXCEPT !.ref = r2, !.secw = (r2 \in DataRefs)]

Rec == [sym |-> c.sym, ref |-> c.ref, out |-> c.out, secw |-> c.secw, relax |-> c.relax, relr |-> c.relr,
        class |-> Class(c), reason |-> Reason(c), formula |-> Formula(c.ref),
        predicted |-> verdict, dev |-> DevName(c), relaxed |-> RelaxApplied(c), kind |-> eff,
        process |-> proc, write |-> wr,
        extra |-> (IF Pairs THEN <<r2>> ELSE <<>>),
        predicted2 |-> (IF Pairs THEN Predicted(C2) ELSE ""),
        class2 |-> (IF Pairs THEN Class(C2) ELSE "")]

(* development aid: list every non-conforming / stale case instead of stopping at the first *)
DebugList == (Done /\ (~(ConformUsed(c) \/ DevName(c) # "") \/ StaleDeviation(c) \/ ~AllocNamed(c))) =>
                 PrintT(<<"NONCONF", c, Class(c), Reason(c), WOutcome(c), WValueOK(c), DevName(c), RelaxApplied(c)>>)

EmitReplay == Done => PrintT(<<"REPLAY", ToJson(Rec)>>)
=============================================================================
