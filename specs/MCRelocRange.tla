---------------------------- MODULE MCRelocRange ----------------------------
(* Model-checking instance of RelocRange: for every relocation type of the table TLC enumerates the
   boundary values of its field (min-1, min, -1, 0, 1, max, max+1 for the signed, unsigned and
   "either" reading of the width, and the 64-bit extremes; rounded down to the type's alignment),
   checks that the psABI range is exactly the set of values the field can hold without loss
   (FitsImpliesNoTruncation, Tight), and prints one REPLAY record per case with the predicted
   decision and the predicted field content. *)
EXTENDS RelocRange, TLC, Json

CONSTANT Variant   \* "spec": the table as specified.  Anything else: a deliberately broken reading of the
                   \* table (each one is a defect that wild once had); TLC must reject every one of them
                   \* (anti-vacuity), and the conformance harness reports a VIOLATION if the code behaves so.

VARIABLES ti, V, place
vars == <<ti, V, place>>

Ty == Types[ti]

(* closed forms of 2^p + d and -(2^p) + d, d in {-1, 0, 1}, as 64-bit two's complement bit sets *)
Pow(p) == {p}
PowM1(p) == 0..(p - 1)
PowP1(p) == IF p = 0 THEN {1} ELSE {p, 0}
NegPow(p) == p..63
NegPowM1(p) == (0..63) \ {p}
NegPowP1(p) == IF p = 0 THEN {} ELSE (p..63) \cup {0}
Around(p) == IF p >= 64 THEN {} ELSE
             {Pow(p), PowM1(p), PowP1(p)} \cup
             (IF p >= 63 THEN {} ELSE {NegPow(p), NegPowM1(p), NegPowP1(p)})

AlignDown(t, X) == X \ (0..(Log2(t.align) - 1))
(* the width that matters for the boundary: the checked width, or the top of the field for
   unchecked types *)
W(t) == IF t.sign = "none" THEN t.hi ELSE t.n
Candidates(t) ==
    {{}, {0}, 0..63, {1}, 0..62, {63}, {62}, {2, 4, 9}, (0..63) \ {2, 4, 9}} \cup
    Around(W(t)) \cup Around(W(t) - 1) \cup Around(W(t) + 1) \cup
    (IF t.lo > 0 THEN Around(t.lo) ELSE {})
Values(t) == {AlignDown(t, X) : X \in Candidates(t)}

Init == /\ ti \in 1..Len(Types) /\ V \in Values(Types[ti])
        /\ place \in {pl \in Places : LegalIn(Types[ti], pl)}
Next == UNCHANGED vars
Spec == Init /\ [][Next]_vars

(* The decision rule under test: Fits, or one of the broken readings *)
PrelChecked == {"R_AARCH64_MOVW_PREL_G0", "R_AARCH64_MOVW_PREL_G1", "R_AARCH64_MOVW_PREL_G2"}
VFits(t, X) ==
    CASE Variant = "spec" -> FitsAt(t, place, X)
      (* relocations in non-alloc debug sections written without verification ("debug values always
         fit"): an overflowing value is silently truncated there *)
      [] Variant = "unchecked-in-debug" -> IF place = "debug" THEN TRUE ELSE Fits(t, X)
      (* R_X86_64_8 / R_X86_64_16 read as signed-only: 200 rejected although the byte holds it *)
      [] Variant = "signed-only-8-16" ->
            IF t.name \in {"R_X86_64_8", "R_X86_64_16"} THEN FitsSigned(t.n, X) ELSE Fits(t, X)
      (* "no check" implemented as the half-open range [i64::MIN, i64::MAX): i64::MAX rejected *)
      [] Variant = "half-open-no-check" ->
            IF t.sign = "none" THEN X # (0..62) ELSE Fits(t, X)
      (* the checked PC-relative MOVW groups left unchecked: overflow silently truncated *)
      [] Variant = "unchecked-movw-prel" ->
            IF t.name \in PrelChecked THEN TRUE ELSE Fits(t, X)

NoTruncInv == (VFits(Ty, V) /\ Aligned(Ty, V)) => NoTruncation(Ty, V)
TightInv == (Ty.sign # "none" /\ ~VFits(Ty, V) /\ Aligned(Ty, V)) => ~NoTruncation(Ty, V)
(* an unchecked type accepts every 64-bit value *)
UncheckedInv == Ty.sign = "none" => VFits(Ty, V)
ASSUME \A i, j \in 1..Len(Types) :
          (Types[i].arch = Types[j].arch /\ Types[i].rtype = Types[j].rtype) => i = j
ASSUME \A i \in 1..Len(Types) : Types[i].insn # "" =>
          \E k \in 1..Len(Encodings) : Encodings[k].arch = Types[i].arch /\ Encodings[k].use = Types[i].insn

Rec == [place |-> place, arch |-> Ty.arch, name |-> Ty.name, rtype |-> Ty.rtype, sign |-> Ty.sign, n |-> Ty.n,
        size |-> Ty.size, insn |-> Ty.insn, lo |-> Ty.lo, hi |-> Ty.hi, align |-> Ty.align,
        v |-> V, fits |-> FitsAt(Ty, place, V), word |-> ExpectedWord(Ty, V),
        mask |-> IF Ty.insn = "" THEN 0..(8 * Ty.size - 1) ELSE Mask(Encodings[EncOf(Ty)]),
        op |-> IF Ty.insn = "" THEN {} ELSE Encodings[EncOf(Ty)].op]
Emit == PrintT(<<"REPLAY", ToJson(Rec)>>)

=============================================================================
