---------------------------- MODULE MCRelocRange ----------------------------
(* Model-checking instance of RelocRange: for every relocation type of the table TLC enumerates the
   boundary values of its field (min-1, min, -1, 0, 1, max, max+1 for the signed, unsigned and
   "either" reading of the width, and the 64-bit extremes; rounded down to the type's alignment),
   checks that the psABI range is exactly the set of values the field can hold without loss
   (FitsImpliesNoTruncation, Tight), and prints one REPLAY record per case with the predicted
   decision and the predicted field content. *)
EXTENDS RelocRange, TLC, Json

VARIABLES ti, V
vars == <<ti, V>>

Ty == Types[ti]

(* closed forms of 2^p + d and -(2^p) + d, d in {-1, 0, 1}, as 64-bit two's complement bit sets *)
Pow(p) == {p}
PowM1(p) == 0..(p - 1)
PowP1(p) == IF p = 0 THEN {1} ELSE {p, 0}
NegPow(p) == p..63
NegPowM1(p) == (0..63) \ {p}
NegPowP1(p) == IF p = 0 THEN {} ELSE (p..63) \cup {0}
Around(p) == IF p >= 64 THEN {} ELSE
             {Pow(p), PowM1(p), PowP1(p)} \cup
             (IF p >= 63 THEN {} ELSE {NegPow(p), NegPowM1(p), NegPowP1(p)})

AlignDown(t, X) == X \ (0..(Log2(t.align) - 1))
(* the width that matters for the boundary: the checked width, or the top of the field for
   unchecked types *)
W(t) == IF t.sign = "none" THEN t.hi ELSE t.n
Candidates(t) ==
    {{}, {0}, 0..63, {1}, 0..62, {63}, {62}, {2, 4, 9}, (0..63) \ {2, 4, 9}} \cup
    Around(W(t)) \cup Around(W(t) - 1) \cup Around(W(t) + 1) \cup
    (IF t.lo > 0 THEN Around(t.lo) ELSE {})
Values(t) == {AlignDown(t, X) : X \in Candidates(t)}

Init == ti \in 1..Len(Types) /\ V \in Values(Types[ti])
Next == UNCHANGED vars
Spec == Init /\ [][Next]_vars

NoTruncInv == FitsImpliesNoTruncation(Ty, V)
TightInv == Tight(Ty, V)
ASSUME \A i, j \in 1..Len(Types) :
          (Types[i].arch = Types[j].arch /\ Types[i].rtype = Types[j].rtype) => i = j
ASSUME \A i \in 1..Len(Types) : Types[i].insn # "" =>
          \E k \in 1..Len(Encodings) : Encodings[k].arch = Types[i].arch /\ Encodings[k].use = Types[i].insn

Rec == [arch |-> Ty.arch, name |-> Ty.name, rtype |-> Ty.rtype, sign |-> Ty.sign, n |-> Ty.n,
        size |-> Ty.size, insn |-> Ty.insn, lo |-> Ty.lo, hi |-> Ty.hi, align |-> Ty.align,
        v |-> V, fits |-> Fits(Ty, V), word |-> ExpectedWord(Ty, V),
        mask |-> IF Ty.insn = "" THEN 0..(8 * Ty.size - 1) ELSE Mask(Encodings[EncOf(Ty)]),
        op |-> IF Ty.insn = "" THEN {} ELSE Encodings[EncOf(Ty)].op]
Emit == PrintT(<<"REPLAY", ToJson(Rec)>>)

(* anti-vacuity: with R_X86_64_8 read as signed-only (the defect of the pinned tree) the table is
   no longer tight: 200 is rejected although the byte holds it *)
BrokenFits(t, X) == IF t.name = "R_X86_64_8" THEN FitsSigned(8, X) ELSE Fits(t, X)
BrokenTightInv == (Ty.sign # "none" /\ ~BrokenFits(Ty, V) /\ Aligned(Ty, V)) => ~NoTruncation(Ty, V)
=============================================================================
