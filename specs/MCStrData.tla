----------------------------- MODULE MCStrData -----------------------------
(* Enumerates all pairs of small string sections over the alphabet {1, 2} with the expected bytes of
   a reference at every offset: one REPLAY record per scenario. *)
EXTENDS StrData, TLC, Json

CONSTANT MaxStrings
Strs == {<<>>, <<1>>, <<2>>, <<1, 2>>, <<2, 1>>, <<1, 1>>, <<2, 2, 1>>}
Secs == UNION {[1..n -> Strs] : n \in 1..MaxStrings}

VARIABLES s1, s2
Init == s1 \in Secs /\ s2 \in Secs
Next == UNCHANGED <<s1, s2>>
Spec == Init /\ [][Next]_<<s1, s2>>

Rec == [s1 |-> s1, s2 |-> s2,
        e1 |-> [o \in Offsets(s1) |-> ExpectedAt(s1, o)],
        e2 |-> [o \in Offsets(s2) |-> ExpectedAt(s2, o)],
        distinct |-> Distinct({s1, s2})]
Emit == PrintT(<<"REPLAY", ToJson(Rec)>>)

(* sanity of the operators themselves *)
Sane == /\ \A o \in Offsets(s1) : LET e == ExpectedAt(s1, o) IN e[Len(e)] = 0 /\ \A k \in 1..(Len(e) - 1) : e[k] # 0
        /\ Len(Flatten(s1)) = Len(s1) + (LET RECURSIVE Sum(_) Sum(q) == IF q = <<>> THEN 0 ELSE Len(Head(q)) + Sum(Tail(q)) IN Sum(s1))
=============================================================================
