------------------------------ MODULE MCSymRes ------------------------------
(* Bounded instances of SymRes for TLC and the REPLAY record printed once per configuration. *)
EXTENDS SymRes, Json

NamesA == <<"a">>
NamesAB == <<"a", "b">>
NamesW == <<"__real_s", "__wrap_s", "s">>
NoWrapName == [x \in {} |-> ""]
WrapNameS == [x \in {"s"} |-> "__wrap_s"]
RealOfS == [x \in {"__real_s"} |-> "s"]

R(d, v) == [def |-> d, vis |-> v]
None == R("none", "default")
AllVis == {"default", "protected", "hidden"}
RegDefKinds == {"undef", "weakundef", "weak", "strong", "common4", "common8", "unique"}
(* every definition record of a regular file / of a shared object *)
RegRecsFull == {None} \cup {R(d, v) : d \in RegDefKinds, v \in AllVis}
RegRecsDefaultVis == {None} \cup {R(d, "default") : d \in RegDefKinds}
(* visibility only where it can matter for binding (references) + one hidden definition kind *)
RegRecsRep == RegRecsDefaultVis \cup {R("undef", "hidden"), R("weakundef", "hidden"), R("undef", "protected"),
                                       R("strong", "hidden"), R("weak", "protected")}
ShRecs == {None, R("undef", "default"), R("weak", "default"), R("strong", "default")}
RegKinds == {"obj", "member", "wmember"}
ShKinds == {"shared", "asneeded"}

File1(k, r) == [kind |-> k, syms |-> [n \in {"a"} |-> r]]
FilesA(regrecs) == {File1(k, r) : k \in RegKinds, r \in regrecs} \cup {File1(k, r) : k \in ShKinds, r \in ShRecs}
Seq2(S) == {<<x, y>> : x \in S, y \in S}
Seq3(S) == {<<x, y, z>> : x \in S, y \in S, z \in S}
Seq4(S) == {<<x, y, z, w>> : x \in S, y \in S, z \in S, w \in S}

(* C02 *)
PairFull == Seq2(FilesA(RegRecsFull))
PairDefault == Seq2(FilesA(RegRecsDefaultVis))
TripleRep == Seq3(FilesA(RegRecsRep))
TripleDefault == Seq3(FilesA(RegRecsDefaultVis))
(* a smaller triple family for the quick tier: no GNU_UNIQUE / second common size / wmember *)
RegRecsSmall == {None} \cup {R(d, "default") : d \in {"undef", "weakundef", "weak", "strong", "common4"}}
                 \cup {R("undef", "hidden")}
FilesSmall == {File1(k, r) : k \in {"obj", "member"}, r \in RegRecsSmall} \cup {File1("shared", r) : r \in ShRecs}
TripleSmall == Seq3(FilesSmall)

(* C03: two names, reference graphs over objects / members / whole-archive members *)
ArchRecs == {None} \cup {R(d, "default") : d \in {"undef", "weakundef", "strong"}}
ArchRecsW == ArchRecs \cup {R("weak", "default"), R("common4", "default")}
File2(k, ra, rb) == [kind |-> k, syms |-> [n \in {"a", "b"} |-> IF n = "a" THEN ra ELSE rb]]
FilesAB(kinds, recs) == {File2(k, ra, rb) : k \in kinds, ra \in recs, rb \in recs}
Arch3 == Seq3(FilesAB(RegKinds, ArchRecs))
Arch3W == Seq3(FilesAB({"obj", "member"}, ArchRecsW))
Arch4 == Seq4(FilesAB({"obj", "member"}, ArchRecs))
Arch2 == Seq2(FilesAB(RegKinds, ArchRecsW))

(* C33: S, __wrap_S, __real_S over three files *)
FileW(k, rs, rw, rr) == [kind |-> k, syms |-> [n \in {"__real_s", "__wrap_s", "s"} |->
                              IF n = "s" THEN rs ELSE IF n = "__wrap_s" THEN rw ELSE rr]]
SRecs == {None} \cup {R(d, "default") : d \in {"undef", "weakundef", "weak", "strong"}}
WRecs == {None} \cup {R(d, "default") : d \in {"undef", "strong"}}
RRecs == {None, R("undef", "default")}
FilesW == {FileW(k, rs, rw, rr) : k \in {"obj", "member"}, rs \in SRecs, rw \in WRecs, rr \in RRecs}
          \cup {FileW("shared", rs, None, None) : rs \in {None, R("strong", "default")}}
Wrap3 == Seq3(FilesW)
Wrap2 == Seq2(FilesW)

Opt(am, us, ws) == [allowMultiple |-> am, undefs |-> us, wrap |-> ws]
OptPlain == {Opt(FALSE, {}, {})}
OptMulti == {Opt(FALSE, {}, {}), Opt(TRUE, {}, {})}
OptUndef == {Opt(FALSE, {}, {}), Opt(FALSE, {"a"}, {})}
OptWrap == {Opt(FALSE, {}, {"s"})}

-----------------------------------------------------------------------------
ReplayRec ==
    [files |-> files,
     opts |-> opts,
     expect |-> RuleOutcome(files, opts),
     model |-> WOutcome(files, opts, AllQuirks),
     causes |-> QuirkCauses(files, opts),
     loadDiv |-> {f \in WLoaded(files, opts, AllQuirks) : ~Shared(files, f)}
                    # {f \in ScanLoaded(files, opts) : ~Shared(files, f)},
     shadow |-> ShadowClass(files),
     commonLazy |-> CommonLazyClass(files)]
EmitReplay == Done => PrintT(<<"REPLAY", ToJson(ReplayRec)>>)
=============================================================================
