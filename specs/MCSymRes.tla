------------------------------ MODULE MCSymRes ------------------------------
(* Bounded instances of SymRes for TLC and the REPLAY record printed once per configuration. *)
EXTENDS SymRes, Json

CONSTANT Family   \* which bounded family of configurations (TLC evaluates every zero-arity constant
                  \* definition eagerly, so the big sets are selected through an operator with a parameter)

NamesA == <<"a">>
NamesAB == <<"a", "b">>
NamesW == <<"__real_s", "__wrap_s", "s">>
NoWrapName == [x \in {} |-> ""]
WrapNameS == [x \in {"s"} |-> "__wrap_s"]
RealOfS == [x \in {"__real_s"} |-> "s"]

R(d, v) == [def |-> d, vis |-> v]
None == R("none", "default")
AllVis == {"default", "protected", "hidden"}
RegDefKinds == {"undef", "weakundef", "weak", "strong", "common4", "common8", "unique"}
(* every definition record of a regular file / of a shared object *)
RegRecsFull == {None} \cup {R(d, v) : d \in RegDefKinds, v \in AllVis}
RegRecsDefaultVis == {None} \cup {R(d, "default") : d \in RegDefKinds}
(* visibility only where it can matter for binding (references) + one hidden definition kind *)
RegRecsRep == RegRecsDefaultVis \cup {R("undef", "hidden"), R("weakundef", "hidden"), R("undef", "protected"),
                                       R("strong", "hidden"), R("weak", "protected")}
ShRecs == {None, R("undef", "default"), R("weak", "default"), R("strong", "default")}
RegKinds == {"obj", "member", "wmember"}
ShKinds == {"shared", "asneeded"}

File1(k, r) == [kind |-> k, syms |-> [n \in {"a"} |-> r]]
(* an as-needed library that is not linked contributes nothing, so its own references are left out *)
FilesA(regrecs) == {File1(k, r) : k \in RegKinds, r \in regrecs} \cup {File1("shared", r) : r \in ShRecs}
                   \cup {File1("asneeded", r) : r \in ShRecs \ {R("undef", "default")}}
Seq2(S) == {<<x, y>> : x \in S, y \in S}
Seq3(S) == {<<x, y, z>> : x \in S, y \in S, z \in S}
Seq4(S) == {<<x, y, z, w>> : x \in S, y \in S, z \in S, w \in S}

(* C02 *)
PairFull(x) == Seq2(FilesA(RegRecsFull))
PairDefault(x) == Seq2(FilesA(RegRecsDefaultVis))
TripleRep(x) == Seq3(FilesA(RegRecsRep))
TripleDefault(x) == Seq3(FilesA(RegRecsDefaultVis))
(* a smaller triple family for the quick tier: no GNU_UNIQUE / second common size / wmember *)
RegRecsSmall == {None} \cup {R(d, "default") : d \in {"undef", "weakundef", "weak", "strong", "common4"}}
                 \cup {R("undef", "hidden")}
FilesSmall == {File1(k, r) : k \in {"obj", "member"}, r \in RegRecsSmall} \cup {File1("shared", r) : r \in ShRecs}
TripleSmall(x) == Seq3(FilesSmall)

(* pairs in which duplicates can arise, for --allow-multiple-definition *)
PairDup(x) == Seq2({File1(k, r) : k \in RegKinds, r \in {R(d, "default") : d \in {"strong", "unique", "weak", "common4", "undef"}}})
(* three sizes of COMMON definitions of one name in every order (with weak definitions and references in
   between): the largest must win whatever the order - 3 files (quick) and 4 files (thorough) *)
CommonRecs == {None} \cup {R(d, "default") : d \in {"undef", "weak", "common4", "common8", "common16"}}
Common3(x) == Seq3({File1("obj", r) : r \in CommonRecs})
Common4(x) == Seq4({File1("obj", r) : r \in CommonRecs})
(* a tiny family used with TLC's (slow) coverage statistics to show that every action is exercised *)
Tiny(x) == Seq3({File1(k, r) : k \in {"obj", "member"}, r \in {None, R("undef", "default"), R("strong", "default")}})

(* C03: two names, reference graphs over objects / members / whole-archive members *)
ArchRecs == {None} \cup {R(d, "default") : d \in {"undef", "weakundef", "strong"}}
ArchRecsW == ArchRecs \cup {R("weak", "default"), R("common4", "default")}
File2(k, ra, rb) == [kind |-> k, syms |-> [n \in {"a", "b"} |-> IF n = "a" THEN ra ELSE rb]]
FilesAB(kinds, recs) == {File2(k, ra, rb) : k \in kinds, ra \in recs, rb \in recs}
ArchRecsQ == {None, R("undef", "default"), R("strong", "default")}
(* quick: every reference graph over three objects/members and two names *)
Arch3Q(x) == Seq3(FilesAB({"obj", "member"}, ArchRecsQ))
(* roots (-u), weak references and whole-archive members on two files *)
(* (-u a with `a` defined nowhere turns weak references to `a` into errors in ld/lld: outside C03, left out) *)
Arch2U(x) == {fs \in Seq2(FilesAB(RegKinds, ArchRecs)) : \E f \in 1..2 : IsDefKind(fs[f].syms["a"].def)}
(* thorough: weak references added to the three-file graphs; chains object -> member -> member -> member *)
Arch3T(x) == Seq3(FilesAB({"obj", "member"}, ArchRecs))
Arch4C(x) == {<<o, m1, m2, m3>> : o \in FilesAB({"obj"}, ArchRecsQ), m1 \in FilesAB({"member"}, ArchRecsQ),
                                  m2 \in FilesAB({"member"}, ArchRecsQ), m3 \in FilesAB({"member"}, ArchRecsQ)}
Arch3(x) == Seq3(FilesAB(RegKinds, ArchRecs))
Arch3W(x) == Seq3(FilesAB({"obj", "member"}, ArchRecsW))
Arch4(x) == Seq4(FilesAB({"obj", "member"}, ArchRecs))
Arch2(x) == Seq2(FilesAB(RegKinds, ArchRecsW))

(* C33: S, __wrap_S, __real_S over three files *)
FileW(k, rs, rw, rr) == [kind |-> k, syms |-> [n \in {"__real_s", "__wrap_s", "s"} |->
                              IF n = "s" THEN rs ELSE IF n = "__wrap_s" THEN rw ELSE rr]]
SRecs == {None} \cup {R(d, "default") : d \in {"undef", "weakundef", "weak", "strong"}}
WRecs == {None} \cup {R(d, "default") : d \in {"undef", "strong"}}
RRecs == {None, R("undef", "default")}
FilesW == {FileW(k, rs, rw, rr) : k \in {"obj", "member"}, rs \in SRecs, rw \in WRecs, rr \in RRecs}
          \cup {FileW("shared", rs, None, None) : rs \in {None, R("strong", "default")}}
FW(kinds) == {FileW(k, rs, rw, rr) : k \in kinds, rs \in SRecs \ {R("weak", "default")}, rw \in WRecs, rr \in RRecs}
ShW == {FileW("shared", rs, None, None) : rs \in {None, R("strong", "default")}}
Wrap3T(x) == {<<x1, x2, x3>> : x1 \in FW({"obj"}), x2 \in FW({"obj", "member"}), x3 \in FW({"member"}) \cup ShW}
Wrap3(x) == Seq3(FilesW)
Wrap2(x) == Seq2(FilesW)

SpaceOf(fam) ==
    CASE fam = "PairFull" -> PairFull(0)
      [] fam = "PairDefault" -> PairDefault(0)
      [] fam = "TripleRep" -> TripleRep(0)
      [] fam = "TripleDefault" -> TripleDefault(0)
      [] fam = "TripleSmall" -> TripleSmall(0)
      [] fam = "Arch3" -> Arch3(0)
      [] fam = "Arch3W" -> Arch3W(0)
      [] fam = "Arch4" -> Arch4(0)
      [] fam = "Arch2" -> Arch2(0)
      [] fam = "Wrap3" -> Wrap3(0)
      [] fam = "Wrap2" -> Wrap2(0)
      [] fam = "PairDup" -> PairDup(0)
      [] fam = "Tiny" -> Tiny(0)
      [] fam = "Common3" -> Common3(0)
      [] fam = "Common4" -> Common4(0)
      [] fam = "Arch3Q" -> Arch3Q(0)
      [] fam = "Arch2U" -> Arch2U(0)
      [] fam = "Arch3T" -> Arch3T(0)
      [] fam = "Arch4C" -> Arch4C(0)
      [] fam = "Wrap3T" -> Wrap3T(0)
MCSpace == SpaceOf(Family)

Opt(am, us, ws) == [allowMultiple |-> am, undefs |-> us, wrap |-> ws]
OptPlain == {Opt(FALSE, {}, {})}
OptMulti == {Opt(FALSE, {}, {}), Opt(TRUE, {}, {})}
OptAllow == {Opt(TRUE, {}, {})}
OptUndef == {Opt(FALSE, {}, {}), Opt(FALSE, {"a"}, {})}
OptRootA == {Opt(FALSE, {"a"}, {})}
OptWrap == {Opt(FALSE, {}, {"s"})}

-----------------------------------------------------------------------------
(* Evaluated once per configuration (in the state right after Start): the theorems, then the
   REPLAY record with the rule's prediction (expect) and the prediction of wild-as-coded (model). *)
PerConfig ==
    IsInitial =>
        LET an == Analysis(files, opts, want)
        IN /\ Theorems(an)
           /\ PrintT(<<"REPLAY", ToJson([files |-> files, opts |-> opts, expect |-> an.rule, model |-> an.model,
                                        causes |-> an.causes, loadDiv |-> an.loadDiv, shadow |-> an.shadow,
                                        commonLazy |-> an.commonLazy, visShared |-> an.visShared])>>)
(* C03: position independence of the fixpoint, per configuration *)
PosIndep == IsInitial => PositionIndependent(files, opts)
(* the same without printing *)
PerConfigQuiet == IsInitial => Theorems(Analysis(files, opts, want))
=============================================================================
