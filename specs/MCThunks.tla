------------------------------ MODULE MCThunks ------------------------------
(* Model-checking instance of Thunks: all object sequences over the given sizes (scaled: R = 8 stands
   for 126 MiB, Slack = 2 for 2 MiB).  Every completed run prints a REPLAY record (objects, R, the
   model's block assignment) that the harness replays into the real thunks::assign_thunk_blocks with
   the same small numbers (the range is a parameter of the real function). *)
EXTENDS Thunks, TLC, Json

Rec == [R |-> R, objects |-> [i \in 1..N |-> <<objs[i].s, objs[i].e>>], num_blocks |-> nBlocks,
        final |-> [i \in 1..N |-> <<asg[i].b, asg[i].own>>]]
Emit == Done => PrintT(<<"REPLAY", ToJson(Rec)>>)
=============================================================================
