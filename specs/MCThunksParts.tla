---------------------------- MODULE MCThunksParts ----------------------------
(* Model-checking instance of ThunksParts.  One REPLAY record per size vector (taken at the smallest
   primary part): the class sizes, the model's N (with Counted = "all") and the side of every class;
   the harness replays it into the real compute_non_primary_text_size / output order. *)
EXTENDS ThunksParts, TLC, Json

Rec == [sizes |-> sz, N |-> N, B |-> B,
        before |-> [k \in Classes |-> Before(k)], id_below |-> [k \in Classes |-> IdBelow(k)]]
Emit == (P = 1 /\ cs = 0 /\ ce = 1) => PrintT(<<"REPLAY", ToJson(Rec)>>)
=============================================================================
