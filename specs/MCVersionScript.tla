-------------------------- MODULE MCVersionScript --------------------------
(* Bounded enumeration for VersionScript.tla (C32): <= 3 nodes, <= 2 patterns per list, 6 patterns
   and 4 symbol names over the alphabet {a, b}. *)
EXTENDS VersionScript

Syms == { <<"a">>, <<"b">>, <<"a", "b">>, <<"b", "a">> }
Pat == { <<"a">>, <<"a", "b">>, <<"a", "*">>, <<"?", "b">>, <<"*", "b">>, <<"*">> }
PatCode(p) == CASE p = <<"a">> -> 1 [] p = <<"a", "b">> -> 2 [] p = <<"a", "*">> -> 4
                [] p = <<"?", "b">> -> 8 [] p = <<"*", "b">> -> 16 [] p = <<"*">> -> 32
RECURSIVE SetCode(_)
SetCode(T) == IF T = {} THEN 0 ELSE LET p == CHOOSE x \in T : TRUE IN PatCode(p) + SetCode(T \ {p})

UpTo(k) == {T \in SUBSET Pat : Cardinality(T) <= k}
Mix(x, c) == (x % 1000003) * 67 + c

Node(g, l, par) == [g |-> g, l |-> l, parent |-> par]

Init1(k) ==
    \E g \in UpTo(k), l \in UpTo(k), anon \in BOOLEAN :
       /\ g \cap l = {}
       /\ InitWith([idx |-> Mix(Mix(SetCode(g), SetCode(l)), IF anon THEN 1 ELSE 0),
                    nodes |-> <<Node(g, l, 0)>>, anon |-> anon])

Init2(k1, k2) ==
    \E g1 \in UpTo(k1), l1 \in UpTo(k1), g2 \in UpTo(k2), l2 \in UpTo(k2) :
       LET idx == Mix(Mix(Mix(SetCode(g1), SetCode(l1)), SetCode(g2)), SetCode(l2))
           nodes == <<Node(g1, l1, 0), Node(g2, l2, idx % 2)>>
       IN WellFormed(nodes) /\ InitWith([idx |-> idx, nodes |-> nodes, anon |-> FALSE])

Init3(k) ==
    \E g1 \in UpTo(k), l1 \in UpTo(k), g2 \in UpTo(k), l2 \in UpTo(k), g3 \in UpTo(k), l3 \in UpTo(k) :
       LET idx == Mix(Mix(Mix(Mix(Mix(SetCode(g1), SetCode(l1)), SetCode(g2)), SetCode(l2)), SetCode(g3)), SetCode(l3))
           nodes == <<Node(g1, l1, 0), Node(g2, l2, idx % 2), Node(g3, l3, (idx \div 2) % 3)>>
       IN WellFormed(nodes) /\ InitWith([idx |-> idx, nodes |-> nodes, anon |-> FALSE])

(* three nodes, every node has at most one pattern in total *)
Init3Single ==
    \E n1 \in {x \in UpTo(1) \X UpTo(1) : x[1] = {} \/ x[2] = {}},
       n2 \in {x \in UpTo(1) \X UpTo(1) : x[1] = {} \/ x[2] = {}},
       n3 \in {x \in UpTo(1) \X UpTo(1) : x[1] = {} \/ x[2] = {}} :
       LET idx == Mix(Mix(Mix(Mix(Mix(SetCode(n1[1]), SetCode(n1[2])), SetCode(n2[1])), SetCode(n2[2])), SetCode(n3[1])), SetCode(n3[2]))
           nodes == <<Node(n1[1], n1[2], 0), Node(n2[1], n2[2], idx % 2), Node(n3[1], n3[2], (idx \div 2) % 3)>>
       IN WellFormed(nodes) /\ InitWith([idx |-> idx, nodes |-> nodes, anon |-> FALSE])

Next == Assign(Syms)
InitQuick == Init1(2) \/ Init2(1, 1) \/ Init3Single
InitThorough == Init1(2) \/ Init2(2, 2) \/ Init3(1)
InitTiny == Init2(1, 1)
SpecQuick == InitQuick /\ [][Next]_vars
SpecThorough == InitThorough /\ [][Next]_vars
SpecTiny == InitTiny /\ [][Next]_vars

Agrees == AgreesOrKnown(Syms)
Strict == AgreesStrictly(Syms)
Facts == RuleFacts(Syms)
Replay == EmitReplay(Syms)
(* anti-vacuity: a wrong precedence (first matching node wins for globs) must be refuted *)
BrokenRule == phase = "done" =>
    \A s \in Syms : LET hits == {i \in 1..N : \E p \in Nodes[i].g : IsGlob(p) /\ GlobMatch(p, s)}
                    IN (Gnu(s).tier = "glob" /\ Gnu(s).cls = "global") => Gnu(s).node = Min(hits)
=============================================================================
