------------------------------ MODULE MCWord64 ------------------------------
(* Self-test of the 64-bit word arithmetic (Word64.tla) that Expr.tla and X86Relax.tla rest on:
   ring laws, order, and the defining equations of unsigned and signed division
   (q*b + r = a, |r| < |b|, sign of r = sign of a) over boundary values, exercising the short, the
   aligned long and the trivial division paths. *)
EXTENDS Word64, TLC, FiniteSets
Samples ==
  {WZero, WOne, WFromNat(2), WFromNat(3), WFromNat(65), WFromNat(8388607), WFromNat(8388608),
   WPow2(31), WPow2(32), <<1, 2, 3, 4, 5, 6, 7, 8>>, WNot(WPow2(63)), WPow2(63), WAllOnes, WNeg(WFromNat(6))}
ASSUME WSelfTest(Samples)
ASSUME PrintT(<<"WORD64-SELFTEST-OK", Cardinality(Samples)>>)
VARIABLE x
Init == x = 0
Next == UNCHANGED x
=============================================================================
