----------------------------- MODULE MCX86Relax -----------------------------
(* Case table for C14: every form x relocation style x register x symbol kind x output kind x value
   class; SafeTable is checked on every case, and each case is printed with the specified effect and
   the prediction of the model of wild. *)
EXTENDS X86Relax, TLC, Json

CONSTANTS Regs, ValueNames, UseOps

VARIABLES f, style, reg, kind, out, vname, phase
vars == <<f, style, reg, kind, out, vname, phase>>

ValueOf(n) ==
  CASE n = "0x1000" -> WFromNat(4096)
    [] n = "0x10000" -> WFromNat(65536)
    [] n = "0x7fffffff" -> WNot(WOr(WShl(WAllOnes, 31), WZero))
    [] n = "0x80000000" -> WPow2(31)
    [] n = "0xffffffff" -> WZext32(WAllOnes)
    [] n = "0x100000000" -> WPow2(32)
    [] n = "0xffffffff80000000" -> WSext32(WPow2(31))
    [] n = "0x7ffffffff000" -> WSub(WPow2(47), WFromNat(4096))
    [] n = "0" -> WZero
    [] n = "addr" -> WFromNat(4198400)        \* some address inside the image (0x401000): low, fits
(* an arbitrary non-zero page-aligned load bias for the PIE cases *)
SomeBias == WShl(WFromNat(21845), 28)

MyForms == {x \in Forms : x.op \in UseOps}
(* two-level enumeration so that TLC workers share the work: first pick the form, then the rest *)
Init == /\ f \in MyForms /\ phase = 0
        /\ style = "x" /\ reg = 0 /\ kind = "abs" /\ out = "exe" /\ vname = "0x1000"
Pick == /\ phase = 0 /\ phase' = 1 /\ UNCHANGED f
        /\ style' \in RelocStyles
        /\ reg' \in (IF f.op \in {"call", "jmp"} THEN {0} ELSE Regs)
        /\ kind' \in SymKinds
        /\ out' \in Outs
        /\ vname' \in (IF kind' = "abs" THEN ValueNames ELSE IF kind' = "weak0" THEN {"0"} ELSE {"addr"})
Spec == Init /\ [][Pick]_vars

S == ValueOf(vname)
Bias == IF out = "pie" THEN SomeBias ELSE NoBias

(* the side conditions of the psABI table imply safety, for every case *)
SafeTable ==
  phase = 1 =>
    LET r == PsABI(f, style, kind, out, S)
    IN Safe(r[1], r[2], f, S, BiasFor(kind, out, Bias))
(* anti-vacuity: the model of wild is NOT safe everywhere (TLC must find a counterexample) *)
WildSafe ==
  phase = 1 =>
    LET r == Wild(f, style, reg, kind, out)
    IN Safe(r[1], r[2], f, S, BiasFor(kind, out, Bias))

Rec ==
  LET w == Wild(f, style, reg, kind, out)
      p == PsABI(f, style, kind, out, S)
  IN [op |-> f.op, w |-> f.w, style |-> style, reg |-> reg, kind |-> kind, out |-> out, value |-> vname,
      effect |-> Effect(f, S),
      wild |-> [rw |-> w[1], chk |-> w[2], accepts |-> Accepts(w[2], S),
                safe |-> Safe(w[1], w[2], f, S, BiasFor(kind, out, Bias))],
      psabi |-> [rw |-> p[1], chk |-> p[2]]]
Emit == phase = 1 => PrintT(<<"REPLAY", ToJson(Rec)>>)
=============================================================================
