------------------------------ MODULE MCX86Tls ------------------------------
(* TLS part of the C14 case table: form x destination register (initial-exec forms) x variable
   (first / second / far / initialised) x output kind; TlsSafe checked for sample thread pointers and
   offsets, each case printed. *)
EXTENDS X86Relax, TLC, Json
CONSTANTS IeRegs, Vars
VARIABLES form, reg, var, out, phase
vars == <<form, reg, var, out, phase>>
Init == form \in TlsForms /\ phase = 0 /\ reg = 0 /\ var = "x0" /\ out = "exe"
Pick == /\ phase = 0 /\ phase' = 1 /\ UNCHANGED form
        /\ reg' \in (IF form \in {"ie-mov", "ie-add"} THEN IeRegs ELSE {0})
        /\ var' \in Vars /\ out' \in Outs
Spec == Init /\ [][Pick]_vars
Tps == {WShl(WFromNat(21845), 28), WSub(WPow2(47), WFromNat(4096))}
Offs == {WNeg(WFromNat(8)), WNeg(WFromNat(4112)), WNeg(WPow2(31)), WNeg(WAdd(WPow2(31), WOne)), WFromNat(16)}
TlsSafeAll == \A tp \in Tps, off \in Offs : TlsSafe(form, tp, off)
(* anti-vacuity: without the side condition the rewrite is not safe *)
TlsSafeUnconditional == \A tp \in Tps, off \in Offs : TlsAfter(form, tp, off) = TlsEffect(form, tp, off)
Emit == phase = 1 => PrintT(<<"REPLAY", ToJson([form |-> form, reg |-> reg, var |-> var, out |-> out])>>)
=============================================================================
