------------------------------- MODULE Needed -------------------------------
(***************************************************************************)
(* C37 - DT_NEEDED lists exactly the required libraries.                   *)
(*                                                                         *)
(* A configuration is a link line: a sequence of tokens                    *)
(*    --as-needed | --no-as-needed | --push-state | --pop-state | <file>   *)
(* over files that are regular objects, archive members or shared          *)
(* libraries; every file has the names it defines, references strongly and *)
(* references weakly.                                                      *)
(*                                                                         *)
(* Three definitions of the DT_NEEDED sequence are given and compared:     *)
(*                                                                         *)
(*  NeededFinal  the property text, order independent: command-line order  *)
(*               of { libs not under --as-needed } \cup { as-needed libs   *)
(*               that supply the definition a non-weak reference of a      *)
(*               loaded regular object is finally bound to }.  (This is    *)
(*               also what lld implements; the harness checks that.)       *)
(*  NeededGnu    GNU ld's sequential scan (the property's stated           *)
(*               reference): an as-needed library is kept iff *at the      *)
(*               point it is scanned* it defines a name that is strongly   *)
(*               referenced by a regular object seen so far and not yet    *)
(*               defined; otherwise none of its symbols enter the link.    *)
(*               The link fails if a strong reference stays undefined.     *)
(*  the operational model: a transcription of wild                         *)
(*               (args/elf.rs modifier stack; grouping.rs is_optional;     *)
(*               resolution.rs resolve_symbol: a non-weak reference from   *)
(*               a non-dynamic file requests the file of the FIRST         *)
(*               definition of the name in command-line order;             *)
(*               elf_writer.rs write_so_name for every loaded dynamic      *)
(*               file, in file order).                                     *)
(*                                                                         *)
(* wild conforms if its DT_NEEDED equals NeededFinal, or equals NeededGnu  *)
(* when GNU ld links the input (the two references legitimately differ on  *)
(* order dependent inputs).  TLC checks for every configuration that the   *)
(* operational model conforms OR the configuration lies in the precisely   *)
(* characterised deviation class DevFirstDefOverridden (recorded finding). *)
(***************************************************************************)
EXTENDS Integers, Sequences, FiniteSets, TLC, Json

CONSTANTS Emit,      \* BOOLEAN: print REPLAY records from terminal states
          Stride,    \* print about one record in Stride ...
          Seed       \* ... selected by a hash of (idx, Seed)

VARIABLES cfg,      \* the configuration (never changes)
          pc,       \* "parse" | "resolve" | "done" | "error"
          pos,      \* next token
          stack,    \* wild's modifier stack (as_needed component)
          asn,      \* asn[f]: modifiers.as_needed recorded for file f
          order,    \* files in command-line order
          loaded,   \* set of loaded files
          result    \* DT_NEEDED as written (sequence of file ids)

vars == <<cfg, pc, pos, stack, asn, order, loaded, result>>

Toks == cfg.tokens
Files == cfg.files
FileIds == 1..Len(cfg.files)
Kind(f) == cfg.files[f].kind
Defs(f) == cfg.files[f].defs
Strong(f) == cfg.files[f].strong
Weak(f) == cfg.files[f].weak
Libs == {f \in FileIds : Kind(f) = "lib"}
Objs == {f \in FileIds : Kind(f) = "obj"}
Members == {f \in FileIds : Kind(f) = "member"}
AllNames == UNION {Defs(f) \cup Strong(f) \cup Weak(f) : f \in FileIds}

Min(S) == CHOOSE x \in S : \A y \in S : x <= y
Max(S) == CHOOSE x \in S : \A y \in S : x >= y

-----------------------------------------------------------------------------
(* Declarative part 1: the modifier state of a file, read off the token sequence without a stack. *)

(* nesting depth after the first k tokens (relative to the initial state) *)
RECURSIVE Depth(_)
Depth(k) == IF k = 0 THEN 0
            ELSE Depth(k - 1) + (CASE Toks[k].t = "push" -> 1 [] Toks[k].t = "pop" -> -1 [] OTHER -> 0)

ValidTokens == \A k \in 1..Len(Toks) : Depth(k) >= 0
FirstBadPop == Min({k \in 1..Len(Toks) : Depth(k) < 0})

(* the --pop-state at b closes the --push-state at a *)
Matched(a, b) ==
    /\ a < b /\ Toks[a].t = "push" /\ Toks[b].t = "pop"
    /\ Depth(a - 1) = Depth(b)
    /\ \A k \in a..(b - 1) : Depth(k) > Depth(b)

(* a flag at q is invisible from p when it sits inside a push/pop pair closed before p *)
HiddenFrom(q, p) == \E a \in 1..(q - 1), b \in (q + 1)..(p - 1) : Matched(a, b)

TokPos(f) == CHOOSE p \in 1..Len(Toks) : Toks[p].t = "file" /\ Toks[p].f = f

AsnDecl(f) ==
    LET p == TokPos(f)
        vis == {q \in 1..(p - 1) : Toks[q].t \in {"as", "noas"} /\ ~HiddenFrom(q, p)}
    IN IF vis = {} THEN FALSE ELSE Toks[Max(vis)].t = "as"

OrderDecl == LET ps == {p \in 1..Len(Toks) : Toks[p].t = "file"}
                 RECURSIVE Build(_)
                 Build(S) == IF S = {} THEN <<>> ELSE <<Toks[Min(S)].f>> \o Build(S \ {Min(S)})
             IN Build(ps)

PosIn(seq, f) == CHOOSE k \in 1..Len(seq) : seq[k] = f

-----------------------------------------------------------------------------
(* Declarative part 2: the property (order independent). *)

(* regular files that take part in the link: all objects, and archive members that define a name
   some loaded regular file references strongly and no object defines (least fixpoint) *)
RECURSIVE LoadedRegFrom(_)
LoadedRegFrom(L) ==
    LET add == {m \in Members \ L : \E g \in L : \E n \in Strong(g) \cap Defs(m) :
                                       ~\E o \in L : n \in Defs(o)}
    IN IF add = {} THEN L ELSE LoadedRegFrom(L \cup add)
LoadedReg == LoadedRegFrom(Objs)

RegDef(n) == \E g \in LoadedReg : n \in Defs(g)

FirstIn(seq, S) == IF \E k \in 1..Len(seq) : seq[k] \in S
                   THEN seq[Min({k \in 1..Len(seq) : seq[k] \in S})] ELSE 0

FirstLib(n) == FirstIn(OrderDecl, {l \in Libs : n \in Defs(l)})

(* l supplies the final binding of a non-weak reference from the output *)
Satisfies(l) == \E g \in LoadedReg : \E n \in Strong(g) : ~RegDef(n) /\ FirstLib(n) = l

NeededSetFinal == {l \in Libs : ~AsnDecl(l) \/ Satisfies(l)}
NeededFinal == SelectSeq(OrderDecl, LAMBDA f : f \in NeededSetFinal)

-----------------------------------------------------------------------------
(* Declarative part 3: GNU ld's sequential scan. *)

GnuEmpty == [defReg |-> {}, defDyn |-> {}, refS |-> {}, needed |-> {}]

GnuAddReg(s, f) == [s EXCEPT !.defReg = @ \cup Defs(f), !.refS = @ \cup Strong(f)]

GnuStep(s, f) ==
    LET undef == (s.refS \ s.defReg) \ s.defDyn IN
    CASE Kind(f) = "obj" -> GnuAddReg(s, f)
      [] Kind(f) = "member" -> IF Defs(f) \cap undef # {} THEN GnuAddReg(s, f) ELSE s
      [] Kind(f) = "lib" ->
            IF ~AsnDecl(f) \/ Defs(f) \cap undef # {}
            THEN [s EXCEPT !.defDyn = @ \cup Defs(f), !.needed = @ \cup {f}]
            ELSE s

RECURSIVE GnuScan(_)
GnuScan(k) == IF k = 0 THEN GnuEmpty ELSE GnuStep(GnuScan(k - 1), OrderDecl[k])

GnuFinal == GnuScan(Len(OrderDecl))
GnuFails == (GnuFinal.refS \ GnuFinal.defReg) \ GnuFinal.defDyn # {}
NeededGnu == SelectSeq(OrderDecl, LAMBDA f : f \in GnuFinal.needed)

-----------------------------------------------------------------------------
(* Operational model (wild). *)

Top == stack[Len(stack)]

(* The MC module enumerates configurations c (records [idx, tokens, files]) lazily:
   Init is  \E <parameters> : WellFormed /\ InitWith(<configuration built from the parameters>). *)
InitWith(c) ==
    /\ cfg = c
    /\ pc = "parse" /\ pos = 1
    /\ stack = <<FALSE>>                                   \* Modifiers::default().as_needed
    /\ asn = [f \in 1..Len(cfg.files) |-> FALSE]
    /\ order = <<>> /\ loaded = {} /\ result = <<>>

ParseTok ==
    /\ pc = "parse" /\ pos <= Len(Toks)
    /\ pos' = pos + 1
    /\ LET tk == Toks[pos] IN
       CASE tk.t = "as" ->
              /\ stack' = [stack EXCEPT ![Len(stack)] = TRUE]
              /\ UNCHANGED <<pc, asn, order>>
         [] tk.t = "noas" ->
              /\ stack' = [stack EXCEPT ![Len(stack)] = FALSE]
              /\ UNCHANGED <<pc, asn, order>>
         [] tk.t = "push" ->
              /\ stack' = Append(stack, Top)
              /\ UNCHANGED <<pc, asn, order>>
         [] tk.t = "pop" ->
              (* modifier_stack.pop(); if modifier_stack.is_empty() { bail!("Mismatched --pop-state") } *)
              /\ stack' = SubSeq(stack, 1, Len(stack) - 1)
              /\ pc' = IF Len(stack) = 1 THEN "error" ELSE pc
              /\ UNCHANGED <<asn, order>>
         [] tk.t = "file" ->
              /\ asn' = [asn EXCEPT ![tk.f] = Top]
              /\ order' = Append(order, tk.f)
              /\ UNCHANGED <<pc, stack>>
    /\ UNCHANGED <<cfg, loaded, result>>

(* grouping.rs: is_optional *)
Optional(f) == Kind(f) = "member" \/ (Kind(f) = "lib" /\ asn[f])

ParseEnd ==
    /\ pc = "parse" /\ pos > Len(Toks)
    /\ pc' = "resolve"
    /\ loaded' = {f \in FileIds : ~Optional(f)}
    /\ UNCHANGED <<cfg, pos, stack, asn, order, result>>

(* symbol_db: name_to_id holds the first definition in file order, whatever kind of file it is in *)
FirstDef(n) == FirstIn(order, {f \in FileIds : n \in Defs(f)})

(* resolution.rs resolve_symbol: symbol_file_id != file_id && !is_weak, and not dynamic -> dynamic *)
Requests(f, n) ==
    /\ f \in loaded /\ n \in Strong(f)
    /\ FirstDef(n) # 0 /\ FirstDef(n) # f
    /\ (Kind(f) # "lib" \/ Kind(FirstDef(n)) # "lib")

LoadOne ==
    /\ pc = "resolve"
    /\ \E f \in loaded, n \in AllNames :
          /\ Requests(f, n) /\ FirstDef(n) \notin loaded
          /\ loaded' = loaded \cup {FirstDef(n)}
    /\ UNCHANGED <<cfg, pc, pos, stack, asn, order, result>>

Finish ==
    /\ pc = "resolve"
    /\ ~\E f \in loaded, n \in AllNames : Requests(f, n) /\ FirstDef(n) \notin loaded
    /\ pc' = "done"
    (* write_dynamic_file -> write_so_name for each loaded dynamic file, in file order *)
    /\ result' = SelectSeq(order, LAMBDA f : Kind(f) = "lib" /\ f \in loaded)
    /\ UNCHANGED <<cfg, pos, stack, asn, order, loaded>>

Next == ParseTok \/ ParseEnd \/ LoadOne \/ Finish
SpecFrom(init) == init /\ [][Next]_vars /\ WF_vars(Next)

Terminal == pc \in {"done", "error"}

-----------------------------------------------------------------------------
(* Properties. *)

TypeOK ==
    /\ pc \in {"parse", "resolve", "done", "error"}
    /\ pos \in 1..(Len(Toks) + 1)
    /\ loaded \subseteq FileIds

(* the stack machine computes the declarative modifier state, and fails exactly on an unbalanced pop *)
StackRefinesDecl ==
    /\ pc = "error" => (~ValidTokens /\ pos = FirstBadPop + 1)
    /\ pc \in {"resolve", "done"} =>
          /\ ValidTokens
          /\ order = OrderDecl
          /\ \A f \in FileIds : asn[f] = AsnDecl(f)

(* the two references agree on everything that is not order dependent *)
RefsAgreeOnUnconditional ==
    pc = "done" =>
       /\ \A l \in Libs : ~AsnDecl(l) => (l \in NeededSetFinal /\ l \in GnuFinal.needed)
       /\ \A l \in Libs : (AsnDecl(l) /\ ~\E g \in FileIds, n \in Defs(l) : Kind(g) # "lib" /\ n \in Strong(g))
                              => (l \notin NeededSetFinal /\ l \notin GnuFinal.needed)

Conforms == result = NeededFinal \/ (~GnuFails /\ result = NeededGnu)

(* the deviation class: an as-needed library is the first definer of a name on the command line,
   a loaded regular object defines the same name (so the reference is not bound to the library),
   and another loaded regular object references the name strongly *)
DevFirstDefOverridden ==
    \E l \in Libs, n \in AllNames :
       /\ AsnDecl(l) /\ n \in Defs(l) /\ FirstIn(OrderDecl, {f \in FileIds : n \in Defs(f)}) = l
       /\ RegDef(n)
       /\ \E g \in LoadedReg : n \in Strong(g)

OperationalConformsOrKnownClass == pc = "done" => (Conforms \/ DevFirstDefOverridden)

(* without a name defined both by a library and by a regular file the model is exactly the property *)
NoMixedDefs == ~\E n \in AllNames : (\E l \in Libs : n \in Defs(l)) /\ (\E g \in FileIds \ Libs : n \in Defs(g))
ExactWithoutMixedDefs == (pc = "done" /\ NoMixedDefs) => result = NeededFinal

(* confluence: the set of loaded files at the end does not depend on the request order *)
LoadedIsClosure ==
    pc = "done" => \A f \in loaded, n \in AllNames : Requests(f, n) => FirstDef(n) \in loaded

Termination == <>Terminal

-----------------------------------------------------------------------------
(* REPLAY records for the harness. *)

Hash(i) == LET a == (i + Seed * 7 + 13) % 46337
               h == (a * a) % 46337
           IN ((h + (i \div 46337) + Seed) * 31337) % 46337

Sampled == Stride <= 1 \/ Hash(cfg.idx) % Stride = 0

Rec ==
    [idx |-> cfg.idx,
     tokens |-> cfg.tokens,
     files |-> cfg.files,
     outcome |-> pc,
     asn |-> IF pc = "done" THEN [f \in FileIds |-> AsnDecl(f)] ELSE <<>>,
     wild_op |-> result,
     final |-> IF pc = "done" THEN NeededFinal ELSE <<>>,
     gnu_fails |-> IF pc = "done" THEN GnuFails ELSE TRUE,
     gnu |-> IF pc = "done" /\ ~GnuFails THEN NeededGnu ELSE <<>>,
     conforms |-> IF pc = "done" THEN Conforms ELSE TRUE,
     dev |-> IF pc = "done" THEN DevFirstDefOverridden ELSE FALSE]

EmitReplay == (Terminal /\ Emit /\ Sampled) => PrintT(<<"REPLAY", ToJson(Rec)>>)
=============================================================================
