------------------------------- MODULE Needed -------------------------------
(***************************************************************************)
(* C37 - DT_NEEDED lists exactly the required libraries.                   *)
(*                                                                         *)
(* A configuration is a link line: a sequence of tokens                    *)
(*    --as-needed | --no-as-needed | --whole-archive | --no-whole-archive  *)
(*    | --push-state | --pop-state | <file>                                *)
(* over files that are regular objects, archive members or shared          *)
(* libraries; every file has the names it defines, references strongly and *)
(* references weakly.                                                      *)
(*                                                                         *)
(* Three definitions of the DT_NEEDED sequence are given and compared:     *)
(*                                                                         *)
(*  NeededFinal  the property text, order independent: command-line order  *)
(*               of { libs not under --as-needed } \cup { as-needed libs   *)
(*               that supply the definition a non-weak reference of a      *)
(*               loaded regular object is finally bound to }.  (This is    *)
(*               also what lld implements; the harness checks that.)       *)
(*  NeededGnu    GNU ld's sequential scan (the property's stated           *)
(*               reference): an as-needed library is kept iff *at the      *)
(*               point it is scanned* it defines a name that is strongly   *)
(*               referenced by a regular object seen so far and not yet    *)
(*               defined; otherwise none of its symbols enter the link.    *)
(*               The link fails if a strong reference stays undefined.     *)
(*  the operational model: a transcription of wild                         *)
(*               (args/elf.rs modifier stack; grouping.rs is_optional;     *)
(*               resolution.rs resolve_symbol: a non-weak reference from   *)
(*               a non-dynamic file requests the file of the FIRST         *)
(*               definition of the name in command-line order;             *)
(*               elf_writer.rs write_so_name for every loaded dynamic      *)
(*               file, in file order).                                     *)
(*                                                                         *)
(* wild conforms if its DT_NEEDED equals NeededFinal, or equals NeededGnu  *)
(* when GNU ld links the input (the two references legitimately differ on  *)
(* order dependent inputs).  TLC checks for every configuration that the   *)
(* operational model conforms OR the configuration lies in the precisely   *)
(* characterised deviation class DevFirstDefOverridden (recorded finding). *)
(***************************************************************************)
EXTENDS Integers, Sequences, FiniteSets, TLC, Json

CONSTANTS Emit,      \* BOOLEAN: print REPLAY records from terminal states
          Stride,    \* print about one record in Stride ...
          Seed       \* ... selected by a hash of (idx, Seed)

VARIABLES cfg,      \* the configuration (never changes)
          pc,       \* "parse" | "resolve" | "done" | "error"
          pos,      \* next token
          stack,    \* wild's modifier stack: records [asn, wa] (as_needed, whole_archive)
          asn,      \* asn[f]: modifiers.as_needed recorded for file f
          wha,      \* wha[f]: modifiers.whole_archive recorded for file f
          order,    \* files in command-line order
          loaded,   \* set of loaded files
          result    \* DT_NEEDED as written (sequence of file ids)

vars == <<cfg, pc, pos, stack, asn, wha, order, loaded, result>>

Toks == cfg.tokens
Files == cfg.files
FileIds == 1..Len(cfg.files)
Kind(f) == cfg.files[f].kind
Defs(f) == cfg.files[f].defs
Strong(f) == cfg.files[f].strong
Weak(f) == cfg.files[f].weak
Libs == {f \in FileIds : Kind(f) = "lib"}
Objs == {f \in FileIds : Kind(f) = "obj"}
Members == {f \in FileIds : Kind(f) = "member"}
AllNames == UNION {Defs(f) \cup Strong(f) \cup Weak(f) : f \in FileIds}

Min(S) == CHOOSE x \in S : \A y \in S : x <= y
Max(S) == CHOOSE x \in S : \A y \in S : x >= y

-----------------------------------------------------------------------------
(* Declarative part 1: the modifier state of a file, read off the token sequence without a stack. *)

(* nesting depth after the first k tokens (relative to the initial state) *)
RECURSIVE Depth(_)
Depth(k) == IF k = 0 THEN 0
            ELSE Depth(k - 1) + (CASE Toks[k].t = "push" -> 1 [] Toks[k].t = "pop" -> -1 [] OTHER -> 0)
DepthTable == [k \in 0..Len(Toks) |-> Depth(k)]

ValidTokensD(D) == \A k \in 1..Len(Toks) : D[k] >= 0
ValidTokens == ValidTokensD(DepthTable)
FirstBadPop == LET D == DepthTable IN Min({k \in 1..Len(Toks) : D[k] < 0})

(* the --pop-state at b closes the --push-state at a *)
Matched(D, a, b) ==
    /\ a < b /\ Toks[a].t = "push" /\ Toks[b].t = "pop"
    /\ D[a - 1] = D[b]
    /\ \A k \in a..(b - 1) : D[k] > D[b]

(* a flag at q is invisible from p when it sits inside a push/pop pair closed before p *)
HiddenFrom(D, q, p) == \E a \in 1..(q - 1), b \in (q + 1)..(p - 1) : Matched(D, a, b)

TokPos(f) == CHOOSE p \in 1..Len(Toks) : Toks[p].t = "file" /\ Toks[p].f = f

(* the state of one on/off modifier at file f: the last visible switch before it (default off) *)
FlagDeclD(D, f, on, off) ==
    LET p == TokPos(f)
        vis == {q \in 1..(p - 1) : Toks[q].t \in {on, off} /\ ~HiddenFrom(D, q, p)}
    IN IF vis = {} THEN FALSE ELSE Toks[Max(vis)].t = on

(* asn table: for every file, is it under --as-needed?  wa table: under --whole-archive? *)
AsnTable == LET D == DepthTable IN [f \in FileIds |-> FlagDeclD(D, f, "as", "noas")]
WaTable == LET D == DepthTable IN [f \in FileIds |-> FlagDeclD(D, f, "wa", "nowa")]
AsnDecl(f) == AsnTable[f]

OrderDecl == LET ps == {p \in 1..Len(Toks) : Toks[p].t = "file"}
                 RECURSIVE Build(_)
                 Build(S) == IF S = {} THEN <<>> ELSE <<Toks[Min(S)].f>> \o Build(S \ {Min(S)})
             IN Build(ps)

-----------------------------------------------------------------------------
(* Declarative part 2: the property (order independent).  A is the asn table, O the file order. *)

(* regular files that take part in the link: all objects, and archive members that define a name
   some loaded regular file references strongly and no object defines (least fixpoint) *)
RECURSIVE LoadedRegFrom(_)
LoadedRegFrom(L) ==
    LET add == {m \in Members \ L : \E g \in L : \E n \in Strong(g) \cap Defs(m) :
                                       ~\E o \in L : n \in Defs(o)}
    IN IF add = {} THEN L ELSE LoadedRegFrom(L \cup add)
(* --whole-archive loads every member; it has no effect on shared libraries *)
LoadedReg == LET W == WaTable IN LoadedRegFrom(Objs \cup {m \in Members : W[m]})

FirstIn(seq, S) == IF \E k \in 1..Len(seq) : seq[k] \in S
                   THEN seq[Min({k \in 1..Len(seq) : seq[k] \in S})] ELSE 0

(* l supplies the final binding of a non-weak reference from the output *)
NeededSetFinalW(A, O, LR) ==
    LET RegDef(n) == \E g \in LR : n \in Defs(g)
        FirstLib(n) == FirstIn(O, {l \in Libs : n \in Defs(l)})
        Satisfies(l) == \E g \in LR : \E n \in Strong(g) : ~RegDef(n) /\ FirstLib(n) = l
    IN {l \in Libs : ~A[l] \/ Satisfies(l)}

-----------------------------------------------------------------------------
(* Declarative part 3: GNU ld's sequential scan. *)

GnuEmpty == [defReg |-> {}, defDyn |-> {}, refS |-> {}, needed |-> {}]

GnuAddReg(s, f) == [s EXCEPT !.defReg = @ \cup Defs(f), !.refS = @ \cup Strong(f)]

GnuStep(A, W, s, f) ==
    LET undef == (s.refS \ s.defReg) \ s.defDyn IN
    CASE Kind(f) = "obj" -> GnuAddReg(s, f)
      [] Kind(f) = "member" -> IF W[f] \/ Defs(f) \cap undef # {} THEN GnuAddReg(s, f) ELSE s
      [] Kind(f) = "lib" ->
            IF ~A[f] \/ Defs(f) \cap undef # {}
            THEN [s EXCEPT !.defDyn = @ \cup Defs(f), !.needed = @ \cup {f}]
            ELSE s

RECURSIVE GnuScan(_, _, _, _)
GnuScan(A, W, O, k) == IF k = 0 THEN GnuEmpty ELSE GnuStep(A, W, GnuScan(A, W, O, k - 1), O[k])

(* the deviation class: an as-needed library is the first definer of a name on the command line,
   a loaded regular object defines the same name (so the reference is not bound to the library),
   and a loaded regular object references the name strongly *)
DevFirstDefOverriddenW(A, O, LR) ==
    \E l \in Libs, n \in AllNames :
       /\ A[l] /\ n \in Defs(l) /\ FirstIn(O, {f \in FileIds : n \in Defs(f)}) = l
       /\ \E g \in LR : n \in Defs(g)
       /\ \E g \in LR : n \in Strong(g)

(* everything the declarative side says about the configuration, computed once *)
Decl ==
    LET A == AsnTable
        O == OrderDecl
        LR == LoadedReg
        nsf == NeededSetFinalW(A, O, LR)
        g == GnuScan(A, WaTable, O, Len(O))
    IN [asn |-> A, order |-> O,
        finalSet |-> nsf,
        final |-> SelectSeq(O, LAMBDA f : f \in nsf),
        gnuSet |-> g.needed,
        gnuFails |-> (g.refS \ g.defReg) \ g.defDyn # {},
        gnu |-> SelectSeq(O, LAMBDA f : f \in g.needed),
        dev |-> DevFirstDefOverriddenW(A, O, LR)]

-----------------------------------------------------------------------------
(* Operational model (wild). *)

(* The MC module enumerates configurations c (records [idx, tokens, files]) lazily:
   Init is  \E <parameters> : WellFormed /\ InitWith(<configuration built from the parameters>). *)
InitWith(c) ==
    /\ cfg = c
    /\ pc = "parse" /\ pos = 1
    /\ stack = <<[asn |-> FALSE, wa |-> FALSE]>>           \* Modifiers::default()
    /\ asn = [f \in 1..Len(cfg.files) |-> FALSE]
    /\ wha = [f \in 1..Len(cfg.files) |-> FALSE]
    /\ order = <<>> /\ loaded = {} /\ result = <<>>

(* One token of args/elf.rs applied to (stack, asn, order, error flag). *)
TokStep(st, tk) ==
    LET top == st.stack[Len(st.stack)] IN
    CASE tk.t = "as" -> [st EXCEPT !.stack = [@ EXCEPT ![Len(@)].asn = TRUE]]
      [] tk.t = "noas" -> [st EXCEPT !.stack = [@ EXCEPT ![Len(@)].asn = FALSE]]
      [] tk.t = "wa" -> [st EXCEPT !.stack = [@ EXCEPT ![Len(@)].wa = TRUE]]
      [] tk.t = "nowa" -> [st EXCEPT !.stack = [@ EXCEPT ![Len(@)].wa = FALSE]]
      [] tk.t = "push" -> [st EXCEPT !.stack = Append(@, top)]
      [] tk.t = "pop" ->
           (* modifier_stack.pop(); if modifier_stack.is_empty() { bail!("Mismatched --pop-state") } *)
           [st EXCEPT !.stack = SubSeq(@, 1, Len(@) - 1), !.err = (Len(st.stack) = 1)]
      [] tk.t = "file" -> [st EXCEPT !.asn = [@ EXCEPT ![tk.f] = top.asn], !.wha = [@ EXCEPT ![tk.f] = top.wa],
                                     !.order = Append(@, tk.f)]

(* Run the argument parser over all tokens from position p (stops at an error). *)
RECURSIVE RunTo(_, _)
RunTo(st, p) ==
    IF p > Len(Toks) \/ st.err THEN [st |-> st, p |-> p]
    ELSE RunTo(TokStep(st, Toks[p]), p + 1)

(* grouping.rs: is_optional:
     (has_archive_semantics() && !modifiers.whole_archive) || (is_dynamic() && modifiers.as_needed) *)
OptionalW(A, W, f) == (Kind(f) = "member" /\ ~W[f]) \/ (Kind(f) = "lib" /\ A[f])

(* Argument parsing is sequential and deterministic: one step.  Files that are not optional are
   loaded from the start (resolution.rs: work_items_do for every non-optional file). *)
Parse ==
    /\ pc = "parse"
    /\ LET r == RunTo([stack |-> stack, asn |-> asn, wha |-> wha, order |-> order, err |-> FALSE], pos) IN
       /\ pos' = r.p
       /\ stack' = r.st.stack /\ asn' = r.st.asn /\ wha' = r.st.wha /\ order' = r.st.order
       /\ pc' = IF r.st.err THEN "error" ELSE "resolve"
       /\ loaded' = IF r.st.err THEN {} ELSE {f \in FileIds : ~OptionalW(r.st.asn, r.st.wha, f)}
    /\ UNCHANGED <<cfg, result>>

(* symbol_db: name_to_id holds the first definition in file order, whatever kind of file it is in *)
FirstDef(n) == FirstIn(order, {f \in FileIds : n \in Defs(f)})

(* resolution.rs resolve_symbol: symbol_file_id != file_id && !is_weak, and not dynamic -> dynamic *)
Requests(f, n) ==
    /\ f \in loaded /\ n \in Strong(f)
    /\ FirstDef(n) # 0 /\ FirstDef(n) # f
    /\ (Kind(f) # "lib" \/ Kind(FirstDef(n)) # "lib")

LoadOne ==
    /\ pc = "resolve"
    /\ \E f \in loaded : \E n \in Strong(f) :
          /\ Requests(f, n) /\ FirstDef(n) \notin loaded
          /\ loaded' = loaded \cup {FirstDef(n)}
    /\ UNCHANGED <<cfg, pc, pos, stack, asn, wha, order, result>>

Finish ==
    /\ pc = "resolve"
    /\ ~\E f \in loaded : \E n \in Strong(f) : Requests(f, n) /\ FirstDef(n) \notin loaded
    /\ pc' = "done"
    (* write_dynamic_file -> write_so_name for each loaded dynamic file, in file order *)
    /\ result' = SelectSeq(order, LAMBDA f : Kind(f) = "lib" /\ f \in loaded)
    /\ UNCHANGED <<cfg, pos, stack, asn, wha, order, loaded>>

Next == Parse \/ LoadOne \/ Finish
SpecFrom(init) == init /\ [][Next]_vars /\ WF_vars(Next)

Terminal == pc \in {"done", "error"}

-----------------------------------------------------------------------------
(* Properties. *)

TypeOK ==
    /\ pc \in {"parse", "resolve", "done", "error"}
    /\ pos \in 1..(Len(Toks) + 1)
    /\ loaded \subseteq FileIds

(* the stack machine computes the declarative modifier state, and fails exactly on an unbalanced pop *)
StackRefinesDecl ==
    /\ pc = "error" => (~ValidTokens /\ pos = FirstBadPop + 1)
    /\ pc = "done" =>
          /\ ValidTokens
          /\ order = OrderDecl
          /\ asn = AsnTable
          /\ wha = WaTable

ConformsD(D) == result = D.final \/ (~D.gnuFails /\ result = D.gnu)

(* without a name defined both by a library and by a regular file the model is exactly the property *)
NoMixedDefs == ~\E n \in AllNames : (\E l \in Libs : n \in Defs(l)) /\ (\E g \in FileIds \ Libs : n \in Defs(g))

DoneFacts(D) ==
    (* the two references agree on everything that is not order dependent *)
    /\ \A l \in Libs : ~D.asn[l] => (l \in D.finalSet /\ l \in D.gnuSet)
    /\ \A l \in Libs : (D.asn[l] /\ ~\E g \in FileIds, n \in Defs(l) : Kind(g) # "lib" /\ n \in Strong(g))
                           => (l \notin D.finalSet /\ l \notin D.gnuSet)
    (* the operational model conforms, or the configuration is in the recorded deviation class *)
    /\ ConformsD(D) \/ D.dev
    /\ NoMixedDefs => result = D.final

OperationalConformsOrKnownClass == pc = "done" => DoneFacts(Decl)

(* confluence: the set of loaded files at the end does not depend on the request order *)
LoadedIsClosure ==
    pc = "done" => \A f \in loaded : \A n \in Strong(f) : Requests(f, n) => FirstDef(n) \in loaded

Termination == <>Terminal
(* cheap form for the large configurations: no state is stuck before a terminal one (the state
   graph is acyclic: pos, loaded and pc only grow) *)
NoStuck == ~Terminal => ENABLED Next

-----------------------------------------------------------------------------
(* REPLAY records for the harness. *)

Hash(i) == LET a == (i + Seed * 7 + 13) % 46337
               h == (a * a) % 46337
           IN ((h + (i \div 46337) + Seed) * 31337) % 46337

(* link lines with an as-needed library inside a --whole-archive region are always emitted *)
AsNeededInWholeArchive == pc = "done" /\ \E l \in Libs : asn[l] /\ wha[l]
Sampled == Stride <= 1 \/ Hash(cfg.idx) % Stride = 0 \/ AsNeededInWholeArchive

Rec ==
    LET D == IF pc = "done" THEN Decl ELSE [asn |-> <<>>, final |-> <<>>, gnuFails |-> TRUE, gnu |-> <<>>, dev |-> FALSE] IN
    [idx |-> cfg.idx,
     tokens |-> cfg.tokens,
     files |-> cfg.files,
     outcome |-> pc,
     asn |-> D.asn,
     wild_op |-> result,
     final |-> D.final,
     gnu_fails |-> D.gnuFails,
     gnu |-> IF D.gnuFails THEN <<>> ELSE D.gnu,
     conforms |-> IF pc = "done" THEN ConformsD(D) ELSE TRUE,
     dev |-> D.dev,
     must |-> AsNeededInWholeArchive]

EmitReplay == (Terminal /\ Emit /\ Sampled) => PrintT(<<"REPLAY", ToJson(Rec)>>)
=============================================================================
