------------------------------- MODULE Notes -------------------------------
(***************************************************************************)
(* C36 - Stack and GNU property notes are merged as in GNU ld.             *)
(*                                                                         *)
(* A scenario is a link command: a sequence of -z execstack/noexecstack    *)
(* options and a few inputs (bounded by a profile).  Every input has a     *)
(* kind (plain object, archive member that is / is not extracted, shared   *)
(* object), a                                                              *)
(* .note.GNU-stack state (section absent / present non-executable /        *)
(* present with SHF_EXECINSTR) and, for every property type of the         *)
(* scenario, the sequence of 4-byte pr_data values it carries in its       *)
(* .note.gnu.property (<<>> = the input has no property of that type; all  *)
(* types empty = the input has no .note.gnu.property section at all).      *)
(* pr_data values are sets of bit numbers.                                 *)
(*                                                                         *)
(* DECLARATIVE SIDE (the reference): GNU ld 2.40's rules, transcribed from *)
(* bfd/elflink.c (bfd_elf_size_dynamic_sections: PT_GNU_STACK),            *)
(* bfd/elf-properties.c and bfd/elfxx-x86.c                                *)
(* (_bfd_x86_elf_parse_gnu_properties / _merge_gnu_properties), then       *)
(* pinned by running the installed GNU ld on every replayed scenario.      *)
(*                                                                         *)
(* OPERATIONAL SIDE: a step-by-step transcription of what wild does        *)
(* (libwild/src/resolution.rs -> Elf::validate_stack_section,              *)
(* elf.rs merge_gnu_property_notes, elf_x86_64.rs / elf_aarch64.rs         *)
(* get_property_class, elf_writer.rs: PF_X of PT_GNU_STACK iff             *)
(* args.execstack).                                                        *)
(*                                                                         *)
(* TLC checks that the two agree on every scenario in which wild produces  *)
(* an output, outside three exactly characterised deviation classes that     *)
(* were reproduced against the real binaries and are recorded as findings. *)
(* Every terminal state is printed as a REPLAY record (scenario + both     *)
(* predictions); harness/py/checks/c36.py replays them into the real wild  *)
(* and the real GNU ld.                                                    *)
(***************************************************************************)
EXTENDS Integers, Sequences, FiniteSets, SequencesExt, TLC, Json

CONSTANTS
  Profiles,          \* set of bounded scenario spaces (records, see ProfileOK); Init picks from any
  DefaultExecStack,  \* the reference ld was configured with DEFAULT_LD_Z_EXECSTACK=1
  Mutation           \* "none", or a deliberate corruption of the operational side

Bits == {0, 1}
Masks == SUBSET Bits

(* families: "x86" = 0xc0000000 + off (processor specific, e_machine x86-64),
             "gen" = 0xb0000000 + off (generic GNU_PROPERTY_UINT32_{AND,OR}),
             "a64" = 0xc0000000 + off (processor specific, e_machine AArch64) *)
Families == {"x86", "gen", "a64"}

(* A profile bounds one scenario space:
     maxn   maximal number of inputs
     types  property types <<family, offset>>
     cards  allowed numbers of distinct property types per scenario
     vals   per input and type: the possible sequences of pr_data values (sets of bits)
     stacks subset of {"absent", "noexec", "exec"}
     kinds  kinds of inputs 2..n: subset of {"obj", "member", "lazy", "dso"}
     zs     sequences over {"execstack", "noexecstack"}                                   *)
ProfileOK(p) ==
  /\ p.maxn \in 1..4
  /\ \A t \in p.types : t[1] \in Families /\ t[2] \in 0..131071
  /\ p.cards \subseteq 0..3
  /\ \A vs \in p.vals : \A k \in DOMAIN vs : vs[k] \in Masks
  /\ p.stacks \subseteq {"absent", "noexec", "exec"}
  /\ p.kinds \subseteq {"obj", "member", "lazy", "dso"}
  /\ \A z \in p.zs : \A k \in DOMAIN z : z[k] \in {"execstack", "noexecstack"}

ASSUME /\ \A p \in Profiles : ProfileOK(p)
       /\ DefaultExecStack \in BOOLEAN

TypeUniverse == UNION {p.types : p \in Profiles}

-----------------------------------------------------------------------------
(* Property classes.                                                         *)

(* GNU ld: include/elf/common.h
     GNU_PROPERTY_X86_COMPAT_ISA_1_USED    0xc0000000  (treated like OR_AND)
     GNU_PROPERTY_X86_COMPAT_ISA_1_NEEDED  0xc0000001  (treated like OR)
     GNU_PROPERTY_X86_UINT32_AND_LO..HI    0xc0000002..0xc0007fff
     GNU_PROPERTY_X86_UINT32_OR_LO..HI     0xc0008000..0xc000ffff
     GNU_PROPERTY_X86_UINT32_OR_AND_LO..HI 0xc0010000..0xc0017fff
     GNU_PROPERTY_UINT32_AND_LO..HI        0xb0000000..0xb0007fff
     GNU_PROPERTY_UINT32_OR_LO..HI         0xb0008000..0xb000ffff
     GNU_PROPERTY_AARCH64_FEATURE_1_AND    0xc0000000 (AND)                   *)
GnuClass(t) ==
  LET off == t[2] IN
  CASE t[1] = "x86" ->
         (CASE off = 0 -> "orand"
            [] off = 1 -> "or"
            [] off \in 2..32767 -> "and"
            [] off \in 32768..65535 -> "or"
            [] off \in 65536..98303 -> "orand"
            [] OTHER -> "none")
    [] t[1] = "gen" ->
         (CASE off \in 0..32767 -> "and"
            [] off \in 32768..65535 -> "or"
            [] OTHER -> "none")
    [] t[1] = "a64" -> (IF off = 0 THEN "and" ELSE "none")

(* wild: elf_x86_64.rs get_property_class (ranges from the `object` crate constants; the two
   legacy COMPAT types are not classified) and elf_aarch64.rs.                           *)
AndHi == IF Mutation = "and_range_short" THEN 32766 ELSE 32767
WildClass(t) ==
  LET off == t[2] IN
  CASE t[1] = "x86" ->
         (CASE off \in 2..AndHi -> "and"
            [] off \in 32768..65535 -> "or"
            [] off \in 65536..98303 -> "orand"
            [] OTHER -> "none")
    [] t[1] = "gen" ->
         (CASE off \in 0..32767 -> "and"
            [] off \in 32768..65535 -> "or"
            [] OTHER -> "none")
    [] t[1] = "a64" -> (IF off = 0 THEN "and" ELSE "none")

ASSUME \A t \in TypeUniverse : GnuClass(t) # "none"

TypeLess(a, b) == \/ (a[1] = "gen" /\ b[1] # "gen")
                  \/ (a[1] = b[1] /\ a[2] < b[2])
TypeOrder(ts) == SetToSortSeq(ts, TypeLess)

-----------------------------------------------------------------------------
(* Scenarios.                                                                *)

TypeSets(p) == {ts \in SUBSET p.types : Cardinality(ts) \in p.cards}
InputsOf(p, ts, first) ==
  [kind : IF first THEN {"obj"} ELSE p.kinds, stack : p.stacks, props : [ts -> p.vals]]

(* relocatable inputs that take part in the link: plain objects and extracted archive members.
   Shared objects and archive members that are not extracted contribute nothing (GNU ld skips
   DYNAMIC bfds in both rules; wild only merges activated objects).                       *)
Loaded(s) == {i \in DOMAIN s.inputs : s.inputs[i].kind \in {"obj", "member"}}
In(s, i) == s.inputs[i]

(* effective -z option: the last one wins (GNU ld: each option sets its flag and clears the
   other one; wild: args.execstack := TRUE / FALSE).                                     *)
ZMode(z) == IF z = <<>> THEN "default" ELSE z[Len(z)]

-----------------------------------------------------------------------------
(* DECLARATIVE: GNU ld.                                                      *)

AnyNote(s)    == \E i \in Loaded(s) : In(s, i).stack # "absent"
AnyExec(s)    == \E i \in Loaded(s) : In(s, i).stack = "exec"
AnyMissing(s) == \E i \in Loaded(s) : In(s, i).stack = "absent"

(* bfd_elf_size_dynamic_sections: "none" = no PT_GNU_STACK program header is emitted. *)
GnuStack(s) ==
  CASE ZMode(s.z) = "execstack"   -> "RWE"
    [] ZMode(s.z) = "noexecstack" -> "RW"
    [] OTHER ->
         IF ~AnyNote(s) THEN "none"
         ELSE IF AnyExec(s) \/ (DefaultExecStack /\ AnyMissing(s)) THEN "RWE" ELSE "RW"
GnuStackExec(s) == GnuStack(s) = "RWE"

Has(inp, t) == inp.props[t] # <<>>
(* several properties of one type in one input are OR-ed while the input is parsed
   (_bfd_x86_elf_parse_gnu_properties: prop->u.number |= ...), whatever the class. *)
InVal(inp, t) == UNION {inp.props[t][k] : k \in DOMAIN inp.props[t]}
InterAll(S) == {b \in Bits : \A m \in S : b \in m}

Absent == [present |-> FALSE, val |-> {}]
Present(v) == [present |-> TRUE, val |-> v]

GnuProp(s, t) ==
  LET L    == Loaded(s)
      all  == \A i \in L : Has(In(s, i), t)
      vals == {InVal(In(s, i), t) : i \in {j \in L : Has(In(s, j), t)}}
      or   == UNION vals
      and  == InterAll(vals)
  IN IF t[1] = "gen" /\ Cardinality(L) = 1
     THEN \* quirk of GNU ld 2.40 (pinned by running it): the generic UINT32_AND/OR properties are only
          \* cleaned up while two inputs are merged; with a single relocatable input the property is
          \* copied as it is, even when all bits are zero (the x86 backend removes those itself).
          IF all THEN Present(or) ELSE Absent
     ELSE CASE GnuClass(t) = "and"   -> IF all /\ and # {} THEN Present(and) ELSE Absent
            [] GnuClass(t) = "or"    -> IF or # {} THEN Present(or) ELSE Absent
            [] GnuClass(t) = "orand" -> IF all THEN Present(or) ELSE Absent
GnuProps(s) == [t \in s.types |-> GnuProp(s, t)]

(* What the property requires of the output note: the bits GNU ld's note carries.  An AND- or
   OR-class property whose bits are all zero says the same as no property (and the psABI wants it
   removed), so the quirk above is not required of wild; an OR-AND-class property with all bits zero
   is different from an absent one and is required as it is. *)
Want(s, t) ==
  LET g == GnuProp(s, t) IN IF GnuClass(t) # "orand" /\ g.val = {} THEN Absent ELSE g
WantProps(s) == [t \in s.types |-> Want(s, t)]

-----------------------------------------------------------------------------
(* OPERATIONAL: wild.                                                        *)

VARIABLES scn, pc, fi, pi, pmap, declined, outStack, outProps
vars == <<scn, pc, fi, pi, pmap, declined, outStack, outProps>>

Unset == [set |-> FALSE, val |-> {}]

(* the (type, value) pairs of one input in note order *)
Flat(inp, ts) ==
  LET order == TypeOrder(ts)
      F[k \in 0..Len(order)] ==
        IF k = 0 THEN <<>>
        ELSE F[k - 1] \o [j \in DOMAIN inp.props[order[k]] |-> <<order[k], inp.props[order[k]][j]>>]
  IN F[Len(order)]

LoadedSeq(s) == SetToSortSeq(Loaded(s), <)

WildExecFlag(z) ==
  IF Mutation = "noexecstack_ignored"
  THEN \E k \in DOMAIN z : z[k] = "execstack"
  ELSE ZMode(z) = "execstack"

Init ==
  /\ \E p \in Profiles : \E ts \in TypeSets(p), n \in 1..p.maxn, z \in p.zs :
       \E first \in InputsOf(p, ts, TRUE), rest \in [2..n -> InputsOf(p, ts, FALSE)] :
          scn = [z |-> z, types |-> ts,
                 inputs |-> [i \in 1..n |-> IF i = 1 THEN first ELSE rest[i]]]
  /\ pc = "resolve"
  /\ fi = 1
  /\ pi = 1
  /\ pmap = [t \in scn.types |-> Unset]
  /\ declined = "no"
  /\ outStack = "none"
  /\ outProps = [t \in scn.types |-> Absent]

(* resolution.rs: every .note.GNU-stack section of an activated object goes through
   validate_stack_section; SHF_EXECINSTR without args.execstack is a link error. *)
StackRejected ==
  IF Mutation = "exec_from_last_input"
  THEN LET l == LoadedSeq(scn) IN In(scn, l[Len(l)]).stack = "exec" /\ ~WildExecFlag(scn.z)
  ELSE AnyExec(scn) /\ ~WildExecFlag(scn.z)

ResolveDecline ==
  /\ pc = "resolve" /\ StackRejected
  /\ declined' = "execstack" /\ pc' = "done"
  /\ UNCHANGED <<scn, fi, pi, pmap, outStack, outProps>>

ResolveOk ==
  /\ pc = "resolve" /\ ~StackRejected
  /\ pc' = "merge"
  /\ UNCHANGED <<scn, fi, pi, pmap, declined, outStack, outProps>>

CurFlat == Flat(In(scn, LoadedSeq(scn)[fi]), scn.types)
InMerge == pc = "merge" /\ fi <= Len(LoadedSeq(scn))
CurT == CurFlat[pi][1]
CurV == CurFlat[pi][2]

(* merge_gnu_property_notes, first loop: property_map.entry(ptype).and_modify(..).or_insert(..) *)
MergeUnclassified ==
  /\ InMerge /\ pi <= Len(CurFlat) /\ WildClass(CurT) = "none"
  /\ declined' = "unclassified" /\ pc' = "done"
  /\ UNCHANGED <<scn, fi, pi, pmap, outStack, outProps>>

MergeFirst ==
  /\ InMerge /\ pi <= Len(CurFlat) /\ WildClass(CurT) # "none" /\ ~pmap[CurT].set
  /\ pmap' = [pmap EXCEPT ![CurT] = [set |-> TRUE, val |-> CurV]]
  /\ pi' = pi + 1
  /\ UNCHANGED <<scn, pc, fi, declined, outStack, outProps>>

MergeAnd ==
  /\ InMerge /\ pi <= Len(CurFlat) /\ WildClass(CurT) = "and" /\ pmap[CurT].set
  /\ pmap' = [pmap EXCEPT ![CurT].val =
                IF Mutation = "and_as_or" THEN @ \cup CurV ELSE @ \cap CurV]
  /\ pi' = pi + 1
  /\ UNCHANGED <<scn, pc, fi, declined, outStack, outProps>>

MergeOr ==
  /\ InMerge /\ pi <= Len(CurFlat) /\ WildClass(CurT) \in {"or", "orand"} /\ pmap[CurT].set
  /\ pmap' = [pmap EXCEPT ![CurT].val = @ \cup CurV]
  /\ pi' = pi + 1
  /\ UNCHANGED <<scn, pc, fi, declined, outStack, outProps>>

NextFile ==
  /\ InMerge /\ pi > Len(CurFlat)
  /\ fi' = fi + 1 /\ pi' = 1
  /\ UNCHANGED <<scn, pc, pmap, declined, outStack, outProps>>

(* second half of merge_gnu_property_notes (the filter) and elf_writer.rs (stack flags) *)
PresentInAll(t) ==
  IF Mutation = "missing_note_not_zero" THEN TRUE
  ELSE \A i \in Loaded(scn) : Has(In(scn, i), t)

Finish ==
  /\ pc = "merge" /\ fi > Len(LoadedSeq(scn))
  /\ outProps' = [t \in scn.types |->
       LET e == pmap[t] IN
       IF ~e.set THEN Absent
       ELSE CASE WildClass(t) = "or"    -> IF e.val # {} THEN Present(e.val) ELSE Absent
              [] WildClass(t) = "and"   -> IF PresentInAll(t) /\ e.val # {} THEN Present(e.val) ELSE Absent
              [] WildClass(t) = "orand" -> IF PresentInAll(t) THEN Present(e.val) ELSE Absent
              [] OTHER -> Absent]
  /\ outStack' = IF WildExecFlag(scn.z) THEN "RWE" ELSE "RW"
  /\ pc' = "done"
  /\ UNCHANGED <<scn, fi, pi, pmap, declined>>

(* terminal states stutter explicitly, so that TLC's deadlock check proves that every other state
   has a successor (the transcription never gets stuck). *)
Terminated == pc = "done" /\ UNCHANGED vars

Next == ResolveDecline \/ ResolveOk \/ MergeUnclassified \/ MergeFirst \/ MergeAnd \/ MergeOr
        \/ NextFile \/ Finish \/ Terminated

Spec == Init /\ [][Next]_vars /\ WF_vars(Next)

-----------------------------------------------------------------------------
(* Properties.                                                               *)

Done == pc = "done"
Linked == Done /\ declined = "no"

TypeOK ==
  /\ pc \in {"resolve", "merge", "done"}
  /\ declined \in {"no", "execstack", "unclassified"}
  /\ outStack \in {"none", "RW", "RWE"}
  /\ \A t \in scn.types : pmap[t].val \in Masks /\ outProps[t].val \in Masks

(* Deviation class 1 (finding stack:missing-note-default): the reference ld treats an input
   without .note.GNU-stack as requesting an executable stack as soon as another input has the
   section; wild treats it as not requesting one. *)
StackDeviation(s) ==
  /\ DefaultExecStack /\ ZMode(s.z) = "default"
  /\ AnyNote(s) /\ AnyMissing(s) /\ ~AnyExec(s)

(* Deviation class 2 (finding prop:and-duplicate-in-one-input): an input that carries the same
   AND-class property more than once with different values. *)
DupDeviation(s, t) ==
  /\ GnuClass(t) = "and"
  /\ \E i \in Loaded(s) : \E j, k \in DOMAIN In(s, i).props[t] : In(s, i).props[t][j] # In(s, i).props[t][k]

AgreeStack ==
  Linked /\ ~StackDeviation(scn) => ((outStack = "RWE") <=> GnuStackExec(scn))

StackDeviationExact ==
  Linked /\ StackDeviation(scn) => (outStack = "RW" /\ GnuStackExec(scn))

AgreeProps ==
  Linked => \A t \in scn.types : ~DupDeviation(scn, t) => outProps[t] = Want(scn, t)

(* with duplicates wild can only lose bits relative to GNU ld *)
DupDeviationShape ==
  Linked => \A t \in scn.types : DupDeviation(scn, t) =>
     /\ outProps[t].val \subseteq Want(scn, t).val
     /\ (outProps[t].present => Want(scn, t).present)

(* Deviation class 3 (finding prop:x86-compat-isa-unclassified): the two legacy x86 types
   GNU_PROPERTY_X86_COMPAT_ISA_1_USED / _NEEDED are merged by GNU ld and rejected by wild
   ("unclassified property type"). *)
LegacyType(t) == t[1] = "x86" /\ t[2] \in {0, 1}

(* wild declines exactly: an executable stack requested by a loaded input without an effective
   -z execstack (the documented rejection), or (otherwise) a legacy type in a loaded input. *)
DeclineExact ==
  Done =>
    /\ (declined = "execstack") <=> (AnyExec(scn) /\ ZMode(scn.z) # "execstack")
    /\ (declined = "unclassified") <=>
          (/\ ~(AnyExec(scn) /\ ZMode(scn.z) # "execstack")
           /\ \E t \in scn.types : LegacyType(t) /\ \E i \in Loaded(scn) : Has(In(scn, i), t))

Termination == <>Done

-----------------------------------------------------------------------------
(* REPLAY records.                                                           *)

MaskInt(m) == (IF 0 \in m THEN 1 ELSE 0) + (IF 1 \in m THEN 2 ELSE 0)
PropList(p, ts) ==
  LET order == TypeOrder(ts)
      sel == SelectSeq(order, LAMBDA t : p[t].present)
  IN [k \in DOMAIN sel |-> [fam |-> sel[k][1], off |-> sel[k][2], val |-> MaskInt(p[sel[k]].val)]]
InputRec(inp, ts) ==
  LET order == TypeOrder(ts)
      sel == SelectSeq(order, LAMBDA t : Has(inp, t))
  IN [kind |-> inp.kind, stack |-> inp.stack,
      props |-> [k \in DOMAIN sel |->
                   [fam |-> sel[k][1], off |-> sel[k][2],
                    vals |-> [j \in DOMAIN inp.props[sel[k]] |-> MaskInt(inp.props[sel[k]][j])]]]]

ReplayRec ==
  [z |-> scn.z,
   inputs |-> [i \in DOMAIN scn.inputs |-> InputRec(In(scn, i), scn.types)],
   types |-> LET o == TypeOrder(scn.types) IN [k \in DOMAIN o |-> [fam |-> o[k][1], off |-> o[k][2], cls |-> GnuClass(o[k])]],
   gnu_stack |-> GnuStack(scn),
   gnu_props |-> PropList(GnuProps(scn), scn.types),
   want_props |-> PropList(WantProps(scn), scn.types),
   wild_declined |-> declined,
   wild_stack |-> outStack,
   wild_props |-> PropList(outProps, scn.types),
   dev_stack |-> StackDeviation(scn),
   dev_dup |-> \E t \in scn.types : DupDeviation(scn, t)]

EmitReplay == Done => PrintT(<<"REPLAY", ToJson(ReplayRec)>>)
=============================================================================
