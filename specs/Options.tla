------------------------------ MODULE Options ------------------------------
(***************************************************************************)
(* C28: optional transformations do not change program behaviour.          *)
(* The option space as wild exposes it, with the applicability rules that  *)
(* decide which combinations are meaningful links of one program, and the  *)
(* statement of the property: the observable behaviour of the linked       *)
(* program is a function of the program alone.  `Beh` is left abstract     *)
(* (a CONSTANT operator over programs); `LinkBeh(p, o)` - what the program *)
(* linked with options o does - is constrained only by Correct(o): every   *)
(* admissible option vector yields Beh(p).  TLC enumerates the admissible  *)
(* vectors (and a pairwise-covering subset) for the harness, which links   *)
(* and runs each and compares the observed behaviour across vectors.       *)
(***************************************************************************)
EXTENDS Integers, FiniteSets, TLC

Kind == {"static", "static-pie", "pie", "no-pie"}          \* how the executable is produced
Relax == {"relax", "no-relax"}
Merge == {"merge", "no-merge"}
Relr == {"relr", "no-relr"}
Hash == {"gnu", "sysv", "both"}
BuildId == {"none", "fast", "sha1", "uuid"}
Gc == {"gc", "no-gc"}

Vectors == [kind : Kind, relax : Relax, merge : Merge, relr : Relr, hash : Hash, buildid : BuildId, gc : Gc]

(* which combinations are distinct, meaningful links *)
Admissible(o) ==
    /\ (o.relr = "relr" => o.kind \in {"pie", "static-pie"})       \* packed relative relocs need relative relocs
    /\ (o.hash # "both" => o.kind \in {"pie", "no-pie"})           \* hash style only matters with a dynamic symbol table
    /\ TRUE

Adm == {o \in Vectors : Admissible(o)}

Fields == {"kind", "relax", "merge", "relr", "hash", "buildid", "gc"}
(* pairwise coverage: every pair of values of two different fields that occurs in some admissible
   vector occurs in the chosen subset *)
PairsOf(S) == {<<f, g, o[f], o[g]>> : f \in Fields, g \in Fields, o \in S}
Covers(S) == PairsOf(S) = PairsOf(Adm)
=============================================================================
