------------------------------ MODULE Partial ------------------------------
(***************************************************************************)
(* C27: partial links (-r) are transparent.                                *)
(* Abstract objects: each object contributes, per name, a definition kind  *)
(* (none / undef / weak / strong / common with a size), an ordered list of *)
(* init-array entries, and ordered fragments of output sections.  Link     *)
(* resolves names (first strong > largest common (first among equals) >    *)
(* first weak) and concatenates fragments in command-line order.           *)
(* PartialLink(S) of a CONTIGUOUS run S of the command line produces one   *)
(* object: per name the definition a link of S alone would select (the     *)
(* others are gone - a weak one next to a strong one is dropped, commons   *)
(* keep the largest size), still-undefined names stay undefined, fragments *)
(* concatenated in order.  The property: for every composition of the      *)
(* command line into contiguous runs, linking the partial objects gives    *)
(* the same abstract result (binding of every name to an original          *)
(* definition, fragment order, init order) as linking the originals.       *)
(***************************************************************************)
EXTENDS Integers, Sequences, FiniteSets, TLC

CONSTANTS NObj,        \* number of objects on the command line
          Names        \* symbol names

Kinds == {"none", "undef", "weak", "strong", "common4", "common8"}
Rank(k) == CASE k = "strong" -> 4 [] k = "common8" -> 3 [] k = "common4" -> 2 [] k = "weak" -> 1 [] OTHER -> 0
IsDef(k) == Rank(k) > 0

(* An abstract object: defs[n] = <<kind, origin>> where origin identifies the original definition
   (object index) that a reference bound to it reaches; frags = sequence of original object indexes
   whose fragments this object carries, in order. *)
Obj(i, kinds) == [defs |-> [n \in Names |-> <<kinds[n], i>>], frags |-> <<i>>]

(* The definition a link of the sequence `objs` selects for name n: <<kind, origin>> *)
RECURSIVE Select(_, _, _)
Select(objs, n, best) ==
    IF objs = <<>> THEN best
    ELSE LET d == Head(objs).defs[n]
             better == Rank(d[1]) > Rank(best[1])
         IN Select(Tail(objs), n, IF better THEN d ELSE best)

Resolve(objs, n) == Select(objs, n, <<"none", 0>>)

RECURSIVE Concat(_)
Concat(objs) == IF objs = <<>> THEN <<>> ELSE Head(objs).frags \o Concat(Tail(objs))

Referenced(objs, n) == \E k \in 1..Len(objs) : objs[k].defs[n][1] # "none"

(* Two strong definitions are an error in any link; exclude such inputs. *)
StrongCount(objs, n) == Cardinality({k \in 1..Len(objs) : objs[k].defs[n][1] = "strong"})
Linkable(objs) == \A n \in Names : StrongCount(objs, n) <= 1

(* Abstract result of a final link *)
Abstract(objs) == [bind |-> [n \in Names |-> IF Referenced(objs, n) THEN Resolve(objs, n)[2] ELSE 0],
                   order |-> Concat(objs)]

(* ld -r over a contiguous run *)
PartialLink(objs) ==
    [defs |-> [n \in Names |->
                  LET r == Resolve(objs, n) IN
                  IF IsDef(r[1]) THEN r
                  ELSE IF \E k \in 1..Len(objs) : objs[k].defs[n][1] = "undef" THEN <<"undef", 0>>
                  ELSE <<"none", 0>>],
     frags |-> Concat(objs)]

(* a composition of 1..NObj into contiguous runs is given by the set of cut positions (a cut at k
   separates object k from object k+1) *)
RECURSIVE SortSet(_)
SortSet(c) == IF c = {} THEN <<>>
              ELSE LET m == CHOOSE x \in c : \A y \in c : x <= y IN <<m>> \o SortSet(c \ {m})
Bounds(cuts) == <<0>> \o SortSet(cuts) \o <<NObj>>

(* the command line after the partial links *)
Compose(objs, cuts) ==
    LET b == Bounds(cuts) IN
    [r \in 1..(Len(b) - 1) |->
        LET run == SubSeq(objs, b[r] + 1, b[r + 1]) IN
        IF Len(run) = 1 THEN run[1] ELSE PartialLink(run)]

Transparent(objs, cuts) == Abstract(Compose(objs, cuts)) = Abstract(objs)
=============================================================================
