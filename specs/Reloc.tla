------------------------------- MODULE Reloc -------------------------------
(***************************************************************************)
(* Decision table for one relocation site (x86-64): symbol kind x          *)
(* reference kind x output kind x section writability x relax x relr.      *)
(*                                                                         *)
(* Declarative side (psABI / ELF gABI, what ANY correct linker must do):   *)
(*   Class(c)   "ok" the reference is representable: the link must yield   *)
(*                   the psABI value at every load base;                   *)
(*              "optional" representable only with a dynamic relocation in *)
(*                   a read-only section (GNU ld: DT_TEXTREL; wild does    *)
(*                   not support text relocations: it may reject);         *)
(*              "reject" no static value and no dynamic relocation can     *)
(*                   make the field right at every base: must be a link    *)
(*                   error, never a silent wrong value;                    *)
(*   Formula(c) the psABI value formula of the site;                       *)
(*   PsabiValue(f, ing) its evaluation on 64-bit words (LoaderW).          *)
(*                                                                         *)
(* Operational side: a transcription of wild's per-site decisions          *)
(*   Relax      libwild/src/elf_x86_64.rs  new_relaxation                  *)
(*   Process    libwild/src/elf.rs         process_relocation (~4766)      *)
(*   Write      libwild/src/elf_writer.rs  apply_relocation /              *)
(*                                         write_absolute_relocation       *)
(* giving the predicted outcome (link / diagnostic / accounting failure)   *)
(* and whether the value wild writes satisfies the formula at every base.  *)
(*                                                                         *)
(* Conform: the two sides agree on every case of the product, except on    *)
(* the named deviations Dev_* (each one is a defect of the pinned tree     *)
(* that the replay into the real binary reproduces; see the findings/C01 files).   *)
(* A deviation that no longer deviates is reported too (StaleDeviation).   *)
(***************************************************************************)
EXTENDS Integers, Sequences, FiniteSets, TLC, LoaderW

SymKinds == {"local_d", "global_d", "hidden_d", "protected_d", "global_f", "hidden_f", "protected_f",
             "abs_small", "abs_2g", "abs_4g", "weakundef", "imp_d", "imp_f", "ifunc", "tls_def", "tls_imp"}
DataRefs == {"abs64", "abs32", "pc32d", "pc64d", "gotpcrel_d", "dtpoff64"}
CodeRefs == {"abs64m", "abs32s", "abs32z", "pc32", "plt32", "gotpcrel", "rex_gotpcrelx", "gotpcrelx_mov32",
             "gotpcrelx_call", "gotpcrelx_jmp", "gotoff64", "got64", "pltoff64",
             "tpoff32", "gottpoff_mov", "gottpoff_add", "tlsgd", "tlsld", "tlsdesc"}
TlsRefs == {"tpoff32", "gottpoff_mov", "gottpoff_add", "tlsgd", "tlsld", "tlsdesc", "dtpoff64"}
CallRefs == {"plt32", "gotpcrelx_call", "gotpcrelx_jmp", "pltoff64"}
RefKinds == DataRefs \cup CodeRefs
Outs == {"static", "staticpie", "pie", "dynexe", "shared"}

Case == [sym : SymKinds, ref : RefKinds, out : Outs, secw : BOOLEAN, relax : BOOLEAN, relr : BOOLEAN]

(* ------------------------------------------------------------------ symbols / outputs *)
Cls(k) == CASE k \in {"local_d", "global_d", "hidden_d", "protected_d", "imp_d"} -> "data"
            [] k \in {"global_f", "hidden_f", "protected_f", "imp_f", "ifunc"} -> "func"
            [] k \in {"abs_small", "abs_2g", "abs_4g"} -> "abs"
            [] k = "weakundef" -> "weak"
            [] OTHER -> "tls"
Imported(k) == k \in {"imp_d", "imp_f", "tls_imp"}
DefaultVis(k) == k \in {"global_d", "global_f", "ifunc", "tls_def", "abs_small", "abs_2g", "abs_4g"}
PI(o) == o \in {"staticpie", "pie", "shared"}
Dyn(o) == o \in {"pie", "dynexe", "shared"}
Exe(o) == o # "shared"
StaticExe(o) == o \in {"static", "staticpie"}

(* may the definition be replaced / is it only known at load time *)
Preemptible(k, o) == Imported(k) \/ (k = "weakundef" /\ Dyn(o)) \/ (o = "shared" /\ DefaultVis(k))

SiteWritable(c) == c.ref \in DataRefs /\ c.secw
SiteExec(c) == c.ref \in CodeRefs

(* which cases exist at all *)
Applicable(c) ==
    /\ (Cls(c.sym) = "tls") = (c.ref \in TlsRefs)
    /\ Imported(c.sym) => Dyn(c.out)
    /\ c.ref \in CallRefs => Cls(c.sym) = "func"
    /\ ~(c.sym = "local_d" /\ c.ref = "got64")   \* gas reduces sym@GOT of a local to section+offset
    /\ ~(c.sym = "weakundef" /\ c.ref \in CallRefs)
    /\ c.ref \in CodeRefs => c.secw = FALSE         \* code sites live in .text
    /\ c.relr => PI(c.out)

(* ------------------------------------------------------------------ declarative side *)
Shape(r) == CASE r \in {"abs64", "abs64m"} -> "abs64"
              [] r \in {"abs32", "abs32s", "abs32z"} -> "abs32"
              [] r \in {"pc32", "pc32d", "pc64d"} -> "pcrel"
              [] r = "gotoff64" -> "gotrel"
              [] r \in {"gotpcrel", "rex_gotpcrelx", "gotpcrelx_mov32", "gotpcrel_d", "got64"} -> "gotload"
              [] r \in CallRefs -> "branch"
              [] r = "tpoff32" -> "tls-le"
              [] r \in {"gottpoff_mov", "gottpoff_add"} -> "tls-ie"
              [] r = "tlsgd" -> "tls-gd"
              [] r = "tlsld" -> "tls-ld"
              [] r = "dtpoff64" -> "tls-dtpoff"
              [] OTHER -> "tls-desc"

Formula(r) == CASE Shape(r) = "abs64" -> "S+A"
                [] Shape(r) = "abs32" -> "S+A"
                [] Shape(r) = "pcrel" -> "S+A-P"
                [] Shape(r) = "gotrel" -> "S+A-GOT"
                [] Shape(r) = "gotload" -> "GOT[S]"          \* G+GOT+A-P designates a slot holding S
                [] Shape(r) = "branch" -> "L"                \* L+A-P reaches S (directly or by a PLT entry)
                [] Shape(r) = "tls-le" -> "S+A-TP"
                [] Shape(r) = "tls-ie" -> "GOT[S-TP]"
                [] Shape(r) = "tls-gd" -> "GOT[mod,S-DTP]"
                [] Shape(r) = "tls-ld" -> "GOT[mod,0]+S-DTP"
                [] Shape(r) = "tls-dtpoff" -> "S+A-DTP"
                [] OTHER -> "DESC[S]"

(* psABI value formulas on 64-bit words; ing has fields S A P GOT TP (words) *)
PsabiValue(f, ing) ==
    CASE f = "S+A" -> Add64(ing.S, ing.A)
      [] f = "LOW32(S+A)" -> Low32(Add64(ing.S, ing.A))
      [] f = "S+A-P" -> Sub64(Add64(ing.S, ing.A), ing.P)
      [] f = "S+A-GOT" -> Sub64(Add64(ing.S, ing.A), ing.GOT)
      [] f = "S+A-TP" -> Sub64(Add64(ing.S, ing.A), ing.TP)

(* value category of S: "const" a number, "linkaddr" base-relative address fixed at link time,
   "runtime" known only to the loader *)
ValCat(k, o) == IF Preemptible(k, o) \/ k = "ifunc" THEN "runtime"
                ELSE IF Cls(k) \in {"abs", "weak"} THEN "const"
                ELSE "linkaddr"

(* an executable may turn a run-time function / object into a link-time address of its own
   (canonical PLT entry, copy relocation); only where the field cannot take a dynamic relocation *)
EffCat(c) ==
    LET vc == ValCat(c.sym, c.out) IN
    IF vc = "runtime" /\ Exe(c.out) /\ Cls(c.sym) \in {"data", "func"}
       /\ (Shape(c.ref) \in {"pcrel", "gotrel", "abs32"} \/ (Shape(c.ref) = "abs64" /\ ~SiteWritable(c)))
    THEN "linkaddr"
    \* a preemptible constant (absolute symbol of a shared object, undefined weak) referenced from a
    \* place that cannot take a dynamic relocation is bound statically, as GNU ld does
    ELSE IF vc = "runtime" /\ Cls(c.sym) \in {"abs", "weak"} /\ ~SiteWritable(c) THEN "const"
    ELSE vc

AbsVal(k) == CASE k = "abs_small" -> 4660 [] k = "abs_2g" -> 2 [] k = "abs_4g" -> 4 [] OTHER -> 0
(* does S+A leave the field's range (only decidable for constants) *)
Overflow(c) ==
    LET k == c.sym IN
    \/ c.ref = "abs32s" /\ k \in {"abs_2g", "abs_4g"}
    \/ c.ref \in {"abs32", "abs32z"} /\ k = "abs_4g"
    \/ c.ref \in {"pc32", "pc32d"} /\ k = "abs_4g" /\ ~PI(c.out)

Reason(c) ==
    LET k == c.sym
        o == c.out
        sh == Shape(c.ref)
        ec == EffCat(c)
    IN CASE sh = "abs64" /\ ec = "const" -> "ok"
         [] sh = "abs64" /\ ec = "linkaddr" ->
                IF ~PI(o) THEN "ok" ELSE IF SiteWritable(c) THEN "ok" ELSE "textrel"
         [] sh = "abs64" /\ ec = "runtime" -> IF SiteWritable(c) THEN "ok" ELSE "textrel"
         [] sh = "abs32" /\ ec = "const" -> IF Overflow(c) THEN "overflow" ELSE "ok"
         [] sh = "abs32" /\ ec = "linkaddr" -> IF PI(o) THEN "abs32-needs-dynreloc" ELSE "ok"
         [] sh = "abs32" /\ ec = "runtime" -> "abs32-needs-dynreloc"
         [] sh \in {"pcrel", "gotrel"} /\ ec = "const" ->
                IF PI(o) THEN "pcrel-const-in-pi" ELSE IF Overflow(c) THEN "overflow" ELSE "ok"
         [] sh \in {"pcrel", "gotrel"} /\ ec = "linkaddr" -> "ok"
         [] sh \in {"pcrel", "gotrel"} /\ ec = "runtime" ->
                IF Cls(k) = "func" THEN "pcrel-func-in-shared" ELSE "pcrel-to-runtime-symbol"
         [] sh = "gotload" -> "ok"
         [] sh = "branch" -> "ok"
         [] sh = "tls-le" -> IF Imported(k) THEN "local-tls-imported"
                             ELSE IF ~Exe(o) THEN "le-tls-in-shared" ELSE "ok"
         [] sh \in {"tls-ld", "tls-dtpoff"} -> IF Imported(k) THEN "local-tls-imported" ELSE "ok"
         [] OTHER -> "ok"

(* "optional": a linker may reject (text relocation needed / address of a preemptible function taken
   PC-relatively in a shared object, where a local PLT entry is callable but not the canonical address) *)
Class(c) == CASE Reason(c) = "ok" -> "ok"
              [] Reason(c) \in {"textrel", "pcrel-func-in-shared"} -> "optional"
              [] OTHER -> "reject"

(* ------------------------------------------------------------------ operational side: wild *)
(* ValueFlags of the symbol as wild computes them *)
WDynamic(k, o) == Imported(k) \/ (k = "weakundef" /\ Dyn(o))
WAbsolute(k) == Cls(k) = "abs" \/ k = "weakundef"
WIfunc(k) == k = "ifunc"
WFunction(k) == k = "imp_f"                      \* FUNCTION is only set for dynamic symbols
WInterposable(k, o) == Preemptible(k, o)
WAddress(k, o) == ~WIfunc(k) /\ ~WDynamic(k, o) /\ ~WAbsolute(k)
WRelocatable(o) == PI(o)

RawKind(r) == CASE r \in {"abs64", "abs64m", "abs32", "abs32s", "abs32z"} -> "Absolute"
                [] r \in {"pc32", "pc32d", "pc64d"} -> "Relative"
                [] r = "plt32" -> "PltRelative"
                [] r \in {"gotpcrel", "rex_gotpcrelx", "gotpcrelx_mov32", "gotpcrelx_call", "gotpcrelx_jmp",
                          "gotpcrel_d"} -> "GotRelative"
                [] r = "got64" -> "GotRelGotBase"
                [] r = "gotoff64" -> "SymRelGotBase"
                [] r = "pltoff64" -> "PltRelGotBase"
                [] r = "tpoff32" -> "TpOff"
                [] r \in {"gottpoff_mov", "gottpoff_add"} -> "GotTpOff"
                [] r = "tlsgd" -> "TlsGd"
                [] r = "tlsld" -> "TlsLd"
                [] r = "dtpoff64" -> "DtpOff"
                [] OTHER -> "TlsDesc"

(* Which relaxation rules are transcribed: "code" = the tree; "old" = the tree before `fix: don't relax
   GOT loads of absolute symbols into sign-extending or PC-relative forms` (REX.W mov of an absolute
   symbol relaxed to a sign-extending imm32, plain GOTPCREL mov of an absolute symbol relaxed to lea).
   "old" is only selected by mc/Reloc_oldrelax.cfg (definition override), which TLC must reject. *)
RelaxVariant == "code"

(* Relax: the relaxation new_relaxation offers, "" if none; Mandatory when the output is a static
   executable (or for the ifunc PC32 -> PLT32 rewrite) *)
RelaxOffer(c) ==
    LET k == c.sym
        o == c.out
        isAbs == WAbsolute(k) /\ ~WDynamic(k, o)
        isAbsAddr == WAddress(k, o) /\ ~WRelocatable(o)
        ip == WInterposable(k, o)
        old == RelaxVariant = "old"
    IN IF WIfunc(k) THEN (IF c.ref \in {"pc32", "pc32d"} THEN "ifunc-pc32-to-plt32" ELSE "")
       ELSE IF ~SiteExec(c) THEN ""
       ELSE CASE c.ref = "rex_gotpcrelx" ->
                     \* REX.W forms: the value of an absolute symbol is unknown here and the rewritten
                     \* instruction sign-extends its imm32: absolute symbols keep their GOT load
                     IF isAbs /\ ~old THEN ""
                     ELSE IF isAbs \/ isAbsAddr THEN "mov-to-imm" ELSE IF ~ip THEN "mov-to-lea" ELSE ""
              [] c.ref = "gotpcrelx_mov32" ->
                     IF isAbs \/ isAbsAddr THEN "mov-to-imm" ELSE IF ~ip THEN "mov-to-lea" ELSE ""
              [] c.ref \in {"gotpcrelx_call", "gotpcrelx_jmp"} ->
                     IF ~ip /\ (old \/ ~(isAbs /\ WRelocatable(o))) THEN "branch-to-direct" ELSE ""
              [] c.ref = "gotpcrel" -> IF ~ip /\ (old \/ ~isAbs) THEN "mov-to-lea" ELSE ""
              [] c.ref = "plt32" -> IF ~ip THEN "plt-to-pc" ELSE ""
              [] c.ref = "pltoff64" -> IF ~ip THEN "pltoff-to-gotoff" ELSE ""
              [] c.ref \in {"gottpoff_mov", "gottpoff_add"} -> IF Exe(o) /\ ~ip THEN "ie-to-le" ELSE ""
              [] c.ref = "tlsgd" -> IF Exe(o) THEN (IF ~ip THEN "gd-to-le" ELSE "gd-to-ie") ELSE ""
              [] c.ref = "tlsld" -> IF Exe(o) THEN "ld-to-le" ELSE ""
              [] c.ref = "tlsdesc" -> IF Exe(o) THEN (IF ~ip THEN "desc-to-le" ELSE "desc-to-ie") ELSE ""
              [] OTHER -> ""
RelaxMandatory(c) ==
    \/ RelaxOffer(c) = "ifunc-pc32-to-plt32"
    \/ StaticExe(c.out) /\ RelaxOffer(c) \notin {"", "gd-to-ie", "ie-to-le"} /\ c.ref # "gotpcrel"
RelaxApplied(c) == IF RelaxOffer(c) # "" /\ (c.relax \/ RelaxMandatory(c)) THEN RelaxOffer(c) ELSE ""

EffKind(c) ==
    LET rx == RelaxApplied(c) IN
    CASE rx = "mov-to-imm" -> "Absolute"
      [] rx \in {"mov-to-lea", "branch-to-direct", "plt-to-pc"} -> "Relative"
      [] rx = "ifunc-pc32-to-plt32" -> "PltRelative"
      [] rx = "pltoff-to-gotoff" -> "SymRelGotBase"
      [] rx \in {"ie-to-le", "gd-to-le", "desc-to-le"} -> "TpOff"
      [] rx \in {"gd-to-ie", "desc-to-ie"} -> "GotTpOff"
      [] rx = "ld-to-le" -> "None"
      [] OTHER -> RawKind(c.ref)

KindIsTls(kd) == kd \in {"TpOff", "GotTpOff", "TlsGd", "TlsLd", "DtpOff", "TlsDesc"}
NeedsDirect(kd) == kd \in {"Absolute", "Relative", "SymRelGotBase", "DtpOff", "TpOff"}

(* Process: what process_relocation does at the site: "" / a diagnostic / which part it allocates *)
WProcess(c) ==
    LET k == c.sym
        o == c.out
        kd == EffKind(c)
        w == SiteWritable(c)
    IN IF KindIsTls(kd) \/ kd = "None" THEN [err |-> "", part |-> "", promote |-> ""]
       ELSE IF NeedsDirect(kd) /\ WInterposable(k, o) THEN
            IF w THEN [err |-> "", part |-> "rela-general", promote |-> ""]
            ELSE IF WFunction(k) THEN [err |-> "", part |-> "", promote |-> "plt"]
            ELSE IF ~WAbsolute(k) THEN
                 IF Exe(o) THEN [err |-> "", part |-> "", promote |-> "copy"]
                 ELSE [err |-> "copyreloc-in-shared", part |-> "", promote |-> ""]
            ELSE [err |-> "", part |-> "", promote |-> ""]
       ELSE IF WIfunc(k) /\ kd = "Absolute" /\ w /\ WRelocatable(o) THEN
            [err |-> "", part |-> "rela-general", promote |-> ""]
       ELSE IF WRelocatable(o) /\ kd = "Absolute" /\ WAddress(k, o) THEN
            IF w THEN [err |-> "", part |-> "relative", promote |-> ""]
            ELSE [err |-> "readonly-abs", part |-> "", promote |-> ""]
       ELSE [err |-> "", part |-> "", promote |-> ""]

(* Write: which dynamic relocation write_absolute_relocation emits at the site *)
WWrite(c) ==
    LET k == c.sym
        o == c.out
        kd == EffKind(c)
        w == SiteWritable(c)
    IN IF kd # "Absolute" THEN ""
       ELSE IF WDynamic(k, o) /\ WAbsolute(k) /\ ~w THEN ""
       ELSE IF WInterposable(k, o) /\ w THEN "rela-general"
       ELSE IF WIfunc(k) /\ w /\ WRelocatable(o) THEN "rela-general"
       ELSE IF WRelocatable(o) /\ ~WAbsolute(k) THEN "relative"
       ELSE ""

(* range check wild applies to constants *)
WOverflow(c) ==
    LET kd == EffKind(c)
        k == c.sym
        rx == RelaxApplied(c)
    IN \/ Overflow(c) /\ ~(PI(c.out) /\ kd = "Absolute" /\ WInterposable(k, c.out) /\ SiteWritable(c))
       \/ rx = "mov-to-imm" /\ k = "abs_4g"                      \* relaxed to R_X86_64_32
       \* a 32-bit PC-relative field against 2^32 never fits, whatever the output kind
       \/ kd = "Relative" /\ k = "abs_4g" /\ (c.ref \in {"pc32", "pc32d"} \/ rx = "mov-to-lea")

(* order of detection: layout diagnostics; a missing reservation fails while the relocation is
   written; then the range check of the value; an unused reservation only at validate_empty *)
WOutcome(c) ==
    IF WProcess(c).err # "" THEN "diag:" \o WProcess(c).err
    ELSE IF WProcess(c).part # WWrite(c) /\ WWrite(c) # "" THEN "allocfail"
    ELSE IF WOverflow(c) THEN "diag:overflow"
    ELSE IF WProcess(c).part # WWrite(c) THEN "allocfail"
    ELSE "link"

(* does the value wild leaves satisfy the formula at every load base? *)
FieldIs32(c) == Shape(c.ref) = "abs32"
WValueOK(c) ==
    LET k == c.sym
        o == c.out
        kd == EffKind(c)
        rx == RelaxApplied(c)
        constS == WAbsolute(k)                                   \* value does not move with the base
    IN CASE kd = "Absolute" /\ rx = "mov-to-imm" ->
                \* imm32 of a REX.W mov is sign extended but range-checked as unsigned R_X86_64_32
                ~(c.ref = "rex_gotpcrelx" /\ k = "abs_2g")
         [] kd = "Absolute" /\ WWrite(c) # "" -> ~FieldIs32(c)    \* an 8-byte dynamic relocation on a 4-byte field
         [] kd = "Absolute" -> constS \/ ~PI(o) \/ (WDynamic(k, o) /\ WAbsolute(k))
         [] kd \in {"Relative", "SymRelGotBase"} -> ~(constS /\ PI(o))
         [] kd = "TpOff" -> ~Imported(k) /\ Exe(o)
         [] kd = "DtpOff" -> ~Imported(k) /\ (c.ref # "dtpoff64" \/ ~Exe(o))
         [] kd = "None" -> ~Imported(k)                              \* ld-to-le: the DTPOFF32 becomes a TPOFF
         [] kd = "TlsLd" -> ~Imported(k)
         [] OTHER -> TRUE

(* ------------------------------------------------------------------ conformance *)
Conform(c) ==
    CASE Class(c) = "ok" -> WOutcome(c) = "link" /\ WValueOK(c)
      [] Class(c) = "reject" -> WOutcome(c) # "link"
      [] OTHER -> WOutcome(c) # "link" \/ WValueOK(c)            \* optional: may reject, never silently wrong

(* Named deviations of the pinned tree (each reproduced against the real binary by the replay). *)
Dev_Abs32Dyn(c) == FieldIs32(c) /\ EffKind(c) = "Absolute" /\ WWrite(c) # "" /\ WOutcome(c) = "link"
Dev_PcrelConstPI(c) == /\ EffKind(c) \in {"Relative", "SymRelGotBase"} /\ RelaxApplied(c) = ""
                       /\ WAbsolute(c.sym) /\ PI(c.out) /\ WOutcome(c) = "link"
(* FIXED in the tree (174c817): the next two describe the old behaviour, reachable only with
   RelaxVariant = "old"; they are NOT accepted deviations any more (not in DevName) *)
Dev_GotpcrelAbsLea(c) == c.ref = "gotpcrel" /\ RelaxApplied(c) = "mov-to-lea" /\ WAbsolute(c.sym) /\ PI(c.out)
Dev_RexGotpcrelxSign(c) == c.ref = "rex_gotpcrelx" /\ RelaxApplied(c) = "mov-to-imm" /\ c.sym = "abs_2g"
Dev_RelaxImmOverflow(c) == RelaxApplied(c) \in {"mov-to-imm", "mov-to-lea"} /\ c.sym = "abs_4g"   \* valid GOT load rejected
Dev_DtpoffExe(c) == c.ref = "dtpoff64" /\ Exe(c.out) /\ ~Imported(c.sym)
Dev_LocalTlsImported(c) == Reason(c) = "local-tls-imported" /\ WOutcome(c) = "link"
Dev_LeTlsShared(c) == Reason(c) = "le-tls-in-shared" /\ WOutcome(c) = "link"
Dev_AllocPcrelWritable(c) == WOutcome(c) = "allocfail" /\ WProcess(c).part = "rela-general" /\ WWrite(c) = ""
Dev_AllocAbsReadonly(c) == WOutcome(c) = "allocfail" /\ WProcess(c).part = "" /\ WWrite(c) = "relative"
Dev_OverflowUnchecked(c) == Reason(c) = "overflow" /\ WOutcome(c) = "link"

DevName(c) ==
    CASE Dev_AllocPcrelWritable(c) -> "alloc-pcrel-interposable-writable"
      [] Dev_AllocAbsReadonly(c) -> "alloc-abs-readonly-nonaddress-pi"
      [] Dev_Abs32Dyn(c) -> "abs32-needs-dynreloc"
      [] Dev_OverflowUnchecked(c) -> "overflow-unchecked"
      [] Dev_PcrelConstPI(c) -> "pcrel-const-in-pi"
      [] Dev_RelaxImmOverflow(c) -> "relax-imm-overflow"
      [] Dev_DtpoffExe(c) -> "dtpoff64-exe"
      [] Dev_LocalTlsImported(c) -> "local-tls-imported"
      [] Dev_LeTlsShared(c) -> "le-tls-in-shared"
      [] OTHER -> ""

ConformOrNamed(c) == Conform(c) \/ DevName(c) # ""
AllocDevs == {"alloc-pcrel-interposable-writable", "alloc-abs-readonly-nonaddress-pi"}
StaleDeviation(c) == DevName(c) # "" /\ Conform(c) /\ DevName(c) \notin AllocDevs
(* every predicted accounting failure is one of the two named ones (C23) *)
AllocNamed(c) == WOutcome(c) = "allocfail" => DevName(c) \in AllocDevs

(* what the replay should see: "link-ok" / "link-wrong" / "diag" / "allocfail" *)
Predicted(c) == IF WOutcome(c) = "link" THEN (IF WValueOK(c) THEN "link-ok" ELSE "link-wrong")
                ELSE IF WOutcome(c) = "allocfail" THEN "allocfail" ELSE "diag"
=============================================================================
