----------------------------- MODULE RelocRange -----------------------------
(***************************************************************************)
(* C12 - Relocation overflow is reported exactly when a value doesn't fit. *)
(*                                                                         *)
(* Table of static relocation types of x86-64 and AArch64 with the range   *)
(* check their psABI defines (x86-64 psABI 1.0 table 4.9 and the text on   *)
(* R_X86_64_32/32S; "ELF for the Arm 64-bit Architecture" tables 5.7.x,    *)
(* column "overflow check"), the decision rule                             *)
(*     Accept(t, place, v)  <=>  Fits(t, v)    (wherever the place is:     *)
(*                                  loaded section or non-alloc debug one) *)
(* and what an accepted value leaves in the output                         *)
(*     Stored(t, v)   (low bytes for data relocations, the instruction's   *)
(*                     immediate field for instruction relocations),       *)
(* with NoTruncation: decoding the stored field with the type's extension  *)
(* rule gives back v.  Values are 64-bit two's complement, as sets of bit  *)
(* positions (TLC integers are 32-bit).                                    *)
(*                                                                         *)
(* sign:  "signed"    -2^(n-1) <= v < 2^(n-1)                              *)
(*        "unsigned"  0 <= v < 2^n                                         *)
(*        "either"    -2^(n-1) <= v < 2^n   (a field that may hold a       *)
(*                     signed or an unsigned quantity: x86-64 8/16-bit     *)
(*                     data, AArch64 ABS16/32, PREL16/32)                  *)
(*        "none"      no check (64-bit fields, _NC types)                  *)
(* The x86-64 psABI says nothing about overflow of R_X86_64_8/16/PC8/PC16; *)
(* "either" for 8/16 and "signed" for PC8/PC16 is what GNU ld and lld both *)
(* implement on the values where they agree; the harness pins every row of *)
(* this table against the two linkers (x86-64) / ld.lld (AArch64).         *)
(***************************************************************************)
EXTENDS InsnFields

T(arch, name, rtype, n, sign, size, insn, lo, hi, align) ==
    [arch |-> arch, name |-> name, rtype |-> rtype, n |-> n, sign |-> sign, size |-> size,
     insn |-> insn, lo |-> lo, hi |-> hi, align |-> align]
(* data relocation: `size` bytes hold the low bits of the value *)
D(arch, name, rtype, n, sign, size) == T(arch, name, rtype, n, sign, size, "", 0, 8 * size, 1)
(* instruction relocation: bits lo..hi-1 of the value go to the immediate field of `insn` *)
I(arch, name, rtype, n, sign, insn, lo, hi, align) == T(arch, name, rtype, n, sign, 0, insn, lo, hi, align)

Types == <<
  D("x86_64", "R_X86_64_64", 1, 64, "none", 8),
  D("x86_64", "R_X86_64_PC32", 2, 32, "signed", 4),
  D("x86_64", "R_X86_64_PLT32", 4, 32, "signed", 4),
  D("x86_64", "R_X86_64_32", 10, 32, "unsigned", 4),
  D("x86_64", "R_X86_64_32S", 11, 32, "signed", 4),
  D("x86_64", "R_X86_64_16", 12, 16, "either", 2),
  D("x86_64", "R_X86_64_PC16", 13, 16, "signed", 2),
  D("x86_64", "R_X86_64_8", 14, 8, "either", 1),
  D("x86_64", "R_X86_64_PC8", 15, 8, "signed", 1),
  D("x86_64", "R_X86_64_PC64", 24, 64, "none", 8),
  (* AArch64 data *)
  D("aarch64", "R_AARCH64_ABS64", 257, 64, "none", 8),
  D("aarch64", "R_AARCH64_ABS32", 258, 32, "either", 4),
  D("aarch64", "R_AARCH64_ABS16", 259, 16, "either", 2),
  D("aarch64", "R_AARCH64_PREL64", 260, 64, "none", 8),
  D("aarch64", "R_AARCH64_PREL32", 261, 32, "either", 4),
  D("aarch64", "R_AARCH64_PREL16", 262, 16, "either", 2),
  D("aarch64", "R_AARCH64_PLT32", 314, 32, "signed", 4),
  (* AArch64 MOVW groups *)
  I("aarch64", "R_AARCH64_MOVW_UABS_G0", 263, 16, "unsigned", "Movkz", 0, 16, 1),
  I("aarch64", "R_AARCH64_MOVW_UABS_G0_NC", 264, 64, "none", "Movkz", 0, 16, 1),
  I("aarch64", "R_AARCH64_MOVW_UABS_G1", 265, 32, "unsigned", "Movkz", 16, 32, 1),
  I("aarch64", "R_AARCH64_MOVW_UABS_G1_NC", 266, 64, "none", "Movkz", 16, 32, 1),
  I("aarch64", "R_AARCH64_MOVW_UABS_G2", 267, 48, "unsigned", "Movkz", 32, 48, 1),
  I("aarch64", "R_AARCH64_MOVW_UABS_G2_NC", 268, 64, "none", "Movkz", 32, 48, 1),
  I("aarch64", "R_AARCH64_MOVW_UABS_G3", 269, 64, "none", "Movkz", 48, 64, 1),
  I("aarch64", "R_AARCH64_MOVW_SABS_G0", 270, 17, "signed", "Movnz", 0, 16, 1),
  I("aarch64", "R_AARCH64_MOVW_SABS_G1", 271, 33, "signed", "Movnz", 16, 32, 1),
  I("aarch64", "R_AARCH64_MOVW_SABS_G2", 272, 49, "signed", "Movnz", 32, 48, 1),
  (* AArch64 PC-relative addressing *)
  I("aarch64", "R_AARCH64_LD_PREL_LO19", 273, 21, "signed", "Ldr", 2, 21, 4),
  I("aarch64", "R_AARCH64_ADR_PREL_LO21", 274, 21, "signed", "Adr", 0, 21, 1),
  (* AArch64 control flow *)
  I("aarch64", "R_AARCH64_TSTBR14", 279, 16, "signed", "TstBr", 2, 16, 4),
  I("aarch64", "R_AARCH64_CONDBR19", 280, 21, "signed", "Bcond", 2, 21, 4),
  I("aarch64", "R_AARCH64_JUMP26", 282, 28, "signed", "JumpCall", 2, 28, 4),
  I("aarch64", "R_AARCH64_CALL26", 283, 28, "signed", "JumpCall", 2, 28, 4),
  (* AArch64 PC-relative MOVW groups *)
  I("aarch64", "R_AARCH64_MOVW_PREL_G0", 287, 17, "signed", "Movnz", 0, 16, 1),
  I("aarch64", "R_AARCH64_MOVW_PREL_G0_NC", 288, 64, "none", "Movkz", 0, 16, 1),
  I("aarch64", "R_AARCH64_MOVW_PREL_G1", 289, 33, "signed", "Movnz", 16, 32, 1),
  I("aarch64", "R_AARCH64_MOVW_PREL_G1_NC", 290, 64, "none", "Movkz", 16, 32, 1),
  I("aarch64", "R_AARCH64_MOVW_PREL_G2", 291, 49, "signed", "Movnz", 32, 48, 1),
  I("aarch64", "R_AARCH64_MOVW_PREL_G2_NC", 292, 64, "none", "Movkz", 32, 48, 1),
  I("aarch64", "R_AARCH64_MOVW_PREL_G3", 293, 64, "none", "Movnz", 48, 64, 1)
>>

-----------------------------------------------------------------------------
(* 64-bit two's complement values as bit sets *)
Neg(V) == 63 \in V
FitsUnsigned(n, V) == V \cap (n..63) = {}
FitsSigned(n, V) == (V \cap ((n - 1)..63) = {}) \/ (((n - 1)..63) \subseteq V)

Fits(t, V) ==
    CASE t.sign = "none" -> TRUE
      [] t.sign = "unsigned" -> FitsUnsigned(t.n, V)
      [] t.sign = "signed" -> FitsSigned(t.n, V)
      [] t.sign = "either" -> FitsUnsigned(t.n, V) \/ FitsSigned(t.n, V)

Log2(a) == CHOOSE k \in 0..4 : 2^k = a
Aligned(t, V) == V \cap (0..(Log2(t.align) - 1)) = {}

(* The field content an accepted value leaves behind: value bits lo..hi-1, renumbered from 0 *)
Stored(t, V) == {i - t.lo : i \in (V \cap (t.lo..(t.hi - 1)))}

(* Decoding the stored field back with the type's extension rule.  What must be recoverable is the
   value from bit lo upward: the bits below lo are zero for the aligned (scaled) types and are
   written by the sibling _NC relocations for the upper MOVW groups.  The signed MOVW groups carry
   the sign in the opcode (MOVN/MOVZ), not in the field. *)
High(t, V) == V \cap (t.lo..63)
ZeroExt(t, F) == {i + t.lo : i \in F}
SignExt(t, F) == ZeroExt(t, F) \cup (IF (t.hi - 1 - t.lo) \in F THEN t.hi..63 ELSE {})
MovExt(t, F, neg) == ZeroExt(t, F) \cup (IF neg THEN t.hi..63 ELSE {})
NoTruncation(t, V) ==
    t.sign # "none" =>
        \/ t.sign \in {"unsigned", "either"} /\ ZeroExt(t, Stored(t, V)) = High(t, V)
        \/ t.sign \in {"signed", "either"} /\ t.insn # "Movnz" /\ SignExt(t, Stored(t, V)) = High(t, V)
        \/ t.insn = "Movnz" /\ MovExt(t, Stored(t, V), Neg(V)) = High(t, V)

(* Every value that passes the psABI check (and is aligned) is stored without loss ... *)
FitsImpliesNoTruncation(t, V) == (Fits(t, V) /\ Aligned(t, V)) => NoTruncation(t, V)
(* ... and the check is tight: an aligned value that fails it is not recoverable from the field *)
Tight(t, V) == (t.sign # "none" /\ ~Fits(t, V) /\ Aligned(t, V)) => ~NoTruncation(t, V)

(* Where the place lives.  A relocation in a section that is not loaded (non-alloc `.debug_*`) is an
   ordinary static relocation: its value is computed the same way (S + A for the absolute data types,
   the only ones that can appear there) and must pass the same check - there is no "debug values
   always fit" exemption.  The decision rule therefore does not look at the place. *)
Places == {"alloc", "debug"}
AbsoluteData == {"R_X86_64_64", "R_X86_64_32", "R_X86_64_32S", "R_X86_64_16", "R_X86_64_8",
                 "R_AARCH64_ABS64", "R_AARCH64_ABS32", "R_AARCH64_ABS16"}
LegalIn(t, place) == place = "alloc" \/ t.name \in AbsoluteData
FitsAt(t, place, V) == Fits(t, V)

(* For instruction relocations: the word that results over a zero instruction word, through the
   field layout of InsnFields *)
EncOf(t) == CHOOSE i \in 1..Len(Encodings) : Encodings[i].arch = t.arch /\ Encodings[i].use = t.insn
ExpectedWord(t, V) == IF t.insn = "" THEN Stored(t, V)
                      ELSE Write(Encodings[EncOf(t)], {}, Stored(t, V), Neg(V))
=============================================================================
