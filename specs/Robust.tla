------------------------------- MODULE Robust -------------------------------
(***************************************************************************)
(* C22 - malformed input produces a diagnostic, never a crash or a hang.   *)
(*                                                                         *)
(* The specification contributes two things, said plainly:                 *)
(*  (1) the outcome oracle: every run of the linker ends in one of the     *)
(*      classes Success or Diagnostic (non-zero exit AND a message) within *)
(*      the time limit; Panic, Signal and Hang are forbidden, whatever the *)
(*      input was;                                                         *)
(*  (2) a mutation grammar  carrier x locus x mutation  whose full product *)
(*      TLC enumerates and exports; checks/c22.py applies every descriptor *)
(*      to a valid seed input of that carrier (which links unmutated),     *)
(*      runs the real wild forked and with --no-fork, and classifies.      *)
(* There is no deep state space here: this is robustness testing with a    *)
(* model-derived, exhaustive-by-construction corpus, not model checking of *)
(* an algorithm.                                                           *)
(***************************************************************************)
EXTENDS Naturals, Sequences, FiniteSets, TLC, Json

(* ---------------- outcome oracle ---------------- *)
Outcomes == {"success", "diagnostic", "panic", "signal", "hang", "silent-failure"}
Allowed == {"success", "diagnostic"}
(* an observation of one run: exit status, killed by signal?, timed out?, stderr facts *)
Classify(o) ==
    IF o.timed_out THEN "hang"
    ELSE IF o.signaled THEN "signal"
    ELSE IF o.rc = 101 \/ o.panic_text THEN "panic"
    ELSE IF o.rc = 0 THEN "success"
    ELSE IF o.message THEN "diagnostic"
    ELSE "silent-failure"
OutcomeOk(o) == Classify(o) \in Allowed

(* ---------------- numeric field mutations ---------------- *)
(* bound = the natural limit of the field (file size, table length, string table size, ...) *)
NumMut == {"zero", "one", "minus1", "max", "bound-1", "bound", "bound+1", "swap-next", "truncate-here"}

(* ---------------- relocatable object ---------------- *)
EhdrFields == {"e_ident_class", "e_ident_data", "e_type", "e_machine", "e_shoff", "e_shentsize", "e_shnum", "e_shstrndx"}
ShdrFields == {"sh_name", "sh_type", "sh_flags", "sh_offset", "sh_size", "sh_link", "sh_info", "sh_addralign", "sh_entsize"}
ObjSections == {"text", "data", "bss", "rela_text", "symtab", "strtab", "shstrtab", "group", "comdat_text", "note_property",
                "note_stack", "eh_frame", "rela_eh_frame", "merge_strings", "merge_const", "tdata", "init_array",
                "compressed_debug", "symtab_shndx"}
SymKinds == {"null", "section", "local", "global_def", "global_undef", "weak", "tls", "common"}
SymFields == {"st_name", "st_info", "st_other", "st_shndx", "st_value", "st_size"}
RelaTables == {"rela_text", "rela_eh_frame", "rela_data"}
RelaFields == {"r_offset", "r_sym", "r_type", "r_addend"}
OtherObjLoci == {"group_flags", "group_member0", "group_member_last", "note_namesz", "note_descsz", "note_type",
                 "property_type", "property_datasz", "cie_length", "cie_id", "cie_version", "cie_augmentation",
                 "fde_length", "fde_cie_pointer", "fde_pc_begin", "fde_pc_range", "chdr_type", "chdr_size",
                 "chdr_addralign", "shndx_entry0", "merge_last_byte"}
ObjLoci == {<<"ehdr", f>> : f \in EhdrFields}
           \cup {<<"shdr", s, f>> : s \in ObjSections, f \in ShdrFields}
           \cup {<<"sym", k, f>> : k \in SymKinds, f \in SymFields}
           \cup {<<"rela", t, f>> : t \in RelaTables, f \in RelaFields}
           \cup {<<"other", l>> : l \in OtherObjLoci}

(* ---------------- shared object ---------------- *)
PhdrKinds == {"load0", "load_last", "dynamic", "gnu_relro"}
PhdrFields == {"p_type", "p_flags", "p_offset", "p_vaddr", "p_filesz", "p_memsz", "p_align"}
DynTags == {"DT_NEEDED", "DT_SONAME", "DT_SYMTAB", "DT_STRTAB", "DT_STRSZ", "DT_SYMENT", "DT_GNU_HASH", "DT_VERSYM",
            "DT_VERDEF", "DT_VERDEFNUM", "DT_VERNEED", "DT_VERNEEDNUM", "DT_NULL"}
SoSections == {"dynsym", "dynstr", "dynamic", "gnu_hash", "gnu_version", "gnu_version_d", "gnu_version_r", "shstrtab"}
SoOther == {"versym0", "versym_last", "vd_version", "vd_cnt", "vd_aux", "vd_next", "vda_name", "vn_cnt", "vn_aux",
            "vn_file", "vna_name", "vna_other", "gh_nbuckets", "gh_symoffset", "gh_bloom_size", "gh_bloom_shift"}
SoLoci == {<<"ehdr", f>> : f \in EhdrFields \cup {"e_phoff", "e_phnum", "e_phentsize"}}
          \cup {<<"phdr", k, f>> : k \in PhdrKinds, f \in PhdrFields}
          \cup {<<"dyn", t, f>> : t \in DynTags, f \in {"d_tag", "d_val"}}
          \cup {<<"shdr", s, f>> : s \in SoSections, f \in ShdrFields}
          \cup {<<"sym", k, f>> : k \in {"null", "global_def", "global_undef"}, f \in SymFields}
          \cup {<<"other", l>> : l \in SoOther}

(* ---------------- archives ---------------- *)
ArFieldMut == {"zero", "one", "minus1", "huge", "bound-1", "bound", "bound+1", "non-digit", "empty", "truncate-here"}
ArLoci == {"magic", "symtab_name", "symtab_size", "symtab_count", "symtab_offset0", "symtab_strings",
           "longnames_name", "longnames_size", "member_name", "member_longname_ref", "member_date", "member_mode",
           "member_size", "member_fmag", "member_last_size", "member_padding"}
ThinExtra == {"member_path_missing", "member_path_directory", "member_path_self", "member_path_absolute", "member_path_dotdot"}

(* ---------------- texts ---------------- *)
TextCarriers == {"linker_script", "version_script", "export_list", "response_file"}
TextOps == {"delete", "duplicate", "open-brace", "close-brace", "open-paren", "close-paren", "semicolon", "quote",
            "open-comment", "huge-number", "hex-prefix", "non-utf8", "nul-byte", "truncate-after", "star", "backslash"}
(* Texts contain NAMES THAT REFER to other parts of the same text (a version node's parent, the sections and
   symbols of a linker script): "xref-k" replaces the token (if it is a word) by the k-th distinct word of the
   text - which yields self-, forward- and cyclic references and keywords in name position. *)
XrefOps == {"xref-0", "xref-1", "xref-2", "xref-3", "xref-4", "xref-5", "xref-6", "xref-7", "xref-8", "xref-9"}
TokenPositions == 0..23
WholeTextOps == {"empty", "whitespace-only", "only-open-brace", "only-comment-open", "very-long-token", "deep-nesting", "all-ff"}

(* ---------------- argument lists ---------------- *)
OptionShapes == {"flag", "param"}                    \* as listed by `wild --help` (harness expands over every option)
ArgMut == {"missing-param-at-end", "empty-param", "garbage-param", "huge-number", "negative-number", "non-utf8-param",
           "param-is-option", "repeated-100", "unknown-suffix", "equals-on-flag", "at-file-missing", "at-file-self",
           "at-file-mutual", "at-file-directory", "at-file-binary", "only-option", "path-is-directory", "path-too-long"}

(* ---------------- the product ---------------- *)
Cases ==
    {[carrier |-> "object", locus |-> l, mutation |-> m] : l \in ObjLoci, m \in NumMut}
    \cup {[carrier |-> "shared_object", locus |-> l, mutation |-> m] : l \in SoLoci, m \in NumMut}
    \cup {[carrier |-> c, locus |-> <<"ar", l>>, mutation |-> m] : c \in {"archive", "thin_archive"}, l \in ArLoci, m \in ArFieldMut}
    \cup {[carrier |-> "thin_archive", locus |-> <<"thin", l>>, mutation |-> "apply"] : l \in ThinExtra}
    \cup {[carrier |-> c, locus |-> <<"token", p>>, mutation |-> o] : c \in TextCarriers, p \in TokenPositions, o \in TextOps}
    \cup {[carrier |-> c, locus |-> <<"token", p>>, mutation |-> o] : c \in TextCarriers, p \in TokenPositions, o \in XrefOps}
    \cup {[carrier |-> c, locus |-> <<"whole">>, mutation |-> o] : c \in TextCarriers, o \in WholeTextOps}
    \cup {[carrier |-> "argv", locus |-> <<"option", s>>, mutation |-> m] : s \in OptionShapes, m \in ArgMut}

VARIABLE case
Init == case \in Cases
Next == UNCHANGED case
Spec == Init /\ [][Next]_case

Emit == PrintT(<<"REPLAY", ToJson(case)>>)

(* sanity of the oracle itself (checked by TLC over all observation shapes) *)
Obs == [rc : {0, 1, 101, 255}, signaled : BOOLEAN, timed_out : BOOLEAN, panic_text : BOOLEAN, message : BOOLEAN]
OracleSane ==
    /\ \A o \in Obs : OutcomeOk(o) => (~o.timed_out /\ ~o.signaled /\ ~o.panic_text /\ o.rc # 101)
    /\ \A o \in Obs : (o.rc # 0 /\ ~o.message) => ~OutcomeOk(o)
    /\ \A o \in Obs : (o.rc = 0 /\ ~o.timed_out /\ ~o.signaled /\ ~o.panic_text) => OutcomeOk(o)
(* the forbidden classes are reachable in the vocabulary (anti-vacuity: must be violated) *)
NothingForbidden == \A o \in Obs : OutcomeOk(o)
=============================================================================
