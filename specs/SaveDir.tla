------------------------------ MODULE SaveDir ------------------------------
(***************************************************************************)
(* C24 - save-dir bundles replay to an identical output.                   *)
(*                                                                         *)
(* The `run-with` script that wild writes into a save directory is a bash  *)
(* script:  prelude;  exec "$@" <sep> arg <sep> arg ...   where <sep> is   *)
(* ` \<newline>  `.  Arguments that were read from a response file are     *)
(* re-materialised through `at-N.txt` (one argument per line, read back by *)
(* a `read -r` loop that substitutes `$D` / `$OUT`, then by wild's own     *)
(* response-file lexer).  The replay can only reproduce the output if the  *)
(* words the shell (resp. the response-file lexer) forms from the text     *)
(* wild wrote are the original arguments (modulo rebasing of paths into    *)
(* the bundle).  This module contains                                      *)
(*   - ShellWords: a model of bash word formation (unquoted / '..' / ".."  *)
(*     / backslash, $name expansion, comments, tilde, pathname expansion,  *)
(*     control operators) over character CLASSES,                          *)
(*   - RspWords: a transcription of wild's arguments_from_string,          *)
(*   - Script / AtFile: a transcription of SaveDirState::write_args,       *)
(*     write_copied_file_arg, write_quoted, write_shell_quoted as coded    *)
(*     today (libwild/src/save_dir.rs),                                    *)
(*   - the property RoundTrip, checked by TLC as an invariant of that      *)
(*     quoting for every text, and the quoting wild had before the fix     *)
(*     (OldScript / OldAtFile), which TLC must reject.                     *)
(* TLC enumerates all texts up to MaxLen over the classes in every         *)
(* position kind and exports (kind, text, verdict, blamed class).  The     *)
(* harness (checks/c24.py) replays every exported case into the real wild  *)
(* and the real bash.                                                      *)
(***************************************************************************)
EXTENDS Naturals, Sequences, FiniteSets, TLC, Json

CONSTANT MaxLen

(* character classes an argument text is built from (one representative byte each, see c24.py) *)
TextChars == {"a", "D", "sp", "tab", "nl", "sq", "dq", "dol", "bs", "bq", "semi", "amp", "pipe",
              "lpar", "lt", "star", "qm", "hash", "tilde", "eq", "dash", "at",
              "vt", "ff", "nel", "nbsp", "emsp", "idsp"}
(* vt = U+000B, ff = U+000C, nel = U+0085, nbsp = U+00A0, emsp = U+2003, idsp = U+3000: white space for
   Rust's char::is_whitespace (what wild's response-file lexer splits on) but ORDINARY characters for
   bash, whose blanks are space and tab only.  The asymmetry matters: an at-file must escape them, a
   shell script need not (and inside single quotes nothing is special anyway). *)
UniWs == {"vt", "ff", "nel", "nbsp", "emsp", "idsp"}
(* further plain characters used only by the fixed parts of the script *)
NameCh(c) == c \in {"a", "D", "w", "L", "h", "d", "O", "U", "T", "o"}
Blank(c) == c \in {"sp", "tab"}
Oper(c) == c \in {"semi", "amp", "pipe", "lpar", "lt"}

Kinds == {"file", "out", "opteq", "optsep", "libdir", "rspfile", "rspopt"}
ShellKinds == {"file", "out", "opteq", "optsep", "libdir"}

Texts == UNION {[1..n -> TextChars] : n \in 1..MaxLen}

(* values of the script's variables: plain words *)
DVal == <<"d">>
OutVal == <<"o">>

(* ----------------------------------------------------------------------- *)
(* The file system the replay sees (adversarial but legal): the bundle's   *)
(* copy of the input directory contains the input itself and the two other *)
(* inputs `zz` and `aa` (given in that order after it); the current        *)
(* directory contains files `a` and `aa`.                                  *)
InDirFiles(text) == {<<"a", "a">>, <<"z", "z">>, text}
CwdFiles == {<<"a">>, <<"a", "a">>}

Broken(why) == [ok |-> FALSE, why |-> why, words |-> <<>>]
Start == [ok |-> TRUE, why |-> "", words |-> <<>>]

Unq(w) == [i \in 1..Len(w) |-> w[i][1]]

RECURSIVE GMatch(_, _)
GMatch(p, n) ==
    IF p = <<>> THEN n = <<>>
    ELSE LET h == Head(p) IN
         IF ~h[2] /\ h[1] = "star" THEN GMatch(Tail(p), n) \/ (n # <<>> /\ GMatch(p, Tail(n)))
         ELSE IF ~h[2] /\ h[1] = "qm" THEN n # <<>> /\ GMatch(Tail(p), Tail(n))
         ELSE n # <<>> /\ h[1] = Head(n) /\ GMatch(Tail(p), Tail(n))

HasGlob(w) == \E i \in 1..Len(w) : ~w[i][2] /\ w[i][1] \in {"star", "qm"}
LastSlash(w) == LET S == {i \in 1..Len(w) : w[i][1] = "slash"} IN
                IF S = {} THEN 0 ELSE CHOOSE i \in S : \A j \in S : j <= i

(* Pathname expansion of one finished word: no match -> the word stays; one match -> the matching
   file name (which may or may not be the original text); several -> several words.
   `text` only tells which files exist. *)
GlobMatches(w, text) ==
    LET k == LastSlash(w)
        dir == Unq(SubSeq(w, 1, k))
        pat == SubSeq(w, k + 1, Len(w))
        files == IF k = 0 THEN CwdFiles
                 ELSE IF dir = DVal \o <<"slash", "a", "slash">> THEN InDirFiles(text)
                 ELSE {}
    IN  {dir \o n : n \in {n \in files : GMatch(pat, n)}}

EndWord(cur, has, acc, text) ==
    IF ~acc.ok \/ ~has THEN acc
    ELSE IF ~HasGlob(cur) THEN [acc EXCEPT !.words = Append(@, Unq(cur))]
    ELSE IF HasGlob(SubSeq(cur, 1, LastSlash(cur))) THEN Broken("glob")
    ELSE LET m == GlobMatches(cur, text) IN
         IF m = {} THEN [acc EXCEPT !.words = Append(@, Unq(cur))]
         ELSE IF Cardinality(m) = 1 THEN [acc EXCEPT !.words = Append(@, CHOOSE x \in m : TRUE)]
         ELSE Broken("glob")

Lit(s, q) == [i \in 1..Len(s) |-> <<s[i], q>>]

(* end index of the maximal run of name characters starting at i *)
RECURSIVE NameEnd(_, _)
NameEnd(s, i) == IF i <= Len(s) /\ NameCh(s[i]) THEN NameEnd(s, i + 1) ELSE i - 1

VarVal(name) == IF name = <<"D">> THEN DVal ELSE IF name = <<"O", "U", "T">> THEN OutVal ELSE <<>>

At(s, i) == IF i <= Len(s) THEN s[i] ELSE "end"

(* is `cur` (unquoted so far) of the form  name=  ? bash (non-posix mode) tilde-expands after it *)
AssignPrefix(cur) ==
    /\ Len(cur) >= 2
    /\ cur[Len(cur)][1] = "eq" /\ ~cur[Len(cur)][2]
    /\ \A i \in 1..(Len(cur) - 1) : NameCh(cur[i][1]) /\ ~cur[i][2]

WordEnds(c) == c \in {"end", "sp", "tab", "nl", "slash"} \/ Oper(c)

RECURSIVE LexU(_, _, _, _, _, _, _), LexS(_, _, _, _, _), LexD(_, _, _, _, _)

(* s script, i position, cur current word as <<class, quoted>> pairs, has: a word will be produced,
   st: the word has lexically started, acc: result so far, text: see GlobMatches *)
LexU(s, i, cur, has, st, acc, text) ==
    IF ~acc.ok THEN acc
    ELSE IF i > Len(s) THEN EndWord(cur, has, acc, text)
    ELSE LET c == s[i]
             nx == At(s, i + 1)
         IN
         IF Blank(c) THEN LexU(s, i + 1, <<>>, FALSE, FALSE, EndWord(cur, has, acc, text), text)
         ELSE IF c = "nl" THEN Broken("newline")
         ELSE IF c = "bs" THEN
              IF nx = "nl" THEN LexU(s, i + 2, cur, has, st, acc, text)
              ELSE IF nx = "end" THEN LexU(s, i + 1, Append(cur, <<"bs", TRUE>>), TRUE, TRUE, acc, text)
              ELSE LexU(s, i + 2, Append(cur, <<nx, TRUE>>), TRUE, TRUE, acc, text)
         ELSE IF c = "sq" THEN LexS(s, i + 1, cur, acc, text)
         ELSE IF c = "dq" THEN LexD(s, i + 1, cur, acc, text)
         ELSE IF c = "dol" THEN
              IF NameCh(nx) THEN
                  LET j == NameEnd(s, i + 1)
                      v == VarVal(SubSeq(s, i + 1, j))
                  IN LexU(s, j + 1, cur \o Lit(v, FALSE), has \/ v # <<>>, TRUE, acc, text)
              ELSE IF nx \in {"sq", "dq"} THEN Broken("dollar-quote")
              ELSE IF nx = "lpar" THEN Broken("command-substitution")
              ELSE IF nx \in {"star", "at", "hash", "qm", "dash", "dol"} THEN Broken("special-parameter")
              ELSE LexU(s, i + 1, Append(cur, <<"dol", FALSE>>), TRUE, TRUE, acc, text)
         ELSE IF c = "bq" THEN Broken("command-substitution")
         ELSE IF Oper(c) THEN Broken("operator")
         ELSE IF c = "hash" /\ ~st THEN Broken("comment")
         ELSE IF c = "tilde" /\ (~st \/ AssignPrefix(cur)) /\ WordEnds(nx) THEN Broken("tilde")
         ELSE LexU(s, i + 1, Append(cur, <<c, FALSE>>), TRUE, TRUE, acc, text)

LexS(s, i, cur, acc, text) ==
    IF i > Len(s) THEN Broken("unterminated-quote")
    ELSE IF s[i] = "sq" THEN LexU(s, i + 1, cur, TRUE, TRUE, acc, text)
    ELSE LexS(s, i + 1, Append(cur, <<s[i], TRUE>>), acc, text)

LexD(s, i, cur, acc, text) ==
    IF i > Len(s) THEN Broken("unterminated-quote")
    ELSE LET c == s[i]
             nx == At(s, i + 1)
         IN
         IF c = "dq" THEN LexU(s, i + 1, cur, TRUE, TRUE, acc, text)
         ELSE IF c = "bs" THEN
              IF nx \in {"dol", "bq", "dq", "bs"} THEN LexD(s, i + 2, Append(cur, <<nx, TRUE>>), acc, text)
              ELSE IF nx = "nl" THEN LexD(s, i + 2, cur, acc, text)
              ELSE LexD(s, i + 1, Append(cur, <<"bs", TRUE>>), acc, text)
         ELSE IF c = "dol" THEN
              IF NameCh(nx) THEN
                  LET j == NameEnd(s, i + 1)
                  IN LexD(s, j + 1, cur \o Lit(VarVal(SubSeq(s, i + 1, j)), TRUE), acc, text)
              ELSE IF nx = "lpar" THEN Broken("command-substitution")
              ELSE IF nx \in {"star", "at", "hash", "qm", "dash", "dol"} THEN Broken("special-parameter")
              ELSE LexD(s, i + 1, Append(cur, <<"dol", TRUE>>), acc, text)
         ELSE IF c = "bq" THEN Broken("command-substitution")
         ELSE LexD(s, i + 1, Append(cur, <<c, TRUE>>), acc, text)

ShellWords(s, text) == LexU(s, 1, <<>>, FALSE, FALSE, Start, text)

(* ----------------------------------------------------------------------- *)
(* wild's response-file lexer (libwild/src/args.rs arguments_from_string)  *)
Ws(c) == c \in {"sp", "tab", "nl"} \cup UniWs             \* char::is_whitespace, as in arguments_from_string
Quote(c) == c \in {"sq", "dq"}
NoHeap == <<"none">>
PushHeap(out, heap) == IF heap = NoHeap THEN out ELSE Append(out, heap[2])
HeapPlus(heap, c) == IF heap = NoHeap THEN <<"some", <<c>>>> ELSE <<"some", Append(heap[2], c)>>

RECURSIVE RspLex(_, _, _, _, _, _)
(* quote: "none" | "sq" | "dq";  expws: expect_whitespace *)
RspLex(s, i, out, heap, quote, expws) ==
    IF i > Len(s) THEN
        IF quote # "none" THEN Broken("missing-closing-quote")
        ELSE [ok |-> TRUE, why |-> "", words |-> PushHeap(out, heap)]
    ELSE LET c == s[i] IN
         IF expws /\ ~Ws(c) THEN Broken("expected-whitespace-after-quote")
         ELSE IF Quote(c) THEN
              IF quote # "none" THEN
                  IF quote = c THEN RspLex(s, i + 1, PushHeap(out, heap), NoHeap, "none", TRUE)
                  ELSE RspLex(s, i + 1, out, HeapPlus(heap, c), quote, FALSE)
              ELSE IF heap # NoHeap THEN Broken("missing-opening-quote")
              ELSE RspLex(s, i + 1, out, heap, c, FALSE)
         ELSE IF Ws(c) THEN
              IF quote = "none" THEN RspLex(s, i + 1, PushHeap(out, heap), NoHeap, quote, FALSE)
              ELSE RspLex(s, i + 1, out, HeapPlus(heap, c), quote, FALSE)
         ELSE IF c = "bs" THEN
              IF i + 1 > Len(s) THEN Broken("invalid-escape")
              ELSE RspLex(s, i + 2, out, HeapPlus(heap, s[i + 1]), quote, FALSE)
         ELSE RspLex(s, i + 1, out, HeapPlus(heap, c), quote, FALSE)

RspWords(s) == RspLex(s, 1, <<>>, NoHeap, "none", FALSE)

(* ----------------------------------------------------------------------- *)
(* What wild writes (libwild/src/save_dir.rs, as coded today).             *)
(* Script: every argument is single-quoted (write_shell_quoted: ' -> '\'') *)
(* ; a copied file is written as "$D"/'<relative path>' (write_copied_     *)
(* file_arg); the output as -o "$OUT".  At-file: one argument per line,    *)
(* a backslash before white space, quotes and backslash (write_quoted,     *)
(* the syntax of wild's own response-file lexer); a copied file as         *)
(* "$D"/<escaped relative path>.  The read loop of run-with substitutes    *)
(* the placeholders "$D" and "$OUT" INCLUDING their quotes                 *)
(*   LINE="${LINE//\"\$D\"/$D}"   LINE="${LINE//\"\$OUT\"/$OUT}"           *)
(* (an escaped text never contains D or T followed by an unescaped quote,  *)
(* so no argument text can forge a placeholder).                           *)
(* A neighbour argument `w` before and after shows damage that would spill *)
(* over to other arguments.                                                *)
Sep == <<"sp", "bs", "nl", "sp", "sp">>                 \* write_script_arg_separator
W == <<"w">>
InDir == DVal \o <<"slash", "a", "slash">>

RECURSIVE SqBody(_)
SqBody(t) == IF t = <<>> THEN <<>>
             ELSE (IF Head(t) = "sq" THEN <<"sq", "bs", "sq", "sq">> ELSE <<Head(t)>>) \o SqBody(Tail(t))
Sq(t) == <<"sq">> \o SqBody(t) \o <<"sq">>                \* write_shell_quoted
QPre == <<"dq", "dol", "D", "dq", "slash">>               \* "$D"/

RECURSIVE RspEsc(_)
RspEsc(t) == IF t = <<>> THEN <<>>                        \* write_quoted(.., is_rsp_file = true)
             ELSE (IF Ws(Head(t)) \/ Head(t) \in {"sq", "dq", "bs"} THEN <<"bs", Head(t)>> ELSE <<Head(t)>>)
                  \o RspEsc(Tail(t))                          \* ch.is_whitespace() || ' " \

Mid(kind, t) ==
    CASE kind = "file"    -> QPre \o Sq(<<"a", "slash">> \o t)
      [] kind = "out"     -> <<"dash", "o", "sp", "dq", "dol", "O", "U", "T", "dq">>     \* `-o "$OUT"`, text unused
      [] kind = "opteq"   -> Sq(<<"dash", "h", "eq">> \o t)
      [] kind = "optsep"  -> Sq(<<"dash", "h">>) \o Sep \o Sq(t)
      [] kind = "libdir"  -> <<"dash", "L">> \o QPre \o Sq(<<"a", "slash">> \o t)
      [] kind = "rspfile" -> QPre \o <<"a", "slash">> \o RspEsc(t)
      [] kind = "rspopt"  -> RspEsc(<<"dash", "h", "eq">> \o t)
Script(kind, t) == Sq(W) \o Sep \o Mid(kind, t) \o Sep \o Sq(W)
AtFile(kind, t) == <<"nl">> \o W \o <<"nl">> \o Mid(kind, t) \o <<"nl">> \o W

RECURSIVE Subst(_)
Subst(s) ==
    IF s = <<>> THEN <<>>
    ELSE IF Len(s) >= 4 /\ SubSeq(s, 1, 4) = <<"dq", "dol", "D", "dq">> THEN DVal \o Subst(SubSeq(s, 5, Len(s)))
    ELSE IF Len(s) >= 6 /\ SubSeq(s, 1, 6) = <<"dq", "dol", "O", "U", "T", "dq">> THEN OutVal \o Subst(SubSeq(s, 7, Len(s)))
    ELSE <<Head(s)>> \o Subst(Tail(s))

Expected(kind, t) ==
    CASE kind \in {"file", "rspfile"} -> <<W, InDir \o t, W>>
      [] kind = "out"                 -> <<W, <<"dash", "o">>, OutVal, W>>
      [] kind \in {"opteq", "rspopt"} -> <<W, <<"dash", "h", "eq">> \o t, W>>
      [] kind = "optsep"              -> <<W, <<"dash", "h">>, t, W>>
      [] kind = "libdir"              -> <<W, <<"dash", "L">> \o InDir \o t, W>>

Replayed(kind, t) ==
    IF kind \in ShellKinds THEN ShellWords(Script(kind, t), t)
    ELSE RspWords(Subst(AtFile(kind, t)))

(* THE PROPERTY (per argument): the replay sees the original arguments *)
RoundTrip(kind, t) == LET r == Replayed(kind, t) IN r.ok /\ r.words = Expected(kind, t)

(* ----------------------------------------------------------------------- *)
(* The quoting wild had before the fix (deliberately kept as the broken    *)
(* variant: TLC must reject OldRoundTrips; its blamed classes are the keys *)
(* a regression would be reported under): a backslash before space, `$`    *)
(* and `\` only in non-file arguments, `$D/` + raw path for copied files,  *)
(* raw text in at-files, placeholders `$D` / `$OUT` without quotes.        *)
OldPre == <<"dol", "D", "slash", "a", "slash">>
RECURSIVE EscArg(_)
EscArg(t) == IF t = <<>> THEN <<>>
             ELSE (IF Head(t) \in {"sp", "dol", "bs"} THEN <<"bs", Head(t)>> ELSE <<Head(t)>>) \o EscArg(Tail(t))
OldMid(kind, t) ==
    CASE kind = "file"    -> OldPre \o t
      [] kind = "out"     -> <<"dash", "o", "sp", "dol", "O", "U", "T">>
      [] kind = "opteq"   -> <<"dash", "h", "eq">> \o EscArg(t)
      [] kind = "optsep"  -> <<"dash", "h">> \o Sep \o EscArg(t)
      [] kind = "libdir"  -> <<"dash", "L">> \o OldPre \o t
      [] kind = "rspfile" -> OldPre \o t
      [] kind = "rspopt"  -> <<"dash", "h", "eq">> \o t
OldScript(kind, t) == W \o Sep \o OldMid(kind, t) \o Sep \o W
OldAtFile(kind, t) == <<"nl">> \o W \o <<"nl">> \o OldMid(kind, t) \o <<"nl">> \o W
RECURSIVE OldSubst(_)
OldSubst(s) ==
    IF s = <<>> THEN <<>>
    ELSE IF Len(s) >= 2 /\ s[1] = "dol" /\ s[2] = "D" THEN DVal \o OldSubst(SubSeq(s, 3, Len(s)))
    ELSE IF Len(s) >= 4 /\ SubSeq(s, 1, 4) = <<"dol", "O", "U", "T">> THEN OutVal \o OldSubst(SubSeq(s, 5, Len(s)))
    ELSE <<Head(s)>> \o OldSubst(Tail(s))
OldReplayed(kind, t) ==
    IF kind \in ShellKinds THEN ShellWords(OldScript(kind, t), t)
    ELSE RspWords(OldSubst(OldAtFile(kind, t)))
OldRoundTrip(kind, t) == LET r == OldReplayed(kind, t) IN r.ok /\ r.words = Expected(kind, t)

(* which class to blame under a quoting RT(_, _): in the shortest prefix p that does not round-trip, the
   first shell-special character whose replacement by a plain character repairs p (else any repairing
   character, else p's last character) *)
BlameFor(RT(_, _), kind, t) ==
    IF RT(kind, t) THEN "none"
    ELSE LET F == {i \in 1..Len(t) : ~RT(kind, SubSeq(t, 1, i))}
             n == CHOOSE i \in F : \A j \in F : i <= j
             p == SubSeq(t, 1, n)
             C == {i \in 1..n : RT(kind, [p EXCEPT ![i] = "a"])}
             S == {i \in C : p[i] \notin {"a", "D", "eq", "dash", "at"}}
             Min(X) == CHOOSE i \in X : \A j \in X : i <= j
         IN IF S # {} THEN p[Min(S)] ELSE IF C # {} THEN p[Min(C)] ELSE p[n]

(* ----------------------------------------------------------------------- *)
(* Enumeration: one state per (kind, text).                                *)
VARIABLE case
Cases == {[kind |-> k, text |-> t] : k \in Kinds, t \in Texts}
Init == case \in Cases
Next == UNCHANGED case
Spec == Init /\ [][Next]_case

Verdict(c) ==
    LET r == Replayed(c.kind, c.text)
        e == Expected(c.kind, c.text)
    IN [kind |-> c.kind, text |-> c.text,
        rt |-> (r.ok /\ r.words = e),
        why |-> r.why, words |-> r.words, expected |-> e,
        mid |-> Mid(c.kind, c.text),
        script |-> IF c.kind \in ShellKinds THEN Script(c.kind, c.text) ELSE AtFile(c.kind, c.text),
        blame |-> BlameFor(RoundTrip, c.kind, c.text),
        old_rt |-> OldRoundTrip(c.kind, c.text),
        old_blame |-> BlameFor(OldRoundTrip, c.kind, c.text),
        \* the old quoting's script and words: the bash model is pinned against /bin/bash on them too,
        \* because they exercise every branch of the lexer (the new script is all single quotes)
        old_script |-> IF c.kind \in ShellKinds THEN OldScript(c.kind, c.text) ELSE <<>>,
        old_words |-> OldReplayed(c.kind, c.text).words,
        old_why |-> OldReplayed(c.kind, c.text).why]

Emit == PrintT(<<"REPLAY", ToJson(Verdict(case))>>)

(* THE PROPERTY as an invariant of the quoting that is coded today: every text in every position *)
RoundTripHolds == RoundTrip(case.kind, case.text)
(* the old quoting must be rejected (SaveDir_oldquoting.cfg): the models of bash and of the
   response-file lexer can tell a broken quoting from a correct one *)
OldRoundTrips == OldRoundTrip(case.kind, case.text)
(* texts of plain characters round-trip even under the old quoting (sanity of Script / Expected) *)
PlainRoundTrips == (\A i \in 1..Len(case.text) : case.text[i] = "a") =>
                       (RoundTrip(case.kind, case.text) /\ OldRoundTrip(case.kind, case.text))
=============================================================================
