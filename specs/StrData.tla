------------------------------ MODULE StrData ------------------------------
(***************************************************************************)
(* Data layer of string merging (C07).  A mergeable string section is a    *)
(* sequence of NUL-terminated strings; bytes are small integers.  The      *)
(* property: every reference into such a section (at any offset, also in   *)
(* the middle of a string) designates, in the output, bytes equal to the   *)
(* input bytes from that offset up to and including the terminating NUL;   *)
(* and every distinct input string occurs in the merged output section.    *)
(* These operators are (a) enumerated by MCStrData over all small sections *)
(* and (b) evaluated by StrDataObs on observations of real links.          *)
(***************************************************************************)
EXTENDS Integers, Sequences, FiniteSets, SequencesExt

(* bytes of one section: each string followed by NUL (0). (FlattenSeq is evaluated iteratively by
   TLC, so sections with hundreds of strings do not exhaust the evaluator's stack.) *)
Flatten(strs) == FlattenSeq([i \in 1..Len(strs) |-> strs[i] \o <<0>>])

(* index (1-based) of the first NUL at or after position p (1-based) *)
NulFrom(bytes, p) == CHOOSE q \in p..Len(bytes) : bytes[q] = 0 /\ \A r \in p..(q - 1) : bytes[r] # 0

(* what a reference at byte offset `off` (0-based) into the section must read *)
ExpectedAt(strs, off) ==
    LET b == Flatten(strs) IN SubSeq(b, off + 1, NulFrom(b, off + 1))

Offsets(strs) == 0..(Len(Flatten(strs)) - 1)

WithNul(s) == s \o <<0>>
Distinct(sections) == UNION {{WithNul(sec[i]) : i \in 1..Len(sec)} : sec \in sections}
=============================================================================
