---------------------------- MODULE StrDataObs ----------------------------
(* Observed-state check for C07: OBS names an ndjson file; each line is one real link:
   secs: the input sections (sequences of strings, bytes as ints), refs: [sec, off, got] with the
   bytes found in the output by following the relocated pointer, present: the NUL-terminated
   strings found in the merged output sections.  The expectation is computed here, by StrData. *)
EXTENDS StrData, TLC, Json, IOUtils

Obs == ndJsonDeserialize(IOEnv.OBS)

RefOK(o, r) == r.got = ExpectedAt(o.secs[r.sec], r.off)
BadRefs(o) == {k \in 1..Len(o.refs) : ~RefOK(o, o.refs[k])}
Missing(o) == Distinct(ToSet(o.secs)) \ ToSet(o.present)

VARIABLE done
Init == done = FALSE
Next == done' = TRUE
Spec == Init /\ [][Next]_done

Report ==
    /\ TLCGet("stats").diameter >= 0
    /\ PrintT(<<"OBS-COUNT", Len(Obs)>>)
    /\ \A i \in 1..Len(Obs) :
          /\ BadRefs(Obs[i]) # {} => PrintT(<<"OBS-BADREF", i, BadRefs(Obs[i])>>)
          /\ Missing(Obs[i]) # {} => PrintT(<<"OBS-MISSING", i, Missing(Obs[i])>>)
    /\ PrintT(<<"OBS-DONE", Cardinality({i \in 1..Len(Obs) : BadRefs(Obs[i]) # {} \/ Missing(Obs[i]) # {}})>>)
=============================================================================
