---------------------------- MODULE StringMerge ----------------------------
(***************************************************************************)
(* Protocol of wild's parallel string merging for one output section       *)
(* (libwild/src/string_merging.rs: add_input_sections,                     *)
(* try_spawn_input_processing, process_input_section_group,                *)
(* work_with_bucket, ReusePool).                                           *)
(*                                                                         *)
(* G input groups wait in the FIFO `unprocessed`.  A *split task* pops one *)
(* group, splits it into NB per-bucket vectors and puts vector (g,b) into  *)
(* slot[g][b].  Bucket b consumes the groups' vectors strictly in group    *)
(* order: it either finds slot[next][b] filled and takes it, or parks      *)
(* itself in that slot ("W"); whoever later fills a slot holding a parked  *)
(* bucket spawns a task for it.  Vectors come from a pool of Cap vectors;  *)
(* a split task may only start once NB of them have been *reserved*        *)
(* (load, then compare-exchange: two steps; a failed CAS gives up without  *)
(* retrying).  A bucket that has consumed a vector returns it to the pool  *)
(* and then itself tries to spawn more split tasks.                        *)
(*                                                                         *)
(* Threads are explicit (rayon workers run one task to completion);        *)
(* spawned-but-not-started tasks are counted in pendingSplit / bloc.       *)
(***************************************************************************)
EXTENDS Integers, Sequences, FiniteSets, TLC

CONSTANTS G,          \* number of input groups (>= 1)
          NB,         \* number of hash buckets
          Cap,        \* pool capacity (a multiple of NB in the code: NB * split parallelism)
          Threads,    \* set of worker threads; MainThread \in Threads runs the initial spawn loop
          MainThread,
          EarlyExit,  \* TRUE: try_spawn returns at once when `unprocessed` is empty (proposed fix)
          NoRespawn   \* TRUE: deliberately broken variant - buckets do not call try_spawn after returning a vector

Groups == 0..(G - 1)
Buckets == 0..(NB - 1)

VARIABLES unprocessed,   \* sequence of group indexes not yet popped
          avail,         \* ReusePool.available
          slot,          \* slot[g][b] \in {"E", "S", "W"}: empty / strings / bucket b waiting
          bnext,         \* bnext[b]: next input group bucket b will consume
          bloc,          \* bloc[b] \in {"slot", "pending", "run", "done"}
          pendingSplit,  \* split tasks spawned but not started (each owns a reservation of NB)
          thr,           \* thr[t]: what thread t is executing
          taken          \* set of <<g, b>> pairs consumed so far (history, for EachPairOnce)

vars == <<unprocessed, avail, slot, bnext, bloc, pendingSplit, thr, taken>>

Idle == [k |-> "idle"]
(* k = "loop": inside try_spawn_input_processing; pc "load" | "cas"; obs = value loaded;
               ret = what to do when the loop returns: "end" (task over) or "advance" (bucket b) *)
Loop(pc, obs, ret, b) == [k |-> "loop", pc |-> pc, obs |-> obs, ret |-> ret, b |-> b]
(* k = "split": pc "pop" | "put" | "unres"; g = group in hand; i = next bucket to put; rem = unused reservation *)
Split(pc, g, i, rem) == [k |-> "split", pc |-> pc, g |-> g, i |-> i, rem |-> rem]
(* k = "bucket": pc "take" | "return" *)
Bucket(pc, b) == [k |-> "bucket", pc |-> pc, b |-> b]

Init ==
    /\ unprocessed = [i \in 1..G |-> i - 1]
    /\ avail = Cap
    /\ slot = [g \in Groups |-> [b \in Buckets |-> IF g = 0 THEN "W" ELSE "E"]]
    /\ bnext = [b \in Buckets |-> 0]
    /\ bloc = [b \in Buckets |-> "slot"]
    /\ pendingSplit = 0
    /\ thr = [t \in Threads |-> IF t = MainThread THEN Loop("load", 0, "end", 0) ELSE Idle]
    /\ taken = {}

Set(t, v) == thr' = [thr EXCEPT ![t] = v]

(* ---- try_spawn_input_processing ------------------------------------------------------------ *)
(* Each step is split into its *effect* (E...) and the guard on the lock-free counter `avail`, so
   that the trace specification - where the counter's atomic operations are logged with the values
   they returned rather than in their real order - can reuse the effects.                        *)
LoopReturn(t) ==
    IF thr[t].ret = "advance"
    THEN Set(t, [k |-> "advance", b |-> thr[t].b])
    ELSE Set(t, Idle)

InLoop(t, pc) == thr[t].k = "loop" /\ thr[t].pc = pc

(* the loop gives up: too few vectors, or the CAS lost a race (no retry) *)
ELoopGiveUp(t) ==
    /\ thr[t].k = "loop"
    /\ LoopReturn(t)
    /\ UNCHANGED <<unprocessed, avail, slot, bnext, bloc, pendingSplit, taken>>

ELoopLoaded(t, obs) ==
    /\ InLoop(t, "load")
    /\ Set(t, [thr[t] EXCEPT !.pc = "cas", !.obs = obs])
    /\ UNCHANGED <<unprocessed, avail, slot, bnext, bloc, pendingSplit, taken>>

(* successful compare_exchange(available, available - NB): spawn a split task owning the reservation *)
ELoopReserved(t) ==
    /\ InLoop(t, "cas")
    /\ avail' = avail - NB
    /\ pendingSplit' = pendingSplit + 1
    /\ Set(t, [thr[t] EXCEPT !.pc = "load"])
    /\ UNCHANGED <<unprocessed, slot, bnext, bloc, taken>>

(* `let available = self.available.load()`; give up if fewer than NB are available. *)
LoopLoad(t) ==
    /\ InLoop(t, "load")
    /\ IF (EarlyExit /\ unprocessed = <<>>) \/ avail < NB
       THEN ELoopGiveUp(t)
       ELSE ELoopLoaded(t, avail)

LoopCas(t) ==
    /\ InLoop(t, "cas")
    /\ IF avail = thr[t].obs THEN ELoopReserved(t) ELSE ELoopGiveUp(t)

(* ---- split task ---------------------------------------------------------------------------- *)
SplitStart(t) ==
    /\ thr[t] = Idle
    /\ pendingSplit > 0
    /\ pendingSplit' = pendingSplit - 1
    /\ Set(t, Split("pop", 0, 0, NB))
    /\ UNCHANGED <<unprocessed, avail, slot, bnext, bloc, taken>>

Elems(q) == {q[i] : i \in 1..Len(q)}
Without(q, g) == SelectSeq(q, LAMBDA x : x # g)

(* `unprocessed.pop()` returned group g: take the NB vectors (the reservation is used up). *)
ESplitPopped(t, g) ==
    /\ thr[t].k = "split" /\ thr[t].pc = "pop"
    /\ g \in Elems(unprocessed)
    /\ unprocessed' = Without(unprocessed, g)
    /\ Set(t, Split("put", g, 0, 0))
    /\ UNCHANGED <<avail, slot, bnext, bloc, pendingSplit, taken>>

(* ... returned None: nothing to do, the whole reservation goes back. *)
ESplitPoppedNone(t) ==
    /\ thr[t].k = "split" /\ thr[t].pc = "pop"
    /\ Set(t, Split("unres", 0, 0, thr[t].rem))
    /\ UNCHANGED <<unprocessed, avail, slot, bnext, bloc, pendingSplit, taken>>

SplitPop(t) ==
    /\ thr[t].k = "split" /\ thr[t].pc = "pop"
    /\ IF unprocessed # <<>> THEN ESplitPopped(t, Head(unprocessed)) ELSE ESplitPoppedNone(t)

(* Under the slot mutex: store the strings; if a bucket was parked there, spawn a task for it. *)
SplitPut(t) ==
    /\ thr[t].k = "split" /\ thr[t].pc = "put"
    /\ LET g == thr[t].g
           b == thr[t].i
       IN /\ slot[g][b] # "S"
          /\ slot' = [slot EXCEPT ![g][b] = "S"]
          /\ IF slot[g][b] = "W"
             THEN bloc' = [bloc EXCEPT ![b] = "pending"]
             ELSE UNCHANGED bloc
          /\ IF b + 1 = NB
             THEN Set(t, Split("unres", g, NB, 0))
             ELSE Set(t, Split("put", g, b + 1, 0))
    /\ UNCHANGED <<unprocessed, avail, bnext, pendingSplit, taken>>

(* reuse_pool.unreserve(reservation): whatever was not used goes back to the counter. *)
SplitUnreserve(t) ==
    /\ thr[t].k = "split" /\ thr[t].pc = "unres"
    /\ avail' = avail + thr[t].rem
    /\ Set(t, Idle)
    /\ UNCHANGED <<unprocessed, slot, bnext, bloc, pendingSplit, taken>>

(* ---- bucket task --------------------------------------------------------------------------- *)
BucketStart(t, b) ==
    /\ thr[t] = Idle
    /\ bloc[b] = "pending"
    /\ bloc' = [bloc EXCEPT ![b] = "run"]
    /\ Set(t, Bucket("take", b))
    /\ UNCHANGED <<unprocessed, avail, slot, bnext, pendingSplit, taken>>

(* `while next < num_input_groups`: under the slot mutex take the strings or park in the slot. *)
BucketTake(t) ==
    /\ thr[t].k = "bucket" /\ thr[t].pc = "take"
    /\ LET b == thr[t].b
           g == bnext[b]
       IN IF g = G
          THEN /\ bloc' = [bloc EXCEPT ![b] = "done"]
               /\ Set(t, Idle)
               /\ UNCHANGED <<slot, taken>>
          ELSE IF slot[g][b] = "S"
               THEN /\ slot' = [slot EXCEPT ![g][b] = "E"]
                    /\ taken' = taken \cup {<<g, b>>}
                    /\ Set(t, Bucket("return", b))
                    /\ UNCHANGED bloc
               ELSE /\ slot' = [slot EXCEPT ![g][b] = "W"]
                    /\ bloc' = [bloc EXCEPT ![b] = "slot"]
                    /\ Set(t, Idle)
                    /\ UNCHANGED taken
    /\ UNCHANGED <<unprocessed, avail, bnext, pendingSplit>>

(* return_strings_to_merge: available += 1; then the bucket itself runs the spawn loop. *)
BucketReturn(t) ==
    /\ thr[t].k = "bucket" /\ thr[t].pc = "return"
    /\ avail' = avail + 1
    /\ IF NoRespawn
       THEN Set(t, [k |-> "advance", b |-> thr[t].b])
       ELSE Set(t, Loop("load", 0, "advance", thr[t].b))
    /\ UNCHANGED <<unprocessed, slot, bnext, bloc, pendingSplit, taken>>

BucketAdvance(t) ==
    /\ thr[t].k = "advance"
    /\ bnext' = [bnext EXCEPT ![thr[t].b] = @ + 1]
    /\ Set(t, Bucket("take", thr[t].b))
    /\ UNCHANGED <<unprocessed, avail, slot, bloc, pendingSplit, taken>>

ThreadStep(t) ==
    \/ LoopLoad(t) \/ LoopCas(t) \/ SplitStart(t) \/ SplitPop(t) \/ SplitPut(t) \/ SplitUnreserve(t)
    \/ BucketTake(t) \/ BucketReturn(t) \/ BucketAdvance(t)
    \/ \E b \in Buckets : BucketStart(t, b)

AllIdle == \A t \in Threads : thr[t] = Idle
NoTasks == AllIdle /\ pendingSplit = 0 /\ \A b \in Buckets : bloc[b] # "pending"
AllDone == NoTasks /\ \A b \in Buckets : bloc[b] = "done"

(* The rayon scope ends when no task is running or pending; stutter there. *)
Finished == NoTasks /\ UNCHANGED vars

Next == (\E t \in Threads : ThreadStep(t)) \/ Finished

Spec == Init /\ [][Next]_vars
(* Weak fairness per thread: every rayon worker that can take a step eventually does. *)
FairSpec == Spec /\ \A t \in Threads : WF_vars(ThreadStep(t))

-----------------------------------------------------------------------------
TypeOK ==
    /\ avail \in 0..Cap
    /\ pendingSplit \in 0..(Cap \div NB)
    /\ bnext \in [Buckets -> 0..G]
    /\ bloc \in [Buckets -> {"slot", "pending", "run", "done"}]
    /\ slot \in [Groups -> [Buckets -> {"E", "S", "W"}]]

(* Vectors held outside the pool. *)
InSlots == Cardinality({p \in Groups \X Buckets : slot[p[1]][p[2]] = "S"})
HeldBy(t) ==
    CASE thr[t].k = "split" /\ thr[t].pc = "pop" -> thr[t].rem
      [] thr[t].k = "split" /\ thr[t].pc = "put" -> NB - thr[t].i
      [] thr[t].k = "split" /\ thr[t].pc = "unres" -> thr[t].rem
      [] thr[t].k = "bucket" /\ thr[t].pc = "return" -> 1
      [] OTHER -> 0
RECURSIVE SumHeld(_)
SumHeld(S) == IF S = {} THEN 0 ELSE LET t == CHOOSE x \in S : TRUE IN HeldBy(t) + SumHeld(S \ {t})

(* The pool counter accounts for every vector. *)
PoolConserved == avail + NB * pendingSplit + InSlots + SumHeld(Threads) = Cap

(* Buckets consume group vectors in group order, one bucket task at a time. *)
InGroupOrder ==
    /\ \A b \in Buckets : \A g \in Groups : <<g, b>> \in taken <=>
            (g < bnext[b] \/ (g = bnext[b] /\ \E t \in Threads :
                                  thr[t].k \in {"bucket", "loop", "advance"} /\ thr[t].b = b
                                  /\ (thr[t].k = "bucket" => thr[t].pc = "return")
                                  /\ (thr[t].k = "loop" => thr[t].ret = "advance")))
OneTaskPerBucket ==
    \A b \in Buckets :
        Cardinality({t \in Threads : (thr[t].k \in {"bucket", "advance"} /\ thr[t].b = b)
                                      \/ (thr[t].k = "loop" /\ thr[t].ret = "advance" /\ thr[t].b = b)})
          = (IF bloc[b] = "run" THEN 1 ELSE 0)

(* A parked bucket sits in exactly the slot it will consume next. *)
ParkedWhereExpected ==
    \A g \in Groups, b \in Buckets : slot[g][b] = "W" <=> (bloc[b] = "slot" /\ bnext[b] = g)

(* When everything has stopped, every bucket has consumed every group: nothing is stranded. *)
EachPairOnce == NoTasks => (taken = Groups \X Buckets /\ \A b \in Buckets : bloc[b] = "done")

(* No quiescent state while input groups remain. *)
ProgressWhileGroupsRemain == NoTasks => unprocessed = <<>>

Termination == <>AllDone
=============================================================================
