-------------------------- MODULE StringMergeTrace --------------------------
(***************************************************************************)
(* Trace validation of wild's string-merge protocol against StringMerge.   *)
(* One trace file = the events of ONE merged output section (SecBegin ..   *)
(* SecEnd, preceded by the NB "Swap new=W" events of create_split_         *)
(* resources), in hook order.  Events carry the logging thread's id; a     *)
(* rayon worker runs one task to completion, so a thread id identifies the *)
(* task the event belongs to.                                              *)
(*                                                                         *)
(* Lock-protected steps (slot swaps, bucket take/park) must agree exactly  *)
(* with the model state.  The pool counter and the `unprocessed` queue are *)
(* lock-free: their events carry what the atomic operation returned and    *)
(* are bound to the module's *effect* operators; the counter is checked by *)
(* conservation at SecEnd (real `available` = model tally = capacity).     *)
(***************************************************************************)
EXTENDS Integers, Sequences, FiniteSets, TLC, Json, IOUtils

Rec == ndJsonDeserialize(IOEnv.TRACE)

BeginIdx == CHOOSE k \in 1..Len(Rec) : Rec[k].ev = "SecBegin"
G == Rec[BeginIdx].groups
NB == Rec[BeginIdx].nb
Cap == Rec[BeginIdx].cap
Threads == {Rec[k].tid : k \in 1..Len(Rec)}
MainThread == Rec[BeginIdx].tid
EarlyExit == TRUE
NoRespawn == FALSE

VARIABLES unprocessed, avail, slot, bnext, bloc, pendingSplit, thr, taken, l

M == INSTANCE StringMerge

tvars == <<unprocessed, avail, slot, bnext, bloc, pendingSplit, thr, taken, l>>
mvars == <<unprocessed, avail, slot, bnext, bloc, pendingSplit, thr, taken>>

Ev == Rec[l]
T == Rec[l].tid
IsEv(name) == l <= Len(Rec) /\ Rec[l].ev = name /\ l' = l + 1

TInit == M!Init /\ l = 1 /\ TLCSet(1, 1)

(* create_split_resources parks every bucket in slot (0, b); SecBegin reports the pool. *)
TSetup == IsEv("Swap") /\ l < BeginIdx /\ Ev.new = "W" /\ Ev.prev = "E" /\ Ev.g = 0
          /\ slot[0][Ev.b] = "W" /\ UNCHANGED mvars
TSecBegin == IsEv("SecBegin") /\ l = BeginIdx /\ Ev.avail = Cap /\ UNCHANGED mvars

(* try_reserve outcomes *)
TReserveFail == IsEv("ReserveFail") /\ Ev.observed < NB /\ M!InLoop(T, "load") /\ M!ELoopGiveUp(T)
TLoopExitEmpty == IsEv("LoopExitEmpty") /\ M!InLoop(T, "load") /\ M!ELoopGiveUp(T)
TReserveCasFail == IsEv("ReserveCasFail") /\ Ev.observed >= NB /\ M!InLoop(T, "load") /\ M!ELoopGiveUp(T)
TReserve ==
    /\ IsEv("Reserve") /\ Ev.n = NB /\ Ev.observed >= NB /\ Ev.observed <= Cap
    /\ M!InLoop(T, "load")
    /\ avail' = avail - NB
    /\ pendingSplit' = pendingSplit + 1
    /\ UNCHANGED <<unprocessed, slot, bnext, bloc, thr, taken>>

TSplitStart == IsEv("SplitStart") /\ M!SplitStart(T)
TSplitGroup == IsEv("SplitGroup") /\ M!ESplitPopped(T, Ev.g)

(* Unreserve is reached either straight after a pop that returned None, or after the last put. *)
TUnreserve ==
    /\ IsEv("Unreserve")
    /\ thr[T].k = "split"
    /\ IF thr[T].pc = "pop"
       THEN /\ Ev.n = NB
            /\ avail' = avail + NB
            /\ thr' = [thr EXCEPT ![T] = M!Idle]
            /\ UNCHANGED <<unprocessed, slot, bnext, bloc, pendingSplit, taken>>
       ELSE /\ thr[T].pc = "unres" /\ Ev.n = thr[T].rem /\ M!SplitUnreserve(T)

TPut ==
    /\ IsEv("Swap") /\ l > BeginIdx /\ Ev.new = "S"
    /\ thr[T].k = "split" /\ thr[T].pc = "put" /\ thr[T].g = Ev.g /\ thr[T].i = Ev.b
    /\ slot[Ev.g][Ev.b] = Ev.prev
    /\ M!SplitPut(T)

TBucketSpawn == IsEv("BucketSpawn") /\ bloc[Ev.b] = "pending" /\ UNCHANGED mvars

TBucketStart == IsEv("BucketStart") /\ bnext[Ev.b] = Ev.next /\ M!BucketStart(T, Ev.b)

TTake ==
    /\ IsEv("Take")
    /\ thr[T].k = "bucket" /\ thr[T].b = Ev.b /\ bnext[Ev.b] = Ev.g /\ Ev.g < G /\ slot[Ev.g][Ev.b] = "S"
    /\ M!BucketTake(T)

TPark ==
    /\ IsEv("Park")
    /\ thr[T].k = "bucket" /\ thr[T].b = Ev.b /\ bnext[Ev.b] = Ev.g /\ Ev.g < G /\ slot[Ev.g][Ev.b] # "S"
    /\ M!BucketTake(T)

TReturnVec == IsEv("ReturnVec") /\ M!BucketReturn(T)

TAdvance == IsEv("Advance") /\ thr[T].k = "advance" /\ thr[T].b = Ev.b /\ M!BucketAdvance(T)
            /\ bnext'[Ev.b] = Ev.next

TBucketDone ==
    /\ IsEv("BucketDone")
    /\ thr[T].k = "bucket" /\ thr[T].b = Ev.b /\ bnext[Ev.b] = G
    /\ M!BucketTake(T)

(* The scope has ended: nothing runs, every pair was consumed, the pool is whole again. *)
TSecEnd ==
    /\ IsEv("SecEnd")
    /\ M!NoTasks
    /\ Ev.errors = 0 => (M!AllDone /\ taken = M!Groups \X M!Buckets /\ Ev.finished = NB
                         /\ Ev.unprocessed = 0 /\ unprocessed = <<>>)
    /\ Ev.avail = Cap
    /\ avail = Cap
    /\ UNCHANGED mvars

TNext ==
    \/ TSetup \/ TSecBegin \/ TLoopExitEmpty \/ TReserveFail \/ TReserveCasFail \/ TReserve \/ TSplitStart \/ TSplitGroup
    \/ TUnreserve \/ TPut \/ TBucketSpawn \/ TBucketStart \/ TTake \/ TPark \/ TReturnVec \/ TAdvance
    \/ TBucketDone \/ TSecEnd

TSpec == TInit /\ [][TNext]_tvars

(* Invariants of the module evaluated at every step of the real run (the counter's range is not
   among them: in hook order the lock-free counter may transiently leave it). *)
TInv == M!InGroupOrder /\ M!OneTaskPerBucket /\ M!ParkedWhereExpected /\ M!PoolConserved

TProgress == TLCSet(1, IF TLCGet(1) < l THEN l ELSE TLCGet(1))

TAccepted ==
    LET best == TLCGet(1) IN
    IF best = Len(Rec) + 1
    THEN PrintT(<<"TRACE-ACCEPTED", Len(Rec)>>)
    ELSE PrintT(<<"TRACE-UNMATCHED", best, Rec[best]>>) /\ FALSE
=============================================================================
