------------------------------- MODULE SymRes -------------------------------
(***************************************************************************)
(* Symbol resolution, archive activation and --wrap (C02, C03, C33).       *)
(*                                                                         *)
(* Input: a sequence of files in command-line order, each with a kind and, *)
(* per name, a definition record; options.                                 *)
(*                                                                         *)
(* Part 1  REFERENCE RULE                                                  *)
(*   ElfRule   which definition a name denotes given the loaded files      *)
(*   LFP       least fixpoint of archive loading (position independent)    *)
(*   Scan      the sequential (lld) reading of "needed", which is order    *)
(*             sensitive between DEFINITIONS of one name only              *)
(*   WrapRule  GNU ld --wrap: rewriting of undefined references            *)
(* Part 2  OPERATIONAL MODEL of wild's phases (symbol_db.rs/resolution.rs) *)
(*   name table (first definition in file order owns the name, the others  *)
(*   are alternatives), --wrap overrides, archive activation (concurrent    *)
(*   Request = peek + atomic take), alternative selection, canonicalise    *)
(*   undefined, undefined check.  Implementation deviations found on the   *)
(*   pinned tree are named QUIRKS and can be switched off one by one.      *)
(* Part 3  the activation protocol as a state machine + properties.        *)
(***************************************************************************)
EXTENDS Integers, Sequences, FiniteSets, TLC

CONSTANTS Names,        \* sequence of names, = symbol-table order inside every file
          ConfigSpace,  \* set of candidate file sequences
          OptSpace,     \* set of option records [allowMultiple, undefs, wrap]
          WrapName,     \* [S |-> "__wrap_S"] for wrappable names
          RealOf,       \* ["__real_S" |-> S]
          Racy          \* TRUE: deliberately broken take (anti-vacuity)

NameSet == {Names[i] : i \in DOMAIN Names}
AllQuirks == {"uniqWeak", "weakZero", "wrapNoDef"}

IsDefKind(d) == d \in {"weak", "strong", "common4", "common8", "common16", "unique"}
IsRefKind(d) == d \in {"undef", "weakundef"}
IsCommon(d) == d \in {"common4", "common8", "common16"}
CSize(d) == CASE d = "common16" -> 16 [] d = "common8" -> 8 [] OTHER -> 4
SharedKind(k) == k \in {"shared", "asneeded"}
OptionalKind(k) == k \in {"member", "asneeded"}
VisRank(v) == CASE v = "default" -> 0 [] v = "protected" -> 1 [] v = "hidden" -> 2
MinVis(a, b) == IF VisRank(a) >= VisRank(b) THEN a ELSE b

NF(fs) == Len(fs)
FIdx(fs) == 1..Len(fs)
D(fs, f, n) == fs[f].syms[n].def
V(fs, f, n) == fs[f].syms[n].vis
Shared(fs, f) == SharedKind(fs[f].kind)
Optional(fs, f) == OptionalKind(fs[f].kind)
NonOptional(fs) == {f \in FIdx(fs) : ~Optional(fs, f)}
Definers(fs, n) == {f \in FIdx(fs) : IsDefKind(D(fs, f, n))}
MinOf(S) == CHOOSE i \in S : \A j \in S : i <= j
NameIdx(n) == CHOOSE i \in DOMAIN Names : Names[i] = n

-----------------------------------------------------------------------------
(* WrapRule (GNU ld): an UNDEFINED reference to a wrapped S is a reference to
   __wrap_S, an undefined reference to __real_S is a reference to S.  Symbols a
   file defines itself are not renamed. *)
WrapRule(op, fs, f, n) ==
    IF ~IsRefKind(D(fs, f, n)) THEN n
    ELSE IF n \in op.wrap /\ n \in DOMAIN WrapName THEN WrapName[n]
    ELSE IF n \in DOMAIN RealOf /\ RealOf[n] \in op.wrap THEN RealOf[n]
    ELSE n

-----------------------------------------------------------------------------
(* ElfRule: what name n denotes when exactly the files in L are part of the link.
   strong (GNU_UNIQUE counts as strong) > largest common (first among equals) > first weak;
   definitions in shared objects only when no regular object defines the name. *)
RegDefs(fs, L, n) == {f \in L : ~Shared(fs, f) /\ IsDefKind(D(fs, f, n))}
Strongs(fs, L, n) == {f \in RegDefs(fs, L, n) : D(fs, f, n) \in {"strong", "unique"}}
Commons(fs, L, n) == {f \in RegDefs(fs, L, n) : IsCommon(D(fs, f, n))}
Weaks(fs, L, n) == {f \in RegDefs(fs, L, n) : D(fs, f, n) = "weak"}
(* every shared object on the command line offers its symbols, needed or not *)
ShDefs(fs, n) == {f \in FIdx(fs) : Shared(fs, f) /\ IsDefKind(D(fs, f, n))}
(* the LARGEST common (the allocation must hold every tentative definition), the first among equals *)
MaxCommon(fs, S, n) ==
    LET big == CHOOSE z \in {CSize(D(fs, f, n)) : f \in S} : \A f \in S : CSize(D(fs, f, n)) <= z
    IN MinOf({f \in S : CSize(D(fs, f, n)) = big})

NoTarget == [t |-> "undefined", f |-> 0, n |-> ""]
ElfRule(fs, L, n) ==
    IF Strongs(fs, L, n) # {} THEN [t |-> "def", f |-> MinOf(Strongs(fs, L, n)), n |-> n]
    ELSE IF Commons(fs, L, n) # {}
         THEN [t |-> D(fs, MaxCommon(fs, Commons(fs, L, n), n), n), f |-> MaxCommon(fs, Commons(fs, L, n), n), n |-> n]
    ELSE IF Weaks(fs, L, n) # {} THEN [t |-> "def", f |-> MinOf(Weaks(fs, L, n)), n |-> n]
    ELSE IF ShDefs(fs, n) # {} THEN [t |-> "dyn", f |-> MinOf(ShDefs(fs, n)), n |-> n]
    ELSE NoTarget
ElfDuplicate(fs, op, L) == ~op.allowMultiple /\ \E n \in NameSet : Cardinality(Strongs(fs, L, n)) >= 2

(* Non-weak references of loaded file f, after WrapRule: the names f needs. *)
NeedsOf(fs, op, f) == {WrapRule(op, fs, f, n) : n \in {m \in NameSet : D(fs, f, m) = "undef"}}
(* as-needed shared objects that satisfy a non-weak reference of a loaded regular object *)
AsNeededUsed(fs, op, L) ==
    {s \in FIdx(fs) : fs[s].kind = "asneeded" /\
        \E f \in L, n \in NameSet : ~Shared(fs, f) /\ D(fs, f, n) = "undef" /\ V(fs, f, n) = "default" /\
            LET r == ElfRule(fs, L, WrapRule(op, fs, f, n)) IN r.t = "dyn" /\ r.f = s}

(* The binding of the reference to n in loaded regular file f. *)
RefTarget(fs, op, L, f, n) ==
    LET m == WrapRule(op, fs, f, n)
        r == ElfRule(fs, L, m)
        isref == IsRefKind(D(fs, f, n))
        r2 == IF r.t = "dyn" /\ isref /\ V(fs, f, n) # "default" THEN NoTarget     \* must be satisfied in this module
              ELSE IF r.t = "dyn" /\ D(fs, f, n) = "weakundef" /\ fs[r.f].kind = "asneeded"
                      /\ r.f \notin AsNeededUsed(fs, op, L) THEN NoTarget            \* library is not linked
              ELSE r
    IN IF r2.t = "undefined"
       THEN (IF D(fs, f, n) = "weakundef" THEN [t |-> "zero", f |-> 0, n |-> ""] ELSE r2)
       ELSE r2

RefKeys(fs, L) == {<<f, n>> \in FIdx(fs) \X NameSet : f \in L /\ ~Shared(fs, f) /\ D(fs, f, n) # "none"}
TargetStr(t) == CASE t.t = "def" -> "d" \o ToString(t.f) \o ":" \o t.n
                  [] OTHER -> t.t     \* common<size> (the size is part of the identity), dyn, zero, undefined
KeyStr(k) == ToString(k[1]) \o ":" \o k[2]

Outcome(fs, op, L, dup, Tgt(_, _)) ==
    LET keys == RefKeys(fs, L)
        tg == [k \in keys |-> Tgt(k[1], k[2])]
        undef == \E k \in keys : tg[k].t = "undefined"
        err == IF dup THEN "duplicate" ELSE IF undef THEN "undefined" ELSE "none"
    IN [error |-> err,
        loaded |-> {f \in L : ~Shared(fs, f)} \cup AsNeededUsed(fs, op, L) \cup {f \in FIdx(fs) : fs[f].kind = "shared"},
        bind |-> IF err # "none" THEN [k \in {} |-> ""]
                 ELSE [s \in {KeyStr(k) : k \in keys} |->
                          LET k == CHOOSE k \in keys : KeyStr(k) = s IN TargetStr(tg[k])]]

-----------------------------------------------------------------------------
(* LFP: least fixpoint of archive loading.  Provider(n) = the first definition of n on the command
   line.  A file is loaded iff it is not optional or it provides a name some loaded file references
   non-weakly (shared objects do not pull in shared objects).  By construction LFP depends on the
   command line only through the relative order of the DEFINITIONS of each name. *)
(* Nothing in LFP (nor in ElfRule / Scan) depends on WHERE in a file's symbol table a reference sits
   or on how many other symbols the file has: a file is modelled by the set of its per-name records.
   The implementation resolves the symbols of an object in chunks of 5000 (MAX_SYMBOLS_PER_WORK_ITEM);
   the harness therefore replays sampled configurations with the referencing objects padded so that
   the reference lands on / next to the chunk boundaries, with the SAME expected outcome. *)
Provider(fs, n) == IF Definers(fs, n) = {} THEN 0 ELSE MinOf(Definers(fs, n))
Pulls(fs, op, f) ==
    {Provider(fs, m) : m \in NeedsOf(fs, op, f)} \ {0}
RECURSIVE LfpFrom(_, _, _)
LfpFrom(fs, op, L) ==
    LET roots == {Provider(fs, u) : u \in op.undefs} \ {0}
        N == L \cup roots \cup
             UNION {{g \in Pulls(fs, op, f) : ~(Shared(fs, f) /\ Shared(fs, g))} : f \in L}
    IN IF N = L THEN L ELSE LfpFrom(fs, op, N)
LFP(fs, op) == LfpFrom(fs, op, NonOptional(fs))

(* C03, second sentence: the decision does not depend on where a file sits on the command line
   relative to the files that reference it - LFP is invariant under every permutation of the
   command line that keeps the relative order of the DEFINITIONS of each name. *)
KeepsDefinitionOrder(fs, p) ==
    \A n \in NameSet : \A i, j \in FIdx(fs) :
        (i < j /\ IsDefKind(D(fs, p[i], n)) /\ IsDefKind(D(fs, p[j], n))) => p[i] < p[j]
PositionIndependent(fs, op) ==
    \A p \in Permutations(FIdx(fs)) :
        KeepsDefinitionOrder(fs, p) =>
            LET fs2 == [i \in FIdx(fs) |-> fs[p[i]]]
            IN LFP(fs2, op) = {i \in FIdx(fs) : p[i] \in LFP(fs, op)}

-----------------------------------------------------------------------------
(* Scan: the sequential reading (what ld.lld does, and GNU ld when archives follow their users):
   files are visited in order; an optional file registers its definitions as LAZY for names that
   have no definition yet; a lazy file is extracted the moment a non-weak reference meets its lazy
   entry.  Visiting a file = its definitions first, then its references in symbol order.
   State: sym[n] = [k, f, weak] with k in none|undef|lazy|def|common|shared ; ld = loaded set. *)
S0 == [k |-> "none", f |-> 0, weak |-> FALSE, vis |-> "default"]
ScanInit == [sym |-> [n \in NameSet |-> S0], ld |-> {}]

ScanDef(st, fs, f, n) ==   \* a definition of n in visited file f
    LET s == st.sym[n]
        d == D(fs, f, n)
        v == IF Shared(fs, f) THEN s.vis ELSE MinVis(s.vis, V(fs, f, n))
        new == [k |-> IF Shared(fs, f) THEN "shared" ELSE IF IsCommon(d) THEN "common" ELSE "def",
                f |-> f, weak |-> d = "weak", vis |-> v]
        wins ==
            IF Shared(fs, f) THEN s.k \in {"none", "undef", "lazy"} /\ s.vis = "default"
            ELSE IF s.k \notin {"def", "common"} THEN TRUE
            (* among equals the first definition in COMMAND-LINE order wins (the property's wording), also
               when the earlier file is a member that was extracted later than the other definition was seen *)
            ELSE IF d = "weak" THEN s.k = "def" /\ s.weak /\ f < s.f
            ELSE IF s.k = "def" /\ s.weak THEN TRUE
            ELSE IF IsCommon(d) THEN s.k = "common" /\ (CSize(d) > CSize(D(fs, s.f, n))
                                                        \/ (CSize(d) = CSize(D(fs, s.f, n)) /\ f < s.f))
            ELSE s.k = "common" \/ f < s.f
        keepw == IF Shared(fs, f) /\ s.k \in {"undef", "lazy"} THEN [new EXCEPT !.weak = s.weak] ELSE new
    IN [st EXCEPT !.sym[n] = IF wins THEN keepw ELSE [s EXCEPT !.vis = v]]

RECURSIVE ScanVisit(_, _, _, _), ScanRefs(_, _, _, _, _), ScanDefs(_, _, _, _)
ScanDefs(st, fs, f, i) ==
    IF i > Len(Names) THEN st
    ELSE ScanDefs(IF IsDefKind(D(fs, f, Names[i])) THEN ScanDef(st, fs, f, Names[i]) ELSE st, fs, f, i + 1)

ScanRefs(st, fs, op, f, i) ==
    IF i > Len(Names) THEN st
    ELSE LET n0 == Names[i]
             d == D(fs, f, n0)
         IN IF ~IsRefKind(d) THEN ScanRefs(st, fs, op, f, i + 1)
            ELSE LET n == WrapRule(op, fs, f, n0)
                     s == st.sym[n]
                     w == d = "weakundef"
                     v == MinVis(s.vis, V(fs, f, n0))
                     st2 ==
                       IF s.k = "none" THEN [st EXCEPT !.sym[n] = [k |-> "undef", f |-> f, weak |-> w, vis |-> v]]
                       ELSE IF s.k = "shared" /\ V(fs, f, n0) # "default"
                            THEN [st EXCEPT !.sym[n] = [k |-> "undef", f |-> f, weak |-> w, vis |-> v]]
                       ELSE IF s.k = "lazy"
                            THEN (IF w THEN [st EXCEPT !.sym[n].vis = v]
                                  ELSE ScanVisit([st EXCEPT !.sym[n].vis = v], fs, op, s.f))
                       ELSE IF s.k \in {"undef", "shared"}     \* (a shared object's reference counts: as GNU ld, not lld)
                            THEN [st EXCEPT !.sym[n].weak = s.weak /\ w, !.sym[n].vis = v]
                       ELSE [st EXCEPT !.sym[n].vis = v]
                 IN ScanRefs(st2, fs, op, f, i + 1)

ScanVisit(st, fs, op, f) ==
    IF f \in st.ld THEN st
    ELSE ScanRefs(ScanDefs([st EXCEPT !.ld = @ \cup {f}], fs, f, 1), fs, op, f, 1)

RECURSIVE ScanLazy(_, _, _, _, _)
ScanLazy(st, fs, op, f, i) ==    \* register the definitions of optional regular file f
    IF i > Len(Names) THEN st
    ELSE LET n == Names[i]
             s == st.sym[n]
             st2 == IF ~IsDefKind(D(fs, f, n)) \/ f \in st.ld THEN st
                    ELSE IF s.k = "undef" /\ ~s.weak THEN ScanVisit(st, fs, op, f)
                    ELSE IF s.k \in {"none", "undef"} THEN [st EXCEPT !.sym[n] = [s EXCEPT !.k = "lazy", !.f = f]]
                    ELSE st
         IN ScanLazy(st2, fs, op, f, i + 1)

RECURSIVE ScanRoots(_, _, _, _)
ScanRoots(st, fs, op, us) ==     \* -u names behave as non-weak references seen before any file
    IF us = {} THEN st
    ELSE LET u == CHOOSE x \in us : TRUE
         IN ScanRoots([st EXCEPT !.sym[u] = [k |-> "undef", f |-> 0, weak |-> FALSE, vis |-> "default"]],
                      fs, op, us \ {u})

RECURSIVE ScanFrom(_, _, _, _)
ScanFrom(st, fs, op, f) ==
    IF f > Len(fs) THEN st
    ELSE ScanFrom(IF fs[f].kind = "member" THEN ScanLazy(st, fs, op, f, 1) ELSE ScanVisit(st, fs, op, f),
                  fs, op, f + 1)
Scan(fs, op) == ScanFrom(ScanRoots(ScanInit, fs, op, op.undefs), fs, op, 1)
ScanLoaded(fs, op) == Scan(fs, op).ld

(* Where can the sequential reading differ from the fixpoint?  Only when an optional file's
   definition of a name is followed by another definition of that name ("shadowed lazy
   definition"), or a COMMON symbol meets a lazy definition. *)
ShadowClass(fs) ==
    \E n \in NameSet : \E f, g \in Definers(fs, n) : f < g /\ fs[f].kind = "member"
CommonLazyClass(fs) ==
    \E n \in NameSet : \E f, g \in Definers(fs, n) :
        f # g /\ IsCommon(D(fs, f, n)) /\ ~IsCommon(D(fs, g, n)) /\ fs[g].kind = "member"

(* A reference with non-default visibility cannot be satisfied by a shared object; when a shared
   object nevertheless owns the name, which regular definition (if any) is fetched instead differs
   between linkers: such configurations are outside the fixpoint theorems (they are still replayed). *)
VisSharedClass(fs) ==
    \E n \in NameSet : \E f, g \in FIdx(fs) :
        IsRefKind(D(fs, f, n)) /\ V(fs, f, n) # "default" /\ Shared(fs, g) /\ IsDefKind(D(fs, g, n))

(* The reference outcome: ElfRule on the sequentially loaded set. *)
RuleOutcomeOn(fs, op, L) ==
    LET T(f, n) == RefTarget(fs, op, L, f, n)
    IN Outcome(fs, op, L, ElfDuplicate(fs, op, L), T)
RuleOutcome(fs, op) == RuleOutcomeOn(fs, op, ScanLoaded(fs, op))

(* The incremental resolution of the scan agrees with the declarative ElfRule on the final loaded
   set (sanity of the reference itself). *)
ScanAgreesWithElfRule(fs, op) ==
    LET st == Scan(fs, op)
    IN \A n \in NameSet :
          LET r == ElfRule(fs, st.ld, n)
              s == st.sym[n]
          IN \/ ElfDuplicate(fs, op, st.ld)
             \/ /\ s.k = "def" <=> r.t = "def"
                /\ s.k = "def" => s.f = r.f
                /\ s.k = "common" <=> IsCommon(r.t)
                /\ s.k = "shared" => r.t = "dyn"

-----------------------------------------------------------------------------
(* Part 2: wild as coded.  Q = set of quirks switched on. *)
NoSym == [f |-> 0, n |-> ""]
Sym(f, n) == [f |-> f, n |-> n]
NT0(fs, n) == IF Definers(fs, n) = {} THEN NoSym ELSE Sym(MinOf(Definers(fs, n)), n)
(* apply_wrapped_symbol_overrides *)
NT(fs, op, Q, n) ==
    IF n \in op.wrap /\ n \in DOMAIN WrapName
    THEN (IF NT0(fs, WrapName[n]) # NoSym THEN NT0(fs, WrapName[n])
          ELSE IF "wrapNoDef" \in Q THEN NT0(fs, n) ELSE NoSym)
    ELSE IF n \in DOMAIN RealOf /\ RealOf[n] \in op.wrap /\ NT0(fs, RealOf[n]) # NoSym
    THEN NT0(fs, RealOf[n])
    ELSE NT0(fs, n)
Alts(fs, s) == Definers(fs, s.n) \ {s.f}

StrClass(Q, d) == IF d = "strong" THEN "strong"
                  ELSE IF d = "unique" THEN (IF "uniqWeak" \in Q THEN "weak" ELSE "strong")
                  ELSE IF IsCommon(d) THEN "common" ELSE "weak"
(* SymbolPrioritySelector over candidate files C for name n; 0 if none *)
Selector(fs, Q, C, n) ==
    LET st == {f \in C : StrClass(Q, D(fs, f, n)) = "strong"}
        co == {f \in C : StrClass(Q, D(fs, f, n)) = "common"}
        we == {f \in C : StrClass(Q, D(fs, f, n)) = "weak"}
    IN IF st # {} THEN MinOf(st) ELSE IF co # {} THEN MaxCommon(fs, co, n) ELSE IF we # {} THEN MinOf(we) ELSE 0

(* SymbolDb::get for an undefined reference in file f to name n *)
Lookup(fs, op, Q, f, n) ==
    LET s == NT(fs, op, Q, n)
    IN IF s = NoSym THEN NoSym
       ELSE IF V(fs, f, n) # "default" /\ Shared(fs, s.f)
            THEN LET b == Selector(fs, Q, {g \in Alts(fs, s) : ~Shared(fs, g)}, s.n)
                 IN IF b = 0 THEN NoSym ELSE Sym(b, s.n)
       ELSE s

(* resolve_symbol: the files that loaded file f requests, in symbol order *)
ReqOfName(fs, op, Q, f, n) ==
    IF D(fs, f, n) # "undef" THEN 0
    ELSE LET s == Lookup(fs, op, Q, f, n)
         IN IF s = NoSym \/ s.f = f \/ (Shared(fs, f) /\ Shared(fs, s.f)) THEN 0 ELSE s.f
RECURSIVE ReqSeqFrom(_, _, _, _, _)
ReqSeqFrom(fs, op, Q, f, i) ==
    IF i > Len(Names) THEN <<>>
    ELSE LET g == ReqOfName(fs, op, Q, f, Names[i])
         IN (IF g = 0 THEN <<>> ELSE <<g>>) \o ReqSeqFrom(fs, op, Q, f, i + 1)
RECURSIVE SetToSeq(_)
SetToSeq(S) == IF S = {} THEN <<>> ELSE LET x == MinOf(S) IN <<x>> \o SetToSeq(S \ {x})
(* file 0 is the prelude: load_prelude requests the owners of the -u names *)
ReqSeq(fs, op, Q, f) ==
    IF f = 0 THEN SetToSeq({NT(fs, op, Q, u).f : u \in op.undefs} \ {0})
    ELSE ReqSeqFrom(fs, op, Q, f, 1)
ReqSet(fs, op, Q, f) == {ReqSeq(fs, op, Q, f)[i] : i \in DOMAIN ReqSeq(fs, op, Q, f)}

(* the loaded set wild's design yields: fixpoint over the name table *)
RECURSIVE WLfpFrom(_, _, _, _)
WLfpFrom(fs, op, Q, L) ==
    LET N == L \cup ReqSet(fs, op, Q, 0) \cup UNION {ReqSet(fs, op, Q, f) : f \in L}
    IN IF N = L THEN L ELSE WLfpFrom(fs, op, Q, N)
WLoaded(fs, op, Q) == WLfpFrom(fs, op, Q, NonOptional(fs))

(* select_symbol for the name-table entry s (first definition) given loaded set L *)
Selected(fs, op, Q, L, s) ==
    LET all == Definers(fs, s.n)
        cand == {f \in all : f \in L /\ ~Shared(fs, f)}
        b == Selector(fs, Q, cand, s.n)
        anyl == {f \in all : f \in L}
    IN IF Cardinality(all) < 2 THEN s
       ELSE IF b # 0 THEN Sym(b, s.n)
       ELSE IF anyl # {} THEN Sym(MinOf(anyl), s.n)
       ELSE s
WDuplicate(fs, op, Q, L) ==
    ~op.allowMultiple /\
    \E n \in NameSet : Cardinality({f \in Definers(fs, n) : f \in L /\ ~Shared(fs, f) /\ StrClass(Q, D(fs, f, n)) = "strong"}) >= 2

(* final binding of the reference to n in loaded regular file f: definition() is two lookups *)
WTarget(fs, op, Q, L, f, n) ==
    LET own == IsDefKind(D(fs, f, n))
        s == IF own THEN Sym(f, n) ELSE Lookup(fs, op, Q, f, n)
        fin == IF s = NoSym THEN NoSym ELSE Selected(fs, op, Q, L, NT0(fs, s.n))
        weak == D(fs, f, n) = "weakundef"
        (* canonicalise_undefined_symbols: a weak reference (or a reference to the file's own
           symbol) counts as defined iff the file OWNING THE NAME got loaded *)
        pushed == ~own /\ s # NoSym /\ (weak \/ s.f = f)
        dropped == pushed /\ (IF "weakZero" \in Q THEN s.f \notin L ELSE fin.f \notin L)
        (* an undefined weak reference with default visibility in a dynamically linked output is left as
           a DYNAMIC weak reference to its own name: the run-time linker binds it to a linked shared
           object that defines that name, if there is one *)
        dname == IF "wrapNoDef" \in Q THEN n ELSE WrapRule(op, fs, f, n)   \* (as coded the reference keeps its own name)
        dynProviders == {g \in L : Shared(fs, g) /\ IsDefKind(D(fs, g, dname))}
    IN IF s = NoSym \/ dropped \/ fin.f \notin L
       THEN (IF weak
             THEN (IF V(fs, f, n) = "default" /\ dynProviders # {}
                   THEN [t |-> "dyn", f |-> MinOf(dynProviders), n |-> dname]
                   ELSE [t |-> "zero", f |-> 0, n |-> ""])
             ELSE NoTarget)
       ELSE IF Shared(fs, fin.f) THEN [t |-> "dyn", f |-> fin.f, n |-> fin.n]
       ELSE IF IsCommon(D(fs, fin.f, fin.n)) THEN [t |-> D(fs, fin.f, fin.n), f |-> fin.f, n |-> fin.n]
       ELSE [t |-> "def", f |-> fin.f, n |-> fin.n]

WOutcomeOn(fs, op, Q, L) ==
    LET T(f, n) == WTarget(fs, op, Q, L, f, n)
        o == Outcome(fs, op, L, WDuplicate(fs, op, Q, L), T)
    IN [o EXCEPT !.loaded = L]
WOutcome(fs, op, Q) == WOutcomeOn(fs, op, Q, WLoaded(fs, op, Q))

(* Which quirks matter for this configuration: switching the quirk off changes the outcome. *)
QuirkRelevant(fs, op) ==
    {q \in AllQuirks :
        \/ q = "wrapNoDef" /\ op.wrap # {}
        \/ q = "uniqWeak" /\ \E f \in FIdx(fs), n \in NameSet : D(fs, f, n) = "unique"
        \/ q = "weakZero" /\ \E f \in FIdx(fs), n \in NameSet : D(fs, f, n) = "weakundef"}
QuirkCausesGiven(fs, op, model) ==
    {q \in QuirkRelevant(fs, op) : WOutcome(fs, op, AllQuirks \ {q}) # model}
QuirkCauses(fs, op) == QuirkCausesGiven(fs, op, WOutcome(fs, op, AllQuirks))

RegOnly(fs, L) == {f \in L : ~Shared(fs, f)}
Proj(o, fs) == [error |-> o.error, loaded |-> RegOnly(fs, o.loaded), bind |-> o.bind]

(* Everything that is a function of the configuration alone, computed once.  The theorems:
   ThScanElf   the incremental resolution of the scan agrees with the declarative ElfRule
   ThFixpoints wild's design fixpoint (over its name table, quirks off) = the declarative LFP
   ThLoadDiv   the fixpoint and the sequential reading load the same regular files except in the
               shadowed-lazy-definition / common-meets-lazy classes
   ThDesign    where they load the same files, the design (all quirks off) yields the rule's outcome:
               error class, loaded regular files, binding of every reference *)
Analysis(fs, op, wantAll) ==
    LET sl == ScanLoaded(fs, op)
        w0 == WLoaded(fs, op, {})
        rule == RuleOutcomeOn(fs, op, sl)
        design == WOutcomeOn(fs, op, {}, w0)
        model == WOutcomeOn(fs, op, AllQuirks, wantAll)
        sameLoaded == RegOnly(fs, w0) = RegOnly(fs, sl)
    IN [rule |-> rule, model |-> model,
        causes |-> QuirkCausesGiven(fs, op, model),
        loadDiv |-> RegOnly(fs, wantAll) # RegOnly(fs, sl),
        shadow |-> ShadowClass(fs), commonLazy |-> CommonLazyClass(fs), visShared |-> VisSharedClass(fs),
        thScanElf |-> ScanAgreesWithElfRule(fs, op),
        thFixpoints |-> VisSharedClass(fs) \/ RegOnly(fs, w0) = RegOnly(fs, LFP(fs, op)),
        thLoadDiv |-> sameLoaded \/ ShadowClass(fs) \/ CommonLazyClass(fs) \/ VisSharedClass(fs),
        thDesign |-> sameLoaded => Proj(design, fs) = Proj(rule, fs)]

-----------------------------------------------------------------------------
(* Part 3: the activation protocol (resolution.rs: process_object / resolve_symbol /
   try_request_file_id / AtomicTake).  One task per loaded file walks its request sequence; a
   request is a cheap read (is_taken) followed by the atomic take; the winner runs work_items_do
   (counted in loads) and spawns the file's task. *)
VARIABLES files, opts, taken, loads, pc, saw, phase,
          req,    \* req[t]: the request sequence of task t (a function of the configuration, cached)
          want    \* the fixpoint the activation must reach (cached)
vars == <<files, opts, taken, loads, pc, saw, phase, req, want>>

Tasks == 0..NF(files)
Req(t) == req[t]

Init ==
    /\ files \in ConfigSpace
    /\ opts \in OptSpace
    /\ taken = [f \in FIdx(files) |-> ~Optional(files, f)]
    /\ loads = [f \in FIdx(files) |-> IF Optional(files, f) THEN 0 ELSE 1]
    /\ pc = [t \in 0..NF(files) |-> IF t = 0 \/ ~Optional(files, t) THEN 1 ELSE 0]
    /\ saw = [t \in 0..NF(files) |-> "none"]
    /\ phase = "start"
    /\ req = <<>>
    /\ want = {}

(* a separate first step, so that TLC's workers (not the single-threaded computation of initial
   states) evaluate the per-configuration theorems *)
Start ==
    /\ phase = "start"
    /\ phase' = "activate"
    /\ req' = [t \in 0..NF(files) |-> ReqSeq(files, opts, AllQuirks, t)]
    /\ want' = WLoaded(files, opts, AllQuirks)
    /\ UNCHANGED <<files, opts, taken, loads, pc, saw>>

Running(t) == pc[t] >= 1 /\ pc[t] <= Len(Req(t))

Peek(t) ==
    /\ phase = "activate" /\ Running(t) /\ saw[t] = "none"
    /\ LET g == Req(t)[pc[t]]
       IN IF taken[g]
          THEN /\ pc' = [pc EXCEPT ![t] = @ + 1]
               /\ UNCHANGED saw
          ELSE /\ saw' = [saw EXCEPT ![t] = "free"]
               /\ UNCHANGED pc
    /\ UNCHANGED <<files, opts, taken, loads, phase, req, want>>

Take(t) ==
    /\ phase = "activate" /\ Running(t) /\ saw[t] = "free"
    /\ LET g == Req(t)[pc[t]]
       IN IF Racy \/ ~taken[g]
          THEN /\ taken' = [taken EXCEPT ![g] = TRUE]
               /\ loads' = [loads EXCEPT ![g] = @ + 1]
               /\ pc' = [pc EXCEPT ![t] = @ + 1, ![g] = 1]
          ELSE /\ pc' = [pc EXCEPT ![t] = @ + 1]           \* another thread beat us to it
               /\ UNCHANGED <<taken, loads>>
    /\ saw' = [saw EXCEPT ![t] = "none"]
    /\ UNCHANGED <<files, opts, phase, req, want>>

Finish ==
    /\ phase = "activate"
    /\ \A t \in Tasks : ~Running(t)
    /\ phase' = "done"
    /\ UNCHANGED <<files, opts, taken, loads, pc, saw, req, want>>

PeekAny == \E t \in Tasks : Peek(t)
TakeAny == \E t \in Tasks : Take(t)
Next == Start \/ PeekAny \/ TakeAny \/ Finish
Spec == Init /\ [][Next]_vars
FairSpec == Spec /\ WF_vars(Next)

Loaded == {f \in FIdx(files) : loads[f] >= 1}
Done == phase = "done"

TypeOK == /\ phase \in {"start", "activate", "done"}
          /\ \A f \in FIdx(files) : loads[f] \in 0..3
(* C03: work_items_do runs at most once per file, and only for files whose take succeeded *)
LoadedOnce == \A f \in FIdx(files) : loads[f] <= 1 /\ (loads[f] = 1 => taken[f])
(* nothing is ever loaded that the fixpoint does not contain *)
LoadedSound == phase # "start" => Loaded \subseteq want
(* confluence: whatever the interleaving, the terminal loaded set is the fixpoint *)
Confluence == Done => Loaded = want
(* the three static theorems, evaluated once per configuration (in the initial state) *)
IsInitial == phase = "activate" /\ \A t \in Tasks : pc[t] <= 1 /\ saw[t] = "none"
                /\ \A f \in FIdx(files) : loads[f] = (IF Optional(files, f) THEN 0 ELSE 1)
Theorems(an) ==
    /\ Assert(an.thScanElf, <<"ThScanElf fails", files, opts>>)
    /\ Assert(an.thFixpoints, <<"ThFixpoints fails", files, opts>>)
    /\ Assert(an.thLoadDiv, <<"ThLoadDiv fails", files, opts>>)
    /\ Assert(an.thDesign, <<"ThDesign fails", files, opts, an.rule>>)
Termination == <>Done
=============================================================================
