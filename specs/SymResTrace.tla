---------------------------- MODULE SymResTrace ----------------------------
(***************************************************************************)
(* Trace validation of wild's archive activation (resolution.rs) against   *)
(* the activation protocol of SymRes.tla (actions Peek / Take / the load   *)
(* that follows a winning take).  The trace is the ndjson file named by    *)
(* the environment variable TRACE, restricted to the events of ONE call of *)
(* resolve_symbols_and_select_archive_entries:                             *)
(*   Load{f}            work_items_do ran for file f (before ResBegin: the *)
(*                      non-optional files; after: a winning take)         *)
(*   ResBegin{}         the parallel scope starts                          *)
(*   Request{by,f}      loaded file `by` (0 = prelude) asks for f through  *)
(*                      a NON-WEAK reference (SymRes: Req(by) has entry f) *)
(*   Peek{f,taken}      the is_taken read returned true (SymRes!Peek, first *)
(*                      branch)                                             *)
(*   Take{f,won}        result of the AtomicTake (SymRes!Take)             *)
(*   ResEnd{loaded}     scope ended; number of files in outputs.loaded     *)
(* Peek/Take are lock-free, so their events may be logged later than the   *)
(* step itself: what they claim about OTHER threads' steps ("already       *)
(* taken", "lost the race") is checked at ResEnd; everything causally      *)
(* ordered (Load before the requests of that file, winning Take before its *)
(* Load, Request before its Take) is checked in order.                     *)
(* Properties evaluated on every validated trace: LoadedOnce (a second     *)
(* Load of one file cannot be matched), at most one winner per file, only  *)
(* loaded files request, only requested files are taken, every winner is   *)
(* loaded, every loser lost to a real winner.                              *)
(***************************************************************************)
EXTENDS Integers, Sequences, FiniteSets, TLC, Json, IOUtils

Rec == ndJsonDeserialize(IOEnv.TRACE)

VARIABLES began, ended, ld, initial, won, reqd, claimed, l
tvars == <<began, ended, ld, initial, won, reqd, claimed, l>>

Ev == Rec[l]
IsEv(name) == l <= Len(Rec) /\ Rec[l].ev = name /\ l' = l + 1

TInit == /\ began = FALSE /\ ended = FALSE /\ ld = {} /\ initial = {} /\ won = {} /\ reqd = {} /\ claimed = {}
         /\ l = 1 /\ TLCSet(1, 1)

(* work_items_do: once per file; before the scope only for non-optional files, inside only after a winning take *)
TLoad ==
    /\ IsEv("Load") /\ ~ended
    /\ Ev.f \notin ld                                   \* LoadedOnce
    /\ IF began THEN Ev.f \in won ELSE TRUE
    /\ ld' = ld \cup {Ev.f}
    /\ initial' = IF began THEN initial ELSE initial \cup {Ev.f}
    /\ UNCHANGED <<began, ended, won, reqd, claimed>>

TBegin == IsEv("ResBegin") /\ ~began /\ began' = TRUE /\ UNCHANGED <<ended, ld, initial, won, reqd, claimed>>

TRequest ==
    /\ IsEv("Request") /\ began /\ ~ended
    /\ Ev.by = 0 \/ Ev.by \in ld                        \* only a loaded file's task resolves symbols
    /\ reqd' = reqd \cup {Ev.f}
    /\ UNCHANGED <<began, ended, ld, initial, won, claimed>>

TPeek ==
    /\ IsEv("Peek") /\ began /\ ~ended
    /\ Ev.f \in reqd /\ Ev.taken
    /\ claimed' = claimed \cup {Ev.f}                   \* "somebody has taken f": justified at ResEnd
    /\ UNCHANGED <<began, ended, ld, initial, won, reqd>>

TTake ==
    /\ IsEv("Take") /\ began /\ ~ended
    /\ Ev.f \in reqd
    /\ IF Ev.won
       THEN /\ Ev.f \notin won /\ Ev.f \notin initial   \* the take is atomic: one winner, never for a non-optional file
            /\ won' = won \cup {Ev.f}
            /\ UNCHANGED claimed
       ELSE /\ claimed' = claimed \cup {Ev.f}
            /\ UNCHANGED won
    /\ UNCHANGED <<began, ended, ld, initial, reqd>>

TEnd ==
    /\ IsEv("ResEnd") /\ began /\ ~ended
    /\ won \subseteq ld                                  \* every winner ran work_items_do
    /\ claimed \subseteq won \cup initial                \* every "already taken"/"lost" had a real winner
    /\ Ev.loaded = Cardinality(ld \ {0})
    /\ ended' = TRUE
    /\ UNCHANGED <<began, ld, initial, won, reqd, claimed>>

TNext == TLoad \/ TBegin \/ TRequest \/ TPeek \/ TTake \/ TEnd
TSpec == TInit /\ [][TNext]_tvars

TInv == /\ won \cap initial = {}
        /\ (ended => won \subseteq ld)

TProgress == TLCSet(1, IF TLCGet(1) < l THEN l ELSE TLCGet(1))
TAccepted ==
    LET best == TLCGet(1) IN
    IF best = Len(Rec) + 1 /\ Len(Rec) > 0 /\ Rec[Len(Rec)].ev = "ResEnd"
    THEN PrintT(<<"TRACE-ACCEPTED", Len(Rec)>>)
    ELSE PrintT(<<"TRACE-UNMATCHED", best, IF best <= Len(Rec) THEN Rec[best] ELSE "truncated">>) /\ FALSE
=============================================================================
