------------------------------ MODULE SymTabs ------------------------------
(***************************************************************************)
(* C31 - Symbol tables describe the final resolution.                      *)
(*                                                                         *)
(* One fixed small program contains a definition for every combination of  *)
(*   file        m  main.o, s  second object, a  member of a regular        *)
(*               archive, t  member of a thin archive (ar rcT)              *)
(*   binding     GLOBAL, WEAK           (plus one LOCAL per file)          *)
(*   visibility  DEFAULT, PROTECTED, HIDDEN, INTERNAL                      *)
(*   e           named in the export list (--export-dynamic-symbol /       *)
(*               --dynamic-list) or not                                    *)
(*   v           named `local:` by the version script or not               *)
(*   r           referenced by a shared library on the link line or not    *)
(* plus names defined twice (weak/strong, weak/weak, common/common) and    *)
(* imports from a shared library (strong, weak, via GOT, unreferenced).    *)
(* A configuration is a set of options: output kind x export option x      *)
(* --exclude-libs x version script x strip option.  TLC enumerates all     *)
(* configurations.                                                         *)
(*                                                                         *)
(*  ExpectedDynsym / ExpectedSymtab   the declarative rule (validated      *)
(*        against GNU ld 2.40 on every configuration by the harness)       *)
(*  the operational model   transcription of wild: per file               *)
(*        ObjectLayoutState::activate -> load_non_hidden_symbols ->        *)
(*        can_export_symbol (layout.rs), should_downgrade_to_local         *)
(*        (symbol_db.rs), export requests of shared libraries              *)
(*        (export_dynamic), ExcludeLibs (args/elf.rs)                      *)
(*                                                                         *)
(* TLC checks operational = declarative for every symbol of every          *)
(* configuration except in the exactly characterised deviation classes     *)
(* (recorded findings) and prints one REPLAY record per configuration.     *)
(***************************************************************************)
EXTENDS Integers, Sequences, FiniteSets, TLC, Json

CONSTANTS Emit

VARIABLES cfg,       \* [kind, exp, excl, vs, strip]
          pc,        \* "start" | "files" | "requests" | "done"
          todo,      \* files not yet activated
          dyn        \* set of symbols the operational model has put into .dynsym

vars == <<cfg, pc, todo, dyn>>

Kinds == {"exe", "pie", "shared"}
Exps == {"none", "all", "sym", "symlist", "dynlist"}
Excls == {"none", "ALL", "byname"}
VSs == {"none", "locals", "globstar"}
Strips == {"none", "all", "debug", "discard-all"}

FilesU == {"m", "s", "a", "t"}
ArchiveKinds == {"a", "t"}
Binds == {"GLOBAL", "WEAK"}
Viss == {"DEFAULT", "PROTECTED", "HIDDEN", "INTERNAL"}

(* the universe of defined global symbols of the program.  A reference from a shared library (r = 1)
   is only generated to symbols that may be exported at all: GNU ld rejects a link in which a DSO
   references a hidden/localised symbol of the output. *)
Universe == {x \in [file : FilesU, bind : Binds, vis : Viss, e : {0, 1}, v : {0, 1}, r : {0, 1}] :
                x.r = 1 => (x.vis \in {"DEFAULT", "PROTECTED"} /\ x.v = 0 /\ x.file \notin ArchiveKinds)}

-----------------------------------------------------------------------------
(* Declarative rule *)

(* Visibility merging (gABI): the visibility of a symbol in the output is the MOST CONSTRAINING visibility of all
   its occurrences in the loaded relocatable files - definitions and undefined references alike, weak or not.  The
   `vis` of a universe member below is the merged one; the replayed program additionally contains names defined
   DEFAULT in one object and referenced HIDDEN / PROTECTED (by a weak and by a strong reference) from another. *)
VisRank(v) == CASE v = "DEFAULT" -> 0 [] v = "PROTECTED" -> 1 [] v = "HIDDEN" -> 2 [] v = "INTERNAL" -> 3
MergedVis(S) == CHOOSE v \in S : \A w \in S : VisRank(w) <= VisRank(v)
ASSUME /\ MergedVis({"DEFAULT", "HIDDEN"}) = "HIDDEN" /\ MergedVis({"DEFAULT", "PROTECTED"}) = "PROTECTED"
       /\ MergedVis({"PROTECTED", "HIDDEN", "DEFAULT"}) = "HIDDEN" /\ MergedVis({"DEFAULT"}) = "DEFAULT"

Visible(x) == x.vis \in {"DEFAULT", "PROTECTED"}

(* --exclude-libs ALL | --exclude-libs libarc.a:libthin.a : both archives are named, whatever their
   flavour (GNU ld matches the archive's file name for thin archives too) *)
Excluded(x) == cfg.excl # "none" /\ x.file \in ArchiveKinds
VsLocal(x) == cfg.vs # "none" /\ x.v = 1                        \* `local:` entry (exact, or via `*`)
Demoted(x) == Excluded(x) \/ VsLocal(x)

ListGiven == cfg.exp \in {"sym", "symlist", "dynlist"}

(* somebody asks for the symbol to be dynamic *)
Wanted(x) ==
    \/ cfg.kind = "shared"
    \/ cfg.exp = "all"
    \/ (ListGiven /\ x.e = 1)
    \/ x.r = 1

Exported(x) == Visible(x) /\ ~Demoted(x) /\ Wanted(x)
ExpectedDynsym == {x \in Universe : Exported(x)}

(* .symtab: every definition once (unless --strip-all); the binding/visibility that may be shown *)
SymtabPresent == cfg.strip # "all"
BindAllowed(x) == IF Visible(x) /\ ~Demoted(x) THEN {x.bind} ELSE {x.bind, "LOCAL"}
VisAllowed(x) == IF Visible(x) /\ ~Demoted(x) THEN {x.vis} ELSE {x.vis, "DEFAULT", "HIDDEN"}

-----------------------------------------------------------------------------
(* Operational model: wild *)

NeedsDynsym == TRUE          \* every configuration links a shared library, so the output is dynamic

(* args/elf.rs should_export_dynamic(lib_name) = !exclude_libs.should_exclude(lib_name);
   only consulted for inputs with archive semantics (regular archive entries, thin archive members).
   lib_name of a thin archive member is the member's own file name (input_data.rs process_thin_archive
   opens every member as a file of its own), so naming the thin archive does not match. *)
WExcluded(f) == (f = "a" /\ cfg.excl # "none") \/ (f = "t" /\ cfg.excl = "ALL")

(* layout.rs ObjectLayoutState::activate *)
WExportAll(f) ==
    \/ (cfg.kind = "shared" /\ (f \notin ArchiveKinds \/ ~WExcluded(f)))
    \/ (NeedsDynsym /\ cfg.exp = "all")

(* symbol_db.rs should_downgrade_to_local: version script says local *)
WDowngraded(x) == cfg.vs # "none" /\ x.v = 1

(* layout.rs can_export_symbol.  object's Visibility has Default/Protected/Hidden only: STV_INTERNAL
   is not Hidden *)
WCanExport(x, all) ==
    /\ x.vis # "HIDDEN"
    /\ ~WDowngraded(x)
    /\ (all \/ ~ListGiven \/ x.e = 1)

Init ==
    /\ cfg \in [kind : Kinds, exp : Exps, excl : Excls, vs : VSs, strip : Strips]
    /\ (cfg.strip # "none" => (cfg.exp \in {"none", "all"} /\ cfg.excl = "none" /\ cfg.vs = "none"))
    /\ pc = "files" /\ todo = FilesU /\ dyn = {}

Activate(f) ==
    /\ pc = "files" /\ f \in todo
    /\ todo' = todo \ {f}
    /\ dyn' = dyn \cup
         (IF WExportAll(f) \/ (NeedsDynsym /\ ListGiven)
          THEN {x \in Universe : x.file = f /\ WCanExport(x, WExportAll(f))}   \* load_non_hidden_symbols
          ELSE {})
    /\ pc' = IF todo' = {} THEN "requests" ELSE pc
    /\ UNCHANGED cfg

(* a loaded shared library has an undefined reference that resolves to a regular definition:
   ObjectLayoutState::export_dynamic -> can_export_symbol(.., true) *)
Requests ==
    /\ pc = "requests"
    /\ dyn' = dyn \cup {x \in Universe : x.r = 1 /\ WCanExport(x, TRUE)}
    /\ pc' = "done"
    /\ UNCHANGED <<cfg, todo>>

Next == (\E f \in FilesU : Activate(f)) \/ Requests
Spec == Init /\ [][Next]_vars /\ WF_vars(Next)

-----------------------------------------------------------------------------
(* Properties *)

TypeOK == pc \in {"files", "requests", "done"} /\ dyn \subseteq Universe /\ todo \subseteq FilesU

(* deviation classes of the operational model (recorded findings) *)
Dev(x) ==
    IF (x \in dyn) = Exported(x) THEN "same"
    ELSE IF x \in dyn /\ x.vis = "INTERNAL" THEN "internal-visibility-exported"
    (* an --exclude-libs archive symbol is exported after all because of --export-dynamic, an
       export list entry or a reference from a shared library *)
    ELSE IF x \in dyn /\ Excluded(x) /\ x.file = "t" /\ cfg.excl = "byname" /\ cfg.kind = "shared"
            /\ cfg.exp # "all" /\ ~(ListGiven /\ x.e = 1)
         THEN "exclude-libs-by-name-misses-thin-archive"
    ELSE IF x \in dyn /\ Excluded(x) THEN "exclude-libs-ignored-by-export-request"
    ELSE "unclassified"

KnownDev == {"internal-visibility-exported", "exclude-libs-ignored-by-export-request",
             "exclude-libs-by-name-misses-thin-archive"}

ConformsOrKnown == pc = "done" => \A x \in Universe : Dev(x) = "same" \/ Dev(x) \in KnownDev
(* anti-vacuity: must be violated *)
ConformsStrictly == pc = "done" => dyn = ExpectedDynsym

(* never: hidden, version-script-local; order of activation is irrelevant *)
NeverHiddenOrLocal == \A x \in dyn : x.vis # "HIDDEN" /\ ~VsLocal(x)
RuleFacts ==
    /\ \A x \in ExpectedDynsym : x.vis \notin {"HIDDEN", "INTERNAL"} /\ ~Excluded(x) /\ ~VsLocal(x)
    /\ (cfg.kind = "shared" /\ cfg.excl = "none" /\ cfg.vs = "none") =>
            ExpectedDynsym = {x \in Universe : Visible(x)}
    /\ (cfg.kind # "shared" /\ cfg.exp = "none") => ExpectedDynsym = {x \in Universe : Visible(x) /\ ~Demoted(x) /\ x.r = 1}

Termination == <>(pc = "done")

Rec ==
    [cfg |-> cfg,
     symtab_present |-> SymtabPresent,
     syms |-> {[sym |-> x, exported |-> Exported(x), wild_op |-> x \in dyn, dev |-> Dev(x),
                bind_allowed |-> BindAllowed(x), vis_allowed |-> VisAllowed(x)] : x \in Universe}]

EmitReplay == (pc = "done" /\ Emit) => PrintT(<<"REPLAY", ToJson(Rec)>>)

(* anti-vacuity: a wrong rule (hidden symbols exported from shared objects) must be refuted by the model *)
BrokenRule == pc = "done" => \A x \in Universe : (cfg.kind = "shared" /\ x.vis = "HIDDEN" /\ ~Demoted(x)) => x \in dyn
=============================================================================
