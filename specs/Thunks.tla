------------------------------- MODULE Thunks -------------------------------
(***************************************************************************)
(* C11 - AArch64 long branches reach their intended target.                *)
(*                                                                         *)
(* libwild/src/thunks.rs `assign_thunk_blocks` as a state machine, one     *)
(* action per object (start, end) of the primary text part, in address     *)
(* order, plus Finish.  Objects are contiguous (collect_primary_ranges     *)
(* accumulates sizes; empty objects are filtered out by the caller).       *)
(*                                                                         *)
(*   R      = max_branch_range handed to the function                      *)
(*            (ThunkConfig::min_branch_range - MAXIMUM_THUNK_BYTES_PER_BLOCK)*)
(*   Slack  = MAXIMUM_THUNK_BYTES_PER_BLOCK; R + Slack is the real range   *)
(*            of the branch instruction                                    *)
(*                                                                         *)
(* A thunk block is emitted at the end of its owner object's primary text  *)
(* (layout.rs allocate_thunk_block_space / finalise_layout), so            *)
(* BlockPos(b) = end of the owner.  The writer (elf_writer.rs              *)
(* maybe_get_thunk_for_relocation) redirects an out-of-range branch at a   *)
(* site in object o to the thunk in block asg[o].b.                        *)
(*                                                                         *)
(* Properties (evaluated when the run is complete):                        *)
(*   Structure    every object has a block, block ids are 0..nBlocks-1,    *)
(*                every block has exactly one owner, the owner uses it     *)
(*   Served       a (site, target) pair farther apart than the real range  *)
(*                is never "provably in range" (thunk symbol collected)    *)
(*   Reach        every site of every object is within the real range of   *)
(*                its block's position                                     *)
(*   ReachSmall   Reach, for inputs whose objects are all <= Slack long    *)
(* ReachSmall is what the algorithm guarantees; unconditional Reach is     *)
(* what the property asks whenever some block position could serve the     *)
(* site (Servable) - see MCThunks for how the two are used.                *)
(*                                                                         *)
(* Targets OUTSIDE the primary part (custom-named executable sections,     *)
(* .init/.fini, over- and under-aligned .text parts, .plt.got) and the     *)
(* estimate the code uses for them (compute_non_primary_text_size; here    *)
(* only the opaque prefix `Bases`) are the subject of ThunksParts.tla.     *)
(***************************************************************************)
EXTENDS Integers, Sequences, FiniteSets

CONSTANTS R, Slack,
          Fixed,      \* FALSE: assign_thunk_blocks as it is.  TRUE: with the placement rule proposed in
                      \* findings/C11-large-object-after-caller.md (fixes/C11-*.patch): when the object that
                      \* crosses the range would put the block R + Slack or more from the first object of
                      \* the group, the block goes to the end of the previous object instead
          Sizes,      \* candidate object sizes (positive)
          Bases,      \* candidate sizes of the non-primary text before the first object
          MaxObjs

VARIABLES objs,       \* sequence of [s, e]: the objects fed so far
          mode,       \* "init" | "prev" | "next" | "done"
          prevBlock, prevPos,
          pendId, pendFirst, pendStart,   \* pending_next = Some((id, first object, its start))
          nBlocks,
          asg         \* per object: [b |-> block or -1, own |-> BOOLEAN] (last `assign` callback)

vars == <<objs, mode, prevBlock, prevPos, pendId, pendFirst, pendStart, nBlocks, asg>>

RealRange == R + Slack
None == [b |-> -1, own |-> FALSE]
N == Len(objs)
NextStart == IF N = 0 THEN 0 ELSE objs[N].e

Init ==
    /\ objs = <<>> /\ mode = "init" /\ prevBlock = 0 /\ prevPos = 0
    /\ pendId = -1 /\ pendFirst = 0 /\ pendStart = 0 /\ nBlocks = 0 /\ asg = <<>>

(* let Some((first_file_id, _, first_end)) = iter.next(); assign(first, FIRST, true) *)
First(base, sz) ==
    /\ mode = "init"
    /\ objs' = <<[s |-> base, e |-> base + sz]>>
    /\ asg' = <<[b |-> 0, own |-> TRUE]>>
    /\ nBlocks' = 1 /\ prevBlock' = 0 /\ prevPos' = base + sz
    /\ mode' = "prev"
    /\ UNCHANGED <<pendId, pendFirst, pendStart>>

Feed(sz) == /\ N < MaxObjs
            /\ objs' = Append(objs, [s |-> NextStart, e |-> NextStart + sz])

(* else { assign(file_id, prev_block_id, false) } *)
AssignPrev(sz) ==
    /\ mode = "prev" /\ Feed(sz)
    /\ ~((NextStart + sz) - prevPos >= R)
    /\ asg' = Append(asg, [b |-> prevBlock, own |-> FALSE])
    /\ UNCHANGED <<mode, prevBlock, prevPos, pendId, pendFirst, pendStart, nBlocks>>

(* else if end - prev_block_pos >= max_branch_range { pending_next = Some((new id, file_id, start)) } *)
OpenNext(sz) ==
    /\ mode = "prev" /\ Feed(sz)
    /\ (NextStart + sz) - prevPos >= R
    /\ pendId' = nBlocks /\ nBlocks' = nBlocks + 1
    /\ pendFirst' = N + 1 /\ pendStart' = NextStart
    /\ asg' = Append(asg, None)            \* not assigned yet
    /\ mode' = "next"
    /\ UNCHANGED <<prevBlock, prevPos>>

(* pending, end - first_object_start < max_branch_range: assign(file_id, next_id, false) *)
AssignNext(sz) ==
    /\ mode = "next" /\ Feed(sz)
    /\ ~((NextStart + sz) - pendStart >= R)
    /\ asg' = Append(asg, [b |-> pendId, own |-> FALSE])
    /\ UNCHANGED <<mode, prevBlock, prevPos, pendId, pendFirst, pendStart, nBlocks>>

(* pending, end - first_object_start >= max_branch_range: the block is placed on this object *)
PlaceNext(sz) ==
    /\ mode = "next" /\ Feed(sz)
    /\ (NextStart + sz) - pendStart >= R
    /\ Fixed => (NextStart + sz) - pendStart < R + Slack
    /\ asg' = Append([asg EXCEPT ![pendFirst] = [b |-> pendId, own |-> FALSE]],
                     [b |-> pendId, own |-> TRUE])
    /\ prevBlock' = pendId /\ prevPos' = NextStart + sz
    /\ mode' = "prev"
    /\ UNCHANGED <<pendId, pendFirst, pendStart, nBlocks>>

(* proposed fix only: the crossing object is too long; the block is placed at the end of the previous
   object (the last one of the group so far, possibly its first), and the current object is then
   handled in "previous" mode relative to that block *)
PlaceBack(sz) ==
    /\ Fixed /\ mode = "next" /\ Feed(sz)
    /\ (NextStart + sz) - pendStart >= R + Slack
    /\ LET placed == [[asg EXCEPT ![pendFirst] = [b |-> pendId, own |-> (pendFirst = N)]]
                         EXCEPT ![N] = [b |-> pendId, own |-> TRUE]]
           pos == objs[N].e
       IN  IF (NextStart + sz) - pos >= R
           THEN /\ asg' = Append(placed, None)
                /\ pendId' = nBlocks /\ nBlocks' = nBlocks + 1
                /\ pendFirst' = N + 1 /\ pendStart' = NextStart
                /\ prevBlock' = pendId /\ prevPos' = pos
                /\ mode' = "next"
           ELSE /\ asg' = Append(placed, [b |-> pendId, own |-> FALSE])
                /\ prevBlock' = pendId /\ prevPos' = pos
                /\ mode' = "prev"
                /\ UNCHANGED <<pendId, pendFirst, pendStart, nBlocks>>

(* after the loop: a still pending block is owned by the first object that uses it *)
Finish ==
    /\ mode \in {"prev", "next"}
    /\ asg' = IF mode = "next" THEN [asg EXCEPT ![pendFirst] = [b |-> pendId, own |-> TRUE]] ELSE asg
    /\ mode' = "done"
    /\ UNCHANGED <<objs, prevBlock, prevPos, pendId, pendFirst, pendStart, nBlocks>>

Next ==
    \/ \E base \in Bases, sz \in Sizes : First(base, sz)
    \/ \E sz \in Sizes : AssignPrev(sz) \/ OpenNext(sz) \/ AssignNext(sz) \/ PlaceNext(sz) \/ PlaceBack(sz)
    \/ Finish

Spec == Init /\ [][Next]_vars

-----------------------------------------------------------------------------
Done == mode = "done"
Objs == 1..N
Owner(b) == CHOOSE o \in Objs : asg[o].b = b /\ asg[o].own
BlockPos(b) == objs[Owner(b)].e
Sites(o) == objs[o].s..(objs[o].e - 1)
Dist(a, b) == IF a >= b THEN a - b ELSE b - a

Structure == Done =>
    /\ Len(asg) = N
    /\ \A o \in Objs : asg[o].b \in 0..(nBlocks - 1)
    /\ \A b \in 0..(nBlocks - 1) : Cardinality({o \in Objs : asg[o].b = b /\ asg[o].own}) = 1
    /\ asg[1] = [b |-> 0, own |-> TRUE]
    (* blocks are handed out in address order *)
    /\ \A o, p \in Objs : o <= p => asg[o].b <= asg[p].b

(* thunks.rs process_primary_part_refs: provably_in_range(src object, definition's object) *)
Min(a, b) == IF a <= b THEN a ELSE b
Max(a, b) == IF a >= b THEN a ELSE b
ProvablyInRange(o, d) ==
    Max(objs[o].e, objs[d].e) - Min(objs[o].s, objs[d].s) < R

Served == Done =>
    \A o, d \in Objs : \A p \in Sites(o), t \in Sites(d) :
        Dist(p, t) > RealRange => ~ProvablyInRange(o, d)

ReachObj(o) == \A p \in Sites(o) : Dist(BlockPos(asg[o].b), p) <= RealRange
Reach == Done => \A o \in Objs : ReachObj(o)
AllSmall == \A o \in Objs : objs[o].e - objs[o].s <= Slack
ReachSmall == (Done /\ AllSmall) => \A o \in Objs : ReachObj(o)

(* Some admissible block position (the end of an object) is within the real range of every site of
   o: a thunk could serve every branch of o *)
Servable(o) == \E k \in Objs : \A p \in Sites(o) : Dist(objs[k].e, p) <= RealRange
(* C11: "a link never fails ... for a branch a thunk could serve" *)
ReachServable == Done => \A o \in Objs : Servable(o) => ReachObj(o)
=============================================================================
