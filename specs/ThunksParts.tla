---------------------------- MODULE ThunksParts ----------------------------
(***************************************************************************)
(* C11, second dimension of Thunks.tla: the executable image is not only   *)
(* the primary part (`.text`, alignment 4) whose objects Thunks.tla walks  *)
(* through, but also NON-PRIMARY executable parts.  thunks.rs decides      *)
(* whether a branch from a primary object to a non-primary, non-dynamic    *)
(* definition needs a thunk symbol from an ESTIMATE:                       *)
(*                                                                         *)
(*   N        = compute_non_primary_text_size: the sum of the sizes of the *)
(*              executable parts it counts (as written: every executable   *)
(*              part but the primary one)                                  *)
(*   src_end  = N + primary offset of the end of the caller's object       *)
(*              (collect_primary_ranges starts at initial_offset = N)      *)
(*   provably_in_range (fallback for a definition outside the primary      *)
(*              part) = src_end < R                                        *)
(*                                                                         *)
(* i.e. the code assumes "the target is at the very start of the           *)
(* executable region and everything it counted lies between".              *)
(*                                                                         *)
(* The classes of non-primary parts, with the two attributes that matter   *)
(* (both read off the code, they are independent of each other):           *)
(*   id    part id below / above the primary's  (part_id.rs: single-part   *)
(*         sections first, regular sections in id order, inside a section  *)
(*         by DEcreasing alignment)                                        *)
(*   side  placed before / after the primary part in OUTPUT order          *)
(*         (elf.rs build_output_order_and_program_segments:                *)
(*          PLT_GOT, INIT, FINI, custom.exec, TEXT)                        *)
(*                                                                         *)
(*   "plt"   .plt.got                        id below   before             *)
(*   "init"  .init/.fini/custom-named exec   id above   before             *)
(*   "hi"    .text parts, alignment > 4      id below   before             *)
(*   "lo"    .text parts, alignment 1 or 2   id above   after              *)
(*                                                                         *)
(* A configuration = sizes of the four classes, total primary size P, the  *)
(* caller's object [cs, ce) inside the primary part.  There is no          *)
(* behaviour: every configuration is an initial state and the properties   *)
(* are state predicates.                                                   *)
(*                                                                         *)
(* Declarative requirement (C11): a site and a target farther apart in the *)
(* FINAL layout than the real range R + Slack must not be "provably in     *)
(* range" (otherwise no thunk symbol is collected and the writer fails     *)
(* with "Branch relocation out of range ... but no thunk allocated").      *)
(* Sufficient and what the code intends: the estimate is an upper bound of *)
(* the true distance.                                                      *)
(***************************************************************************)
EXTENDS Integers, FiniteSets

CONSTANTS R, Slack,
          PartSizes,   \* candidate sizes of each non-primary class
          PMax,        \* largest total size of the primary part
          MaxObj,      \* largest size of the caller's object
          Counted      \* which parts the estimate counts:
                       \*   "all"         every non-primary executable part (thunks.rs as written)
                       \*   "smaller-id"  only parts whose id is below the primary's (broken variant)
                       \*   "larger-id"   only parts whose id is above the primary's (broken variant)

VARIABLES sz, P, cs, ce
vars == <<sz, P, cs, ce>>

Classes == {"plt", "init", "hi", "lo"}
IdBelow(k) == k \in {"plt", "hi"}
Before(k) == k \in {"plt", "init", "hi"}
BeforeSet == {k \in Classes : Before(k)}
AfterSet == Classes \ BeforeSet

Init == /\ sz \in [Classes -> PartSizes]
        /\ ce \in 1..PMax
        /\ cs \in {x \in 0..(PMax - 1) : x < ce /\ ce - x <= MaxObj}
        /\ P \in ce..PMax
Next == UNCHANGED vars
Spec == Init /\ [][Next]_vars

Sz(k, S) == IF k \in S THEN sz[k] ELSE 0
Sum(S) == Sz("plt", S) + Sz("init", S) + Sz("hi", S) + Sz("lo", S)

CountedSet == IF Counted = "all" THEN Classes
              ELSE IF Counted = "smaller-id" THEN {k \in Classes : IdBelow(k)}
              ELSE {k \in Classes : ~IdBelow(k)}

(* the code's quantities *)
N == Sum(CountedSet)                 \* compute_non_primary_text_size
SrcEnd == N + ce                     \* primary_ranges[caller].1
ProvablyInRange == SrcEnd < R        \* provably_in_range, definition outside the primary part

(* the final layout (output order: plt, init, hi, PRIMARY, lo) *)
B == Sum(BeforeSet)                  \* address of the primary part relative to the first executable byte
Base(k) == IF k = "plt" THEN 0
           ELSE IF k = "init" THEN sz["plt"]
           ELSE IF k = "hi" THEN sz["plt"] + sz["init"]
           ELSE B + P
Sites == cs..(ce - 1)
Targets(k) == 0..(sz[k] - 1)
Dist(a, b) == IF a >= b THEN a - b ELSE b - a
TrueDist(p, k, t) == Dist(B + p, Base(k) + t)
RealRange == R + Slack

UpperBound(K) == \A k \in K : \A t \in Targets(k), p \in Sites : TrueDist(p, k, t) <= SrcEnd
Served(K) == \A k \in K : \A t \in Targets(k), p \in Sites :
                 TrueDist(p, k, t) > RealRange => ~ProvablyInRange

(* targets placed before the primary part: what the code is built for *)
EstimateIsUpperBound == UpperBound(BeforeSet)
ServedBefore == Served(BeforeSet)
(* targets placed after it (low-alignment .text parts): C11 asks for this as well - a thunk in the
   caller's block could serve the branch *)
ServedAfter == Served(AfterSet)

(* what counting too much costs: never more than the counted sizes (thunks that are not needed) *)
OverEstimate == N - B
OverEstimateBounded == OverEstimate <= Sum(AfterSet)
=============================================================================
