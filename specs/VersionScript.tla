---------------------------- MODULE VersionScript ----------------------------
(***************************************************************************)
(* C32 - Symbol versions follow the version script.                        *)
(*                                                                         *)
(* A script is a sequence of version nodes; a node has a list of `global:` *)
(* patterns, a list of `local:` patterns and optionally a parent node.     *)
(* Patterns are strings over a tiny alphabet: exact names, globs with `?`  *)
(* and `*`, and the lone `*`.                                               *)
(*                                                                         *)
(*  Gnu(s)    what GNU ld assigns to symbol s (bfd_find_version_for_sym,   *)
(*            stated declaratively; validated against the real GNU ld on   *)
(*            every replayed script):                                      *)
(*            1. an exact (literal) match in the FIRST node that has one - *)
(*               its global list is looked at before its local list;       *)
(*            2. otherwise the LAST node with a matching glob (anything    *)
(*               that is not the lone `*`) in a global list;               *)
(*            3. otherwise the LAST node with a matching glob in a local   *)
(*               list;                                                     *)
(*            4. otherwise the LAST node with `*` in its global list;      *)
(*            5. otherwise the LAST node with `*` in its local list;       *)
(*            6. otherwise nothing (the symbol stays global, unversioned). *)
(*  WildFind  transcription of wild's RegularVersionScript::find_match     *)
(*            (version_script.rs), which follows lld's rule: exact first   *)
(*            node; then the last node with a matching glob WITHOUT `*`    *)
(*            (global list before local list inside a node); then the last *)
(*            node with a matching glob containing `*`; then `*`.          *)
(*                                                                         *)
(* TLC enumerates all scripts in the bound and all symbols, checks that    *)
(* WildFind = Gnu except in the exactly characterised deviation classes    *)
(* (recorded findings), and prints REPLAY records.  VersionTables.tla       *)
(* states the consistency of .gnu.version / .gnu.version_d /               *)
(* .gnu.version_r over an observation record (checked by TLC on the        *)
(* observations of real outputs: VersionTables.tla, VersionScriptObs.tla).  *)
(***************************************************************************)
EXTENDS Integers, Sequences, FiniteSets, TLC, Json

CONSTANTS Emit, Stride, Seed

VARIABLES script,   \* [idx, nodes : Seq([g : SUBSET Pat, l : SUBSET Pat, parent : Nat]), anon : BOOLEAN]
          phase,    \* "init" | "done"
          wild      \* wild[s] : assignment computed by the operational model

vars == <<script, phase, wild>>

(* patterns and symbol names are sequences of one-character strings *)
Chars(str) == str          \* names are given as sequences already (see MC module)

Nodes == script.nodes
N == Len(Nodes)

-----------------------------------------------------------------------------
(* glob matching (fnmatch without character classes) *)
RECURSIVE GlobMatch(_, _)
GlobMatch(p, s) ==
    IF p = <<>> THEN s = <<>>
    ELSE IF Head(p) = "*" THEN GlobMatch(Tail(p), s) \/ (s # <<>> /\ GlobMatch(p, Tail(s)))
    ELSE s # <<>> /\ (Head(p) = "?" \/ Head(p) = Head(s)) /\ GlobMatch(Tail(p), Tail(s))

HasChar(p, c) == \E i \in 1..Len(p) : p[i] = c
IsLiteral(p) == ~HasChar(p, "*") /\ ~HasChar(p, "?")
IsStar(p) == p = <<"*">>
IsGlob(p) == ~IsLiteral(p) /\ ~IsStar(p)                   \* GNU ld: wildcard other than the lone `*`
IsNonStarGlob(p) == ~IsLiteral(p) /\ ~HasChar(p, "*")      \* wild: NonstarGlob
IsStarGlob(p) == HasChar(p, "*") /\ ~IsStar(p)             \* wild: StarGlob

Max(S) == CHOOSE x \in S : \A y \in S : x >= y
Min(S) == CHOOSE x \in S : \A y \in S : x <= y

None == [node |-> 0, cls |-> "none", tier |-> "none"]
Res(i, c, t) == [node |-> i, cls |-> c, tier |-> t]

-----------------------------------------------------------------------------
(* GNU ld's assignment *)
Gnu(s) ==
    LET LitG == {i \in 1..N : \E p \in Nodes[i].g : IsLiteral(p) /\ p = s}
        LitL == {i \in 1..N : \E p \in Nodes[i].l : IsLiteral(p) /\ p = s}
        GlobG == {i \in 1..N : \E p \in Nodes[i].g : IsGlob(p) /\ GlobMatch(p, s)}
        GlobL == {i \in 1..N : \E p \in Nodes[i].l : IsGlob(p) /\ GlobMatch(p, s)}
        StarG == {i \in 1..N : \E p \in Nodes[i].g : IsStar(p)}
        StarL == {i \in 1..N : \E p \in Nodes[i].l : IsStar(p)}
    IN IF LitG \cup LitL # {}
       THEN LET i == Min(LitG \cup LitL) IN IF i \in LitG THEN Res(i, "global", "exact") ELSE Res(i, "local", "exact")
       ELSE IF GlobG # {} THEN Res(Max(GlobG), "global", "glob")
       ELSE IF GlobL # {} THEN Res(Max(GlobL), "local", "glob")
       ELSE IF StarG # {} THEN Res(Max(StarG), "global", "star")
       ELSE IF StarL # {} THEN Res(Max(StarL), "local", "star")
       ELSE None

-----------------------------------------------------------------------------
(* wild's find_match, pass by pass *)
WildPass(s, Sel(_), tier, last) ==
    (* nodes (in index order) in which a pattern selected by Sel matches, global list first *)
    LET HitG(i) == \E p \in Nodes[i].g : Sel(p) /\ (IF IsLiteral(p) THEN p = s ELSE GlobMatch(p, s))
        HitL(i) == \E p \in Nodes[i].l : Sel(p) /\ (IF IsLiteral(p) THEN p = s ELSE GlobMatch(p, s))
        hits == {i \in 1..N : HitG(i) \/ HitL(i)}
    IN IF hits = {} THEN None
       ELSE LET i == IF last THEN Max(hits) ELSE Min(hits)
            IN IF HitG(i) THEN Res(i, "global", tier) ELSE Res(i, "local", tier)

WildFind(s) ==
    LET e == WildPass(s, IsLiteral, "exact", FALSE)
        q == WildPass(s, IsNonStarGlob, "nonstar", TRUE)
        g == WildPass(s, IsStarGlob, "starglob", TRUE)
        a == WildPass(s, IsStar, "star", TRUE)
    IN IF e # None THEN e ELSE IF q # None THEN q ELSE IF g # None THEN g ELSE a

-----------------------------------------------------------------------------
(* What must be observable in the output for symbol s (a default-visibility global definition). *)
(* same observable effect: both hide the symbol, or both export it with the same version node *)
Same(x, y) == x.cls = y.cls /\ (x.cls = "global" => x.node = y.node)
Expect(s) ==
    LET r == Gnu(s) IN
    [exported |-> r.cls # "local",
     node |-> IF r.cls = "global" /\ ~script.anon THEN r.node ELSE 0]     \* 0: unversioned (index 1)

(* deviation classes of wild from GNU ld (recorded findings); everything else must agree *)
DevKey(s) ==
    LET w == WildFind(s)
        g == Gnu(s)
    IN IF Same(w, g) THEN "same"
       ELSE IF w.tier = "nonstar" /\ g.tier = "glob" /\ g.cls = "global" /\ w.cls = "global" THEN "qmark-glob-tier-before-star-glob"
       ELSE IF g.tier = "glob" /\ g.cls = "global" /\ w.cls = "local" /\ w.tier \in {"nonstar", "starglob"} THEN "local-glob-beats-global-glob"
       ELSE "unclassified"

KnownDevKeys == {"qmark-glob-tier-before-star-glob", "local-glob-beats-global-glob"}

-----------------------------------------------------------------------------
(* enumeration *)
InitWith(sc) == script = sc /\ phase = "init" /\ wild = <<>>

Assign(Syms) ==
    /\ phase = "init"
    /\ wild' = [s \in Syms |-> WildFind(s)]
    /\ phase' = "done"
    /\ UNCHANGED script

(* GNU ld rejects a pattern that is listed both as global and as local (in any nodes) *)
WellFormed(nodes) ==
    \A i, j \in 1..Len(nodes) : nodes[i].g \cap nodes[j].l = {}

TypeOK == phase \in {"init", "done"}

AgreesOrKnown(Syms) == phase = "done" => \A s \in Syms : DevKey(s) = "same" \/ DevKey(s) \in KnownDevKeys
(* anti-vacuity: must be violated *)
AgreesStrictly(Syms) == phase = "done" => \A s \in Syms : DevKey(s) = "same"

(* facts about the rule itself *)
RuleFacts(Syms) ==
    phase = "done" =>
      \A s \in Syms :
        LET g == Gnu(s) IN
        /\ g.node \in 0..N
        /\ (g.node = 0) = (~\E i \in 1..N : \E p \in Nodes[i].g \cup Nodes[i].l :
                                IF IsLiteral(p) THEN p = s ELSE GlobMatch(p, s))
        (* an exact global entry in the first node that names s exactly always wins *)
        /\ (\E i \in 1..N : s \in Nodes[i].g /\ \A j \in 1..i : s \notin Nodes[j].l) => g.cls = "global"

Hash(i) == LET a == (i + Seed * 7 + 13) % 46337
               h == (a * a) % 46337
           IN ((h + (i \div 46337) + Seed) * 31337) % 46337
Sampled == Stride <= 1 \/ Hash(script.idx) % Stride = 0

Flat(p) == p    \* patterns are emitted as arrays of characters; the harness joins them

(* the non-base entries of .gnu.version_d: one per node, in script order (index i + 1), whose aux
   chain names the node and then its parent *)
ExpectedVerdefs ==
    IF script.anon THEN <<>>
    ELSE [i \in 1..N |-> IF Nodes[i].parent = 0 THEN <<i>> ELSE <<i, Nodes[i].parent>>]

Rec(Syms) ==
    [idx |-> script.idx, anon |-> script.anon, verdefs |-> ExpectedVerdefs,
     nodes |-> [i \in 1..N |-> [g |-> Nodes[i].g, l |-> Nodes[i].l, parent |-> Nodes[i].parent]],
     syms |-> {[name |-> s, exported |-> Expect(s).exported, node |-> Expect(s).node,
                gnu |-> Gnu(s), wild |-> wild[s], dev |-> DevKey(s)] : s \in Syms}]

EmitReplay(Syms) == (phase = "done" /\ Emit /\ Sampled) => PrintT(<<"REPLAY", ToJson(Rec(Syms))>>)

=============================================================================
