-------------------------- MODULE VersionScriptObs --------------------------
(* Observation validation for C32: every line of the ndjson file named by the environment variable
   OBS is the projection of one real output (see checks/c32.py); TLC evaluates TableProblems on each
   and prints the offending ones.  One state per observation. *)
EXTENDS VersionTables, TLC, Json, IOUtils

Obs == ndJsonDeserialize(IOEnv.OBS)

VARIABLE i
Init == i = 1
Next == i <= Len(Obs) /\ i' = i + 1
Spec == Init /\ [][Next]_i

Report ==
    IF i <= Len(Obs)
    THEN LET P == TableProblems(Obs[i]) IN P = {} \/ PrintT(<<"OBS-BAD", Obs[i].id, P>>)
    ELSE PrintT(<<"OBS-CHECKED", Len(Obs)>>)
=============================================================================
