---------------------------- MODULE VersionTables ----------------------------
(***************************************************************************)
(* C32, second half: internal consistency of the symbol version tables of  *)
(* an output (.gnu.version, .gnu.version_d, .gnu.version_r) as predicates  *)
(* over an observation record produced by harness/py/vlib/symobs.py.       *)
(* VersionScriptObs.tla evaluates them with TLC on the observations of     *)
(* real outputs of wild (and of GNU ld, as a sanity check of the           *)
(* predicates themselves).                                                 *)
(***************************************************************************)
EXTENDS Integers, Sequences, FiniteSets, Bitwise

(* Consistency of the version tables of an output.  An observation o (from vlib/symobs.py) has
     o.verdef  : Seq([ndx, flags, cnt, hash, names : Seq(Seq(Nat)), chain_ok])   names as byte codes
     o.verneed : Seq([file : Seq(Nat), in_needed : BOOLEAN, aux : Seq([name : Seq(Nat), hash, other, flags])])
     o.versym  : Seq([v : Nat, hidden : BOOLEAN, defined : BOOLEAN])   one per dynamic symbol after #0
     o.verdef_info, o.verdefnum : declared counts (sh_info, DT_VERDEFNUM; -1 if absent) *)

(* the System V ABI hash on 28 bits, on byte codes; every intermediate value stays below 2^31 *)
(* the System V ABI hash (28 significant bits) on byte codes; every intermediate value stays
   below 2^31:   h = (h << 4) + c;  g = h & 0xf0000000;  if (g) h ^= g >> 24;  h &= ~g *)
RECURSIVE ElfHashFrom(_, _)
ElfHashFrom(h, cs) ==
    IF cs = <<>> THEN h
    ELSE LET hi == h \div 16777216                         \* the 4 bits that (h << 4) moves above bit 27
             lo == h % 16777216
             x == lo * 16 + Head(cs)                       \* low part of (h << 4) + c, may carry into bit 28
             top == (hi + x \div 268435456) % 16            \* g >> 28
             low == x % 268435456
         IN ElfHashFrom(IF top = 0 THEN low ELSE low ^^ (top * 16), Tail(cs))
ElfHash(cs) == ElfHashFrom(0, cs)

VerdefProblems(o) ==
    LET vd == o.verdef
        n == Len(vd)
    IN  (IF n > 0 /\ vd[1].ndx # 1 THEN {"verdef-first-index-not-1"} ELSE {})
        \cup (IF n > 0 /\ vd[1].flags % 2 # 1 THEN {"verdef-base-flag-missing"} ELSE {})
        \cup (IF \E i \in 2..n : vd[i].flags % 2 = 1 THEN {"verdef-base-flag-on-non-base"} ELSE {})
        \cup (IF \E i \in 1..n : vd[i].ndx # i THEN {"verdef-indexes-not-dense"} ELSE {})
        \cup (IF \E i \in 1..n : vd[i].version # 1 THEN {"verdef-vd_version"} ELSE {})
        \cup (IF \E i \in 1..n : ~vd[i].chain_ok \/ Len(vd[i].names) # vd[i].cnt \/ vd[i].cnt < 1
              THEN {"verdef-aux-chain"} ELSE {})
        \cup (IF \E i \in 1..n : Len(vd[i].names) >= 1 /\ vd[i].hash # ElfHash(vd[i].names[1])
              THEN {"verdef-hash"} ELSE {})
        \cup (IF \E i, j \in 1..n : i # j /\ Len(vd[i].names) >= 1 /\ Len(vd[j].names) >= 1 /\ vd[i].names[1] = vd[j].names[1]
              THEN {"verdef-duplicate-name"} ELSE {})
        (* a parent (second aux entry) names another definition of this table *)
        \cup (IF \E i \in 2..n : \E k \in 2..Len(vd[i].names) :
                     ~\E j \in 2..n : j # i /\ Len(vd[j].names) >= 1 /\ vd[j].names[1] = vd[i].names[k]
              THEN {"verdef-parent-unknown"} ELSE {})
        \cup (IF o.verdef_info # -1 /\ o.verdef_info # n THEN {"verdef-sh_info"} ELSE {})
        \cup (IF o.verdefnum # -1 /\ o.verdefnum # n THEN {"verdef-DT_VERDEFNUM"} ELSE {})

VerneedOthers(o) == UNION {{o.verneed[i].aux[k].other : k \in 1..Len(o.verneed[i].aux)} : i \in 1..Len(o.verneed)}

VerneedProblems(o) ==
    LET vn == o.verneed
        nd == Len(o.verdef)
    IN  (IF \E i \in 1..Len(vn) : ~vn[i].in_needed THEN {"verneed-file-not-in-DT_NEEDED"} ELSE {})
        \cup (IF \E i \in 1..Len(vn) : \E k \in 1..Len(vn[i].aux) : vn[i].aux[k].hash # ElfHash(vn[i].aux[k].name)
              THEN {"verneed-hash"} ELSE {})
        \cup (IF \E i \in 1..Len(vn) : \E k \in 1..Len(vn[i].aux) : vn[i].aux[k].other <= (IF nd = 0 THEN 1 ELSE nd)
              THEN {"verneed-index-collides-with-verdef"} ELSE {})
        \cup (IF \E i, j \in 1..Len(vn) : \E k \in 1..Len(vn[i].aux), m \in 1..Len(vn[j].aux) :
                     <<i, k>> # <<j, m>> /\ vn[i].aux[k].other = vn[j].aux[m].other
              THEN {"verneed-index-not-unique"} ELSE {})
        \cup (IF \E i, j \in 1..Len(vn) : i # j /\ vn[i].file = vn[j].file THEN {"verneed-duplicate-file"} ELSE {})
        \cup (IF o.verneednum # -1 /\ o.verneednum # Len(vn) THEN {"verneed-DT_VERNEEDNUM"} ELSE {})

VersymProblems(o) ==
    LET nd == Len(o.verdef)
        others == VerneedOthers(o)
    IN  (IF \E k \in 1..Len(o.versym) :
               LET e == o.versym[k] IN
               ~(e.v \in {0, 1} \/ (e.defined /\ e.v \in 2..nd) \/ (~e.defined /\ e.v \in others))
         THEN {"versym-entry-out-of-range"} ELSE {})
        (* entry 0 (the null symbol) is deliberately not constrained: GNU ld and lld write 0 there,
           wild writes 1; nothing reads it *)
        \cup (IF o.nversym # -1 /\ o.nversym # o.ndynsym THEN {"versym-count"} ELSE {})

TableProblems(o) == VerdefProblems(o) \cup VerneedProblems(o) \cup VersymProblems(o)
=============================================================================
