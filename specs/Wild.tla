-------------------------------- MODULE Wild --------------------------------
(***************************************************************************)
(* The link pipeline as one process sees it: the order of the phases of    *)
(* Linker::link_for_arch / load_inputs_and_link and where the two parallel *)
(* protocols live inside it.  Phase names are those of Lifecycle.tla (= the *)
(* cfg-guarded fault points in the code).                                  *)
(*                                                                         *)
(*   start -> loaded -> symbols -> resolved                                *)
(*         -> [ layout::compute: string merging (one scope per merged      *)
(*              output section, sequential) runs alongside the GC          *)
(*              traversal scope; then sizes, layout, set_size ]            *)
(*         -> laid_out -> pre_write -> mid_write -> flushed -> unmapped    *)
(*         -> written -> verified -> finished [-> pre_inform -> post_inform]*)
(*                                                                         *)
(* Cross-phase obligations stated here:                                    *)
(*  - PhasesInOrder: a phase is reached only after all earlier ones;       *)
(*  - ScopesInsideLayout: the GC scope and every string-merge section      *)
(*    scope open after `resolved` and are closed before `laid_out`;        *)
(*  - at most one GC scope per link, string-merge scopes do not overlap;   *)
(*  - ResInsideResolve: the archive-activation scope of                    *)
(*    resolve_symbols_and_select_archive_entries (SymRes.tla is what       *)
(*    happens inside it) opens after `symbols` and is closed before        *)
(*    `resolved`; a linker plugin may run it a second time, never nested;  *)
(*  - after a panic / abort / signal no further phase is reached; after an *)
(*    error only `verified` and `finished` are (link_for_arch re-verifies). *)
(* The per-protocol behaviour inside the scopes is GcProto / StringMerge;  *)
(* process-level behaviour around the phases is Lifecycle.                 *)
(***************************************************************************)
EXTENDS Integers, Sequences

Phases == <<"start", "loaded", "symbols", "resolved", "laid_out", "pre_write", "mid_write", "flushed",
            "unmapped", "written", "verified", "finished", "pre_inform", "post_inform">>
Idx(p) == CHOOSE i \in 1..Len(Phases) : Phases[i] = p
IsPhase(p) == \E i \in 1..Len(Phases) : Phases[i] = p

VARIABLES ph,        \* index of the last phase reached
          gc,        \* "none" | "open" | "closed": the GC traversal scope
          sm,        \* "closed" | "open": a string-merge section scope
          smCount,   \* string-merge sections completed
          res,       \* "none" | "open" | "closed": the archive-activation (resolution) scope
          resCount,  \* resolution scopes completed
          faulted    \* "no" | "error" (an injected Err is propagating) | "silent" (an Err of the link itself, e.g. an
                     \* undefined symbol: no hook event announces it) | "dead" (panic / abort / signal: no code runs on)

wvars == <<ph, gc, sm, smCount, res, resCount, faulted>>

WInit == ph = 1 /\ gc = "none" /\ sm = "closed" /\ smCount = 0 /\ res = "none" /\ resCount = 0 /\ faulted = "no"

InLayout == ph = Idx("resolved")
InResolve == ph = Idx("symbols")

Reach(p) ==
    /\ faulted = "no"
    /\ Idx(p) = ph + 1
    /\ (p = "laid_out" => (gc # "open" /\ sm = "closed"))
    /\ (p = "resolved" => res # "open")
    /\ ph' = ph + 1
    /\ UNCHANGED <<gc, sm, smCount, res, resCount, faulted>>

GcBegin == faulted = "no" /\ InLayout /\ gc = "none" /\ gc' = "open" /\ UNCHANGED <<ph, sm, smCount, res, resCount, faulted>>
GcEnd == gc = "open" /\ gc' = "closed" /\ UNCHANGED <<ph, sm, smCount, res, resCount, faulted>>
SmBegin == faulted = "no" /\ InLayout /\ sm = "closed" /\ sm' = "open" /\ UNCHANGED <<ph, gc, smCount, res, resCount, faulted>>
SmEnd == sm = "open" /\ sm' = "closed" /\ smCount' = smCount + 1 /\ UNCHANGED <<ph, gc, res, resCount, faulted>>
ResBegin == faulted = "no" /\ InResolve /\ res # "open" /\ res' = "open" /\ UNCHANGED <<ph, gc, sm, smCount, resCount, faulted>>
ResEnd == res = "open" /\ res' = "closed" /\ resCount' = resCount + 1 /\ UNCHANGED <<ph, gc, sm, smCount, faulted>>
Fault(p, kind) == faulted = "no" /\ Idx(p) = ph /\ gc # "open" /\ sm = "closed" /\ res # "open"  \* scopes join their tasks before an error leaves them
                  /\ faulted' = (IF kind = "error" THEN "error" ELSE "dead")
                  /\ UNCHANGED <<ph, gc, sm, smCount, res, resCount>>

(* An Err from load_inputs_and_link does not stop link_for_arch: the inputs are still re-verified
   (an inputs-changed error takes precedence) before the error is returned, so the two points
   after the link proper are still reached, in order; nothing else is. *)
LinkError ==     \* any phase's code returns Err: scopes have joined their tasks; the link proper is over
    /\ faulted = "no" /\ ph < Idx("finished")
    /\ gc # "open" /\ sm = "closed" /\ res # "open"
    /\ faulted' = "silent"
    /\ UNCHANGED <<ph, gc, sm, smCount, res, resCount>>

ReachAfterError(p) ==
    /\ faulted \in {"error", "silent"}
    /\ p \in {"verified", "finished"}
    /\ ph < Idx(p) /\ (p = "finished" => ph >= Idx("verified") \/ ph < Idx("verified"))
    /\ ph' = Idx(p)
    /\ UNCHANGED <<gc, sm, smCount, res, resCount, faulted>>

WNext == (\E i \in 2..Len(Phases) : Reach(Phases[i]) \/ ReachAfterError(Phases[i])
                                     \/ \E k \in {"error", "panic"} : Fault(Phases[i], k))
         \/ GcBegin \/ GcEnd \/ SmBegin \/ SmEnd \/ ResBegin \/ ResEnd \/ LinkError

WSpec == WInit /\ [][WNext]_wvars

ScopesInsideLayout == (gc = "open" \/ sm = "open") => ph = Idx("resolved")
GcBeforeWrite == ph >= Idx("laid_out") => gc # "open"
ResInsideResolve == res = "open" => ph = Idx("symbols")
ResolvedBeforeLayout == (gc # "none" \/ sm = "open" \/ smCount > 0) => res # "open"
(* What a zero exit status of the process that ran (or waited for) this pipeline promises. *)
SuccessMeansFinished(rc) == rc = 0 => (faulted # "silent" /\ ph >= Idx("finished"))
SmBound == smCount <= 2 /\ resCount <= 2
WInv == ScopesInsideLayout /\ GcBeforeWrite /\ ResInsideResolve /\ ResolvedBeforeLayout
        /\ ph \in 1..Len(Phases) /\ smCount <= 3 /\ resCount <= 3
=============================================================================
