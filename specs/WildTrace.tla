------------------------------ MODULE WildTrace ------------------------------
(* Trace validation of the pipeline order: TRACE names the ndjson trace of ONE process of one link
   (all hook events; the events inside the protocol scopes are skipped here - they are validated by
   GcProtoTrace / StringMergeTrace).  Phase, scope-boundary and Fault events are bound to Wild's
   actions. *)
EXTENDS Wild, TLC, Json, IOUtils

Rec == ndJsonDeserialize(IOEnv.TRACE)
VARIABLE l
tvars == <<ph, gc, sm, smCount, res, resCount, faulted, l>>

Boundary == {"Phase", "ScopeBegin", "ScopeEnd", "SecBegin", "SecEnd", "ResBegin", "ResEnd", "Fault", "Exit"}
(* Containment: the events of a protocol are emitted by tasks of that protocol's scope, which joins them
   before its end event is emitted, and lines are written under one mutex - so in the file every such
   event lies between the scope's boundary events.  ("Take" is an event name of two protocols, told apart
   by its fields; "Load" also happens for the initial objects before the resolution scope opens and "Err"
   outside the traversal, so neither is constrained.) *)
GcEvents == {"ActBegin", "ActEnd", "DelayPush", "ActDec", "DelayPop", "Send", "SendLocal", "Item", "Fail",
             "SlotPark", "SlotSwap", "TaskStart"}
SmEvents == {"Reserve", "ReserveFail", "ReserveCasFail", "LoopExitEmpty", "SplitStart", "SplitGroup",
             "Unreserve", "BucketSpawn", "BucketStart", "Park", "ReturnVec", "Advance", "BucketDone"}
ResEvents == {"Peek", "Request"}
Contained(e) ==
    /\ e.ev \in GcEvents => gc = "open"
    /\ (e.ev \in SmEvents \/ (e.ev = "Take" /\ "b" \in DOMAIN e)) => sm = "open"
    /\ e.ev = "Swap" => \/ sm = "open"       \* create_split_resources parks the empty buckets of input group 0 before the scope opens
                         \/ (InLayout /\ e.g = 0 /\ e.prev = "E" /\ e.new = "W")
    /\ (e.ev \in ResEvents \/ (e.ev = "Take" /\ "won" \in DOMAIN e)) => res = "open"
Ev == Rec[l]
Step == l <= Len(Rec) /\ l' = l + 1

TInit == WInit /\ l = 1 /\ TLCSet(1, 1)
TSkip == Step /\ Ev.ev \notin Boundary /\ Contained(Ev) /\ UNCHANGED wvars
TPhase == Step /\ Ev.ev = "Phase" /\ IsPhase(Ev.name) /\ (Reach(Ev.name) \/ ReachAfterError(Ev.name))
(* an error of the link itself is not announced by any event: it is inferred (silent step composed with the
   next phase event, which can then only be `verified`) *)
TPhaseAfterLinkError ==
    /\ Step /\ Ev.ev = "Phase" /\ Ev.name = "verified"
    /\ faulted = "no" /\ ph < Idx("verified") /\ gc # "open" /\ sm = "closed" /\ res # "open"
    /\ faulted' = "silent" /\ ph' = Idx("verified")
    /\ UNCHANGED <<gc, sm, smCount, res, resCount>>
(* the harness appends the exit status it observed as a last pseudo-event *)
TExit == Step /\ Ev.ev = "Exit" /\ SuccessMeansFinished(Ev.rc) /\ UNCHANGED wvars
TGcBegin == Step /\ Ev.ev = "ScopeBegin" /\ GcBegin
TGcEnd == Step /\ Ev.ev = "ScopeEnd" /\ GcEnd
TSmBegin == Step /\ Ev.ev = "SecBegin" /\ SmBegin
TSmEnd == Step /\ Ev.ev = "SecEnd" /\ SmEnd
TResBegin == Step /\ Ev.ev = "ResBegin" /\ ResBegin
TResEnd == Step /\ Ev.ev = "ResEnd" /\ ResEnd
TFault == Step /\ Ev.ev = "Fault" /\ IsPhase(Ev.point) /\ Fault(Ev.point, Ev.kind)

TNext == TSkip \/ TPhase \/ TGcBegin \/ TGcEnd \/ TSmBegin \/ TSmEnd \/ TResBegin \/ TResEnd \/ TFault \/ TPhaseAfterLinkError \/ TExit
TSpec == TInit /\ [][TNext]_tvars
TInv == ScopesInsideLayout /\ GcBeforeWrite /\ ResInsideResolve /\ ResolvedBeforeLayout
TProgress == TLCSet(1, IF TLCGet(1) < l THEN l ELSE TLCGet(1))
TAccepted ==
    LET best == TLCGet(1) IN
    IF best = Len(Rec) + 1
    THEN PrintT(<<"TRACE-ACCEPTED", Len(Rec)>>)
    ELSE PrintT(<<"TRACE-UNMATCHED", best, Rec[best]>>) /\ FALSE
=============================================================================
