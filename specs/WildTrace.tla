------------------------------ MODULE WildTrace ------------------------------
(* Trace validation of the pipeline order: TRACE names the ndjson trace of ONE process of one link
   (all hook events; the events inside the protocol scopes are skipped here - they are validated by
   GcProtoTrace / StringMergeTrace).  Phase, scope-boundary and Fault events are bound to Wild's
   actions. *)
EXTENDS Wild, TLC, Json, IOUtils

Rec == ndJsonDeserialize(IOEnv.TRACE)
VARIABLE l
tvars == <<ph, gc, sm, smCount, faulted, l>>

Boundary == {"Phase", "ScopeBegin", "ScopeEnd", "SecBegin", "SecEnd", "Fault"}
Ev == Rec[l]
Step == l <= Len(Rec) /\ l' = l + 1

TInit == WInit /\ l = 1 /\ TLCSet(1, 1)
TSkip == Step /\ Ev.ev \notin Boundary /\ UNCHANGED wvars
TPhase == Step /\ Ev.ev = "Phase" /\ IsPhase(Ev.name) /\ (Reach(Ev.name) \/ ReachAfterError(Ev.name))
TGcBegin == Step /\ Ev.ev = "ScopeBegin" /\ GcBegin
TGcEnd == Step /\ Ev.ev = "ScopeEnd" /\ GcEnd
TSmBegin == Step /\ Ev.ev = "SecBegin" /\ SmBegin
TSmEnd == Step /\ Ev.ev = "SecEnd" /\ SmEnd
TFault == Step /\ Ev.ev = "Fault" /\ IsPhase(Ev.point) /\ Fault(Ev.point, Ev.kind)

TNext == TSkip \/ TPhase \/ TGcBegin \/ TGcEnd \/ TSmBegin \/ TSmEnd \/ TFault
TSpec == TInit /\ [][TNext]_tvars
TInv == ScopesInsideLayout /\ GcBeforeWrite
TProgress == TLCSet(1, IF TLCGet(1) < l THEN l ELSE TLCGet(1))
TAccepted ==
    LET best == TLCGet(1) IN
    IF best = Len(Rec) + 1
    THEN PrintT(<<"TRACE-ACCEPTED", Len(Rec)>>)
    ELSE PrintT(<<"TRACE-UNMATCHED", best, Rec[best]>>) /\ FALSE
=============================================================================
