------------------------------- MODULE Word64 -------------------------------
(***************************************************************************)
(* 64-bit machine words for TLC (whose integers are 32-bit): a word is a   *)
(* tuple of 8 bytes, little endian (index 1 = least significant byte).     *)
(* Everything a linker-script expression (Expr.tla) or an x86-64           *)
(* instruction effect (X86Relax.tla) needs: wrapping + - *, unsigned and   *)
(* signed (C, truncating) division and remainder, unsigned order, shifts,  *)
(* bitwise operations, sign / zero extension of the low 32 bits.           *)
(***************************************************************************)
EXTENDS Naturals, Sequences
LOCAL INSTANCE Bitwise

Byte == 0..255
Idx == 1..8
Word == [Idx -> Byte]

WZero == <<0, 0, 0, 0, 0, 0, 0, 0>>
WOne == <<1, 0, 0, 0, 0, 0, 0, 0>>
WAllOnes == <<255, 255, 255, 255, 255, 255, 255, 255>>
WBool(b) == IF b THEN WOne ELSE WZero

(* n < 2^31 *)
WFromNat(n) == <<n % 256, (n \div 256) % 256, (n \div 65536) % 256, (n \div 16777216) % 256, 0, 0, 0, 0>>
(* 2^k, k \in 0..63 *)
WPow2(k) == [i \in Idx |-> IF i = (k \div 8) + 1 THEN 2 ^ (k % 8) ELSE 0]

RECURSIVE AddFrom(_, _, _, _)
AddFrom(a, b, i, c) ==
  IF i > 8 THEN <<>>
  ELSE LET s == a[i] + b[i] + c IN <<s % 256>> \o AddFrom(a, b, i + 1, s \div 256)
WAddC(a, b, c) == AddFrom(a, b, 1, c)
WAdd(a, b) == WAddC(a, b, 0)
WNot(a) == [i \in Idx |-> 255 - a[i]]
WNeg(a) == WAddC(WNot(a), WZero, 1)
WSub(a, b) == WAddC(a, WNot(b), 1)

RECURSIVE ColSum(_, _, _, _)
ColSum(a, b, k, i) == IF i > k THEN 0 ELSE a[i] * b[k + 1 - i] + ColSum(a, b, k, i + 1)
RECURSIVE MulFrom(_, _, _, _)
MulFrom(a, b, k, c) ==
  IF k > 8 THEN <<>>
  ELSE LET s == ColSum(a, b, k, 1) + c IN <<s % 256>> \o MulFrom(a, b, k + 1, s \div 256)
WMul(a, b) == MulFrom(a, b, 1, 0)

(* unsigned order: 0 equal, 1 a<b, 2 a>b *)
RECURSIVE CmpFrom(_, _, _)
CmpFrom(a, b, i) ==
  IF i = 0 THEN 0 ELSE IF a[i] < b[i] THEN 1 ELSE IF a[i] > b[i] THEN 2 ELSE CmpFrom(a, b, i - 1)
WULt(a, b) == CmpFrom(a, b, 8) = 1
WULe(a, b) == CmpFrom(a, b, 8) # 2
WIsNeg(a) == a[8] >= 128
(* signed order *)
WSLt(a, b) == IF WIsNeg(a) # WIsNeg(b) THEN WIsNeg(a) ELSE WULt(a, b)

WAnd(a, b) == [i \in Idx |-> a[i] & b[i]]
WOr(a, b) == [i \in Idx |-> a[i] | b[i]]
WXor(a, b) == [i \in Idx |-> a[i] ^^ b[i]]

(* shifts by n \in 0..63 *)
WShl(a, n) ==
  LET sq == n \div 8
      sr == n % 8
  IN [i \in Idx |->
        IF i - sq < 1 THEN 0
        ELSE ((a[i - sq] * 2 ^ sr) % 256) + (IF i - sq - 1 < 1 THEN 0 ELSE a[i - sq - 1] \div 2 ^ (8 - sr))]
WShr(a, n) ==
  LET sq == n \div 8
      sr == n % 8
  IN [i \in Idx |->
        IF i + sq > 8 THEN 0
        ELSE (a[i + sq] \div 2 ^ sr) + (IF i + sq + 1 > 8 THEN 0 ELSE (a[i + sq + 1] * 2 ^ (8 - sr)) % 256)]
(* arithmetic shift right *)
WSar(a, n) == IF WIsNeg(a) /\ n > 0 THEN WOr(WShr(a, n), WShl(WAllOnes, 64 - n)) ELSE WShr(a, n)
(* the low 6 bits of a word: a shift count as the x86-64 hardware (and so GNU ld built for it) takes it *)
WLow6(a) == a[1] % 64

WBit(a, k) == (a[(k \div 8) + 1] \div 2 ^ (k % 8)) % 2
WSetBit(a, k) == [a EXCEPT ![(k \div 8) + 1] = @ + 2 ^ (k % 8)]

(* index of the highest non-zero byte, 0 for zero *)
RECURSIVE TopByte(_, _)
TopByte(a, i) == IF i = 0 THEN 0 ELSE IF a[i] # 0 THEN i ELSE TopByte(a, i - 1)

(* TLC evaluates operator arguments and LET definitions lazily; without forcing, the 64 steps of the
   division build a chain of suspended computations that overflows the Java stack. *)
Forced(x) == x = x
(* Restoring long division, one bit at a time. b # 0. Result <<quotient, remainder>>. *)
RECURSIVE UDivFrom(_, _, _, _, _)
UDivFrom(a, b, k, r, q) ==
  LET top == WIsNeg(r)
      r1 == WAddC(WShl(r, 1), WZero, WBit(a, k))
      ge == top \/ ~WULt(r1, b)
      r2 == IF ge THEN WSub(r1, b) ELSE r1
      q2 == IF ge THEN WSetBit(q, k) ELSE q
  IN IF Forced(r2) /\ Forced(q2) /\ k = 0 THEN <<q2, r2>> ELSE UDivFrom(a, b, k - 1, r2, q2)
(* number of significant bits *)
RECURSIVE BitLenByte(_)
BitLenByte(x) == IF x = 0 THEN 0 ELSE 1 + BitLenByte(x \div 2)
WBitLen(a) == LET t == TopByte(a, 8) IN IF t = 0 THEN 0 ELSE 8 * (t - 1) + BitLenByte(a[t])

(* Short division by a divisor d < 2^23 held in an integer, one byte at a time from the top. *)
RECURSIVE ShortDivFrom(_, _, _, _)
ShortDivFrom(a, d, i, r) ==
  IF i = 0 THEN <<<<>>, r>>
  ELSE LET cur == r * 256 + a[i]
           rest == ShortDivFrom(a, d, i - 1, cur % d)
       IN <<Append(rest[1], cur \div d), rest[2]>>
WIsShort(b) == b[3] < 128 /\ b[4] = 0 /\ b[5] = 0 /\ b[6] = 0 /\ b[7] = 0 /\ b[8] = 0
WShortVal(b) == b[1] + 256 * b[2] + 65536 * b[3]

(* Unsigned division, b # 0: <<quotient, remainder>>.  Small divisors: short division.  Otherwise the
   leading BitLen(b)-1 bits of a cannot produce a quotient bit and are loaded into the remainder at
   once; the long division runs over the remaining BitLen(a)-BitLen(b)+1 bits. *)
WUDivMod(a, b) ==
  IF WIsShort(b) THEN
    LET sd == ShortDivFrom(a, WShortVal(b), 8, 0) IN <<sd[1], WFromNat(sd[2])>>
  ELSE IF WULt(a, b) THEN <<WZero, a>>
  ELSE LET sh == WBitLen(a) - WBitLen(b) IN UDivFrom(a, b, sh, WShr(a, sh + 1), WZero)
WUDiv(a, b) == WUDivMod(a, b)[1]
WUMod(a, b) == WUDivMod(a, b)[2]

WMinSigned == <<0, 0, 0, 0, 0, 0, 0, 128>>
(* C signed division truncates toward zero; the remainder has the sign of the dividend.
   b # 0 and not (a = MinSigned /\ b = -1) (undefined in C, a trap on x86-64). *)
WAbs(a) == IF WIsNeg(a) THEN WNeg(a) ELSE a
WSDiv(a, b) ==
  LET q == WUDiv(WAbs(a), WAbs(b)) IN IF WIsNeg(a) # WIsNeg(b) THEN WNeg(q) ELSE q
WSMod(a, b) ==
  LET r == WUMod(WAbs(a), WAbs(b)) IN IF WIsNeg(a) THEN WNeg(r) ELSE r

(* low 32 bits zero- / sign-extended to 64 *)
WZext32(a) == <<a[1], a[2], a[3], a[4], 0, 0, 0, 0>>
WSext32(a) == IF a[4] >= 128 THEN <<a[1], a[2], a[3], a[4], 255, 255, 255, 255>> ELSE WZext32(a)
WFitsU32(a) == a[5] = 0 /\ a[6] = 0 /\ a[7] = 0 /\ a[8] = 0
WFitsS32(a) == WSext32(a) = a

(* Algebraic self-test of the representation over a set of words (used in ASSUMEs). *)
WSelfTest(S) ==
  /\ \A a \in S : /\ WAdd(a, WNeg(a)) = WZero
                  /\ WSub(WZero, a) = WNeg(a)
                  /\ WMul(a, WOne) = a
                  /\ WNot(WNot(a)) = a
                  /\ WShl(a, 0) = a /\ WShr(a, 0) = a
                  /\ WShl(a, 1) = WAdd(a, a)
                  /\ WShr(WShl(WShr(a, 7), 7), 0) = WAnd(a, WNot(WFromNat(127)))
                  /\ WXor(a, a) = WZero /\ WOr(a, a) = a /\ WAnd(a, WAllOnes) = a
  /\ \A a, b \in S :
       /\ WAdd(a, b) = WAdd(b, a)
       /\ WMul(a, b) = WMul(b, a)
       /\ WSub(WAdd(a, b), b) = a
       /\ WMul(a, WNeg(b)) = WNeg(WMul(a, b))
       /\ (WULt(a, b) \/ WULt(b, a) \/ a = b)
       /\ ~(WULt(a, b) /\ WULt(b, a))
       /\ b # WZero =>
            LET qr == WUDivMod(a, b) IN
              /\ WAdd(WMul(qr[1], b), qr[2]) = a
              /\ WULt(qr[2], b)
       /\ (b # WZero /\ ~(a = WMinSigned /\ b = WAllOnes)) =>
            /\ WAdd(WMul(WSDiv(a, b), b), WSMod(a, b)) = a
            /\ WULt(WAbs(WSMod(a, b)), WAbs(b))
            /\ (WSMod(a, b) = WZero \/ WIsNeg(WSMod(a, b)) = WIsNeg(a))
=============================================================================
