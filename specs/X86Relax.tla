------------------------------ MODULE X86Relax ------------------------------
(***************************************************************************)
(* C14: x86-64 GOT relaxations preserve instruction semantics.             *)
(*                                                                         *)
(* An instruction FORM is `op sym@GOTPCREL(%rip), %reg` (64- or 32-bit     *)
(* operand size), `call *sym@GOTPCREL(%rip)` or `jmp *sym@GOTPCREL(%rip)`. *)
(* Effect(f, S): the destination register after the ORIGINAL instruction   *)
(* executed with the register holding Reg0, CF = 1, and the GOT slot       *)
(* holding S (for call/jmp: the address control is transferred to).        *)
(* A REWRITE replaces the memory operand by an immediate or a pc-relative  *)
(* address; After(rw, f, S, bias) is the register after the rewritten      *)
(* instruction, where bias is the load bias of the image (0 for a          *)
(* position-dependent executable).  A rewrite is SAFE for (f, S) iff the   *)
(* link either refuses it or After = Effect.                               *)
(* PsABI: the side conditions under which the psABI / GNU ld apply each    *)
(* rewrite; TLC checks that they imply safety (SafeTable).                 *)
(* Wild: a transcription of ElfX86_64::new_relaxation + RelaxationKind::   *)
(* apply of the pinned tree (which rewrite, which relocation type checks   *)
(* the value); TLC reports where it is not safe - those cases are          *)
(* predictions, the verdict comes from executing the linked program.       *)
(***************************************************************************)
EXTENDS Naturals, Sequences, FiniteSets, Word64

Ops == {"mov", "add", "sub", "and", "or", "xor", "cmp", "test", "adc", "sbb"}
Forms == {[op |-> o, w |-> w] : o \in Ops, w \in {32, 64}} \cup {[op |-> "call", w |-> 64], [op |-> "jmp", w |-> 64]}
(* relocation the assembler emits for the form: "x" = R_X86_64_GOTPCRELX / REX_GOTPCRELX
   (-mrelax-relocations=yes), "plain" = R_X86_64_GOTPCREL (old assemblers) *)
RelocStyles == {"x", "plain"}

Reg0 == <<239, 205, 171, 137, 103, 69, 35, 1>>      \* 0x0123456789abcdef
CarryIn == 1

Trunc(w, x) == IF w = 64 THEN x ELSE WZext32(x)
Alu(op, a, b) ==
  CASE op = "mov" -> b
    [] op = "add" -> WAdd(a, b)
    [] op = "adc" -> WAddC(a, b, CarryIn)
    [] op = "sub" -> WSub(a, b)
    [] op = "sbb" -> WSub(WSub(a, b), WFromNat(CarryIn))
    [] op = "and" -> WAnd(a, b)
    [] op = "or" -> WOr(a, b)
    [] op = "xor" -> WXor(a, b)
    [] op \in {"cmp", "test"} -> a
(* a 32-bit operation zero-extends its result into the 64-bit register; cmp/test write nothing *)
Exec(f, operand) ==
  IF f.op \in {"call", "jmp"} THEN operand
  ELSE IF f.op \in {"cmp", "test"} THEN Reg0
  ELSE Trunc(f.w, Alu(f.op, Reg0, operand))

Effect(f, S) == Exec(f, S)

(* ---- rewrites ------------------------------------------------------------ *)
(* "imm32sx": REX.W instruction with a sign-extended 32-bit immediate (mov $imm32,%r64 = C7 /0; 81 /r)
   "imm32":   32-bit instruction with a 32-bit immediate
   "pcrel":   lea sym(%rip),%reg / call sym / jmp sym (pc-relative, so the value seen is S + bias)
   "none":    instruction left alone *)
Rewrites == {"imm32sx", "imm32", "pcrel", "none"}
After(rw, f, S, bias) ==
  CASE rw = "none" -> Effect(f, S)
    [] rw = "imm32sx" -> Exec(f, WSext32(S))
    [] rw = "imm32" -> Exec(f, WZext32(S))
    [] rw = "pcrel" -> Exec(f, WAdd(S, bias))
(* does the link accept the rewritten instruction's relocation for this value?
   chk: "u32" (R_X86_64_32), "s32" (R_X86_64_32S), "pc32" (R_X86_64_PC32/PLT32: S within 2 GiB of the
   place; with the images of this model - code below 2^31 - that is S < 2^31 or S a negative 32-bit value
   is NOT reachable), "-" no check *)
Accepts(chk, S) ==
  CASE chk = "u32" -> WFitsU32(S)
    [] chk = "s32" -> WFitsS32(S)
    [] chk = "pc32" -> WFitsU32(S) /\ S[4] < 128
    [] chk = "-" -> TRUE
Safe(rw, chk, f, S, bias) == Accepts(chk, S) => After(rw, f, S, bias) = Effect(f, S)

(* ---- symbol kinds and outputs --------------------------------------------- *)
(* abs: absolute symbol (--defsym or .set); addr: ordinary definition (local, hidden, default) in the
   image; weak0: undefined weak (GOT slot holds 0) *)
SymKinds == {"abs", "addr", "weak0"}
Outs == {"exe", "pie"}
NoBias == WZero

(* ---- the psABI / GNU ld side conditions ----------------------------------- *)
(* Returns <<rewrite, check>>.  GNU ld: mov -> mov $imm (R_X86_64_32S for REX.W, R_X86_64_32 otherwise)
   only for non-pc-relative-able symbols and only if the value fits; mov -> lea and call/jmp -> direct
   only for symbols defined in the image (never absolute ones in PIC); binops -> immediate forms. *)
PsABI(f, style, kind, out, S) ==
  IF style = "plain" /\ f.op # "mov" THEN <<"none", "-">>
  ELSE IF f.op \in {"call", "jmp"} THEN
    (IF kind = "addr" \/ (kind = "abs" /\ out = "exe" /\ Accepts("pc32", S)) THEN <<"pcrel", "pc32">> ELSE <<"none", "-">>)
  ELSE IF f.op = "mov" /\ kind = "addr" THEN <<"pcrel", "pc32">>
  ELSE IF kind = "addr" /\ out = "pie" THEN <<"none", "-">>
  ELSE IF style = "plain" THEN <<"none", "-">>
  ELSE IF f.op \in {"mov", "add", "sub", "and", "or", "xor", "cmp", "test", "adc", "sbb"} THEN
    (IF f.w = 64 THEN (IF WFitsS32(S) THEN <<"imm32sx", "s32">> ELSE <<"none", "-">>)
     ELSE (IF WFitsU32(S) \/ WFitsS32(S) THEN <<"imm32", "-">> ELSE <<"none", "-">>))
  ELSE <<"none", "-">>

(* ---- wild (pinned tree): ElfX86_64::new_relaxation ------------------------- *)
(* reg: 0..15.  REX prefix of the original instruction: 64-bit forms 0x48 / 0x4c; 32-bit forms none
   (reg < 8, relocation GOTPCRELX) or 0x44 (reg >= 8, relocation REX_GOTPCRELX, which wild only
   relaxes for REX.W prefixes). *)
Wild(f, style, reg, kind, out) ==
  LET isAbs == kind \in {"abs", "weak0"}
      absAddr == kind = "addr" /\ out = "exe"
  IN IF style = "plain" THEN (IF f.op = "mov" THEN <<"pcrel", "pc32">> ELSE <<"none", "-">>)
     ELSE IF f.op \in {"call", "jmp"} THEN <<"pcrel", "pc32">>
     ELSE IF f.w = 64 THEN
       (IF isAbs \/ absAddr THEN (IF f.op \in {"mov", "sub", "cmp"} THEN <<"imm32sx", "u32">> ELSE <<"none", "-">>)
        ELSE (IF f.op = "mov" THEN <<"pcrel", "pc32">> ELSE <<"none", "-">>))
     ELSE IF reg >= 8 THEN <<"none", "-">>
     ELSE IF f.op = "mov" THEN (IF isAbs \/ absAddr THEN <<"imm32", "u32">> ELSE <<"pcrel", "pc32">>)
     ELSE <<"none", "-">>

(* the load bias that matters: an absolute symbol reached pc-relatively in a PIE moves with the image *)
BiasFor(kind, out, bias) == IF kind \in {"abs", "weak0"} /\ out = "pie" THEN bias ELSE NoBias

(* ---- TLS: general-dynamic / local-dynamic / initial-exec / descriptor -> local-exec ---------- *)
(* tp: the thread pointer; off: the variable's offset from it (negative on x86-64, a 64-bit word).
   Every original sequence delivers tp + off: GD/LD through __tls_get_addr, IE through the GOT slot
   holding off (R_X86_64_TPOFF64), TLSDESC through the descriptor's resolver.  The local-exec rewrites
   are `mov %fs:0,%rax; lea off32(%rax),%rax`, `mov $off32,%reg` and `add $off32,%reg` - all with a
   SIGN-extended 32-bit field (R_X86_64_TPOFF32, checked signed). *)
TlsForms == {"gd", "ld", "ie-mov", "ie-add", "desc"}
TlsEffect(form, tp, off) == WAdd(tp, off)
TlsAfter(form, tp, off) == WAdd(tp, WSext32(off))
TlsSafe(form, tp, off) == WFitsS32(off) => TlsAfter(form, tp, off) = TlsEffect(form, tp, off)
=============================================================================
