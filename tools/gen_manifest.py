#!/usr/bin/env python3
"""Regenerate MANIFEST.json from the META dict of every ready check module and tools/not_applicable.json."""
import importlib
import json
import subprocess
import sys
from pathlib import Path

V = Path(__file__).resolve().parents[1]
sys.path.insert(0, str(V / "harness" / "py"))

checks = []
claimed = set()
for f in sorted((V / "harness/py/checks").glob("c[0-9]*.py")):
    mod = importlib.import_module(f"checks.{f.stem}")
    m = getattr(mod, "META", None)
    if not m or not m.get("ready"):
        continue
    pid = f.stem.upper()
    claimed.add(pid)
    c = {
        "property_id": pid,
        "quick_cmd": f"./check {pid} quick",
        "thorough_cmd": f"./check {pid} thorough",
        "evidence_file": f"/verif/evidence/{pid}.json",
        "replay_cmd_template": f"./check {pid} --replay {{path}}",
        "engine": m.get("engine", "tlc"),
        "level_claimed": {"category": m["level"], "text": m["level_text"], "design_ref": m.get("design_ref", f"DESIGN.md section 6, {pid}")},
        "level_note": m["level_note"],
        "technique": m["technique"],
    }
    checks.append(c)

na_file = V / "tools/not_applicable.json"
na = json.loads(na_file.read_text()) if na_file.exists() else {}
all_ids = [json.loads(l)["id"] for l in (V / "properties.jsonl").read_text().splitlines() if l.strip()]
not_applicable = []
for pid in all_ids:
    if pid in claimed:
        continue
    not_applicable.append({"property_id": pid, "reason": na.get(pid, "check not built yet in this round; see DESIGN.md section 6 for the planned procedure")})

def repo_hook_commits():
    try:
        out = subprocess.run(["git", "-C", "/repo", "log", "--format=%H %s"], capture_output=True, text=True).stdout
        return [l.split()[0] for l in out.splitlines() if "verif hooks" in l]
    except Exception:
        return []

manifest = {
    "version": 1,
    "setup_cmd": "./tools/setup.sh",
    "hooks": {
        "guard": "wild_verif",
        "enable": "RUSTFLAGS='--cfg wild_verif' CARGO_TARGET_DIR=/verif/.cache/target cargo build --offline -p wild-linker (done by ./check; hooks are inert unless a WILD_VERIF_* environment variable is set)",
        "baseline_off_cmd": "cd /repo && cargo nextest run --workspace --no-fail-fast --test-threads 8 --offline",
        "source_commits": list(reversed(repo_hook_commits())),
        "add_only": True,
    },
    "engines": [
        {"name": "tlc", "path": "/verif/specs", "kind_free_text": "TLA+ specifications checked with TLC 1.8 (exhaustive configs under specs/mc, trace specs *Trace.tla)",
         "serves_properties": sorted(claimed)},
        {"name": "harness", "path": "/verif/harness/py", "kind_free_text": "python drivers: scenario generators, ELF observer, TLC runner, trace validation, fault driver; Rust crate harness/wildconf for in-process replay of TLC-enumerated cases",
         "serves_properties": sorted(claimed)},
    ],
    "checks": checks,
    "notes": "Single entry point ./check <ID> quick|thorough. Exit 0 held / 1 VIOLATION line / 2 tool error. Known findings: KNOWN_FINDINGS.txt. See DESIGN.md.",
    "not_applicable": not_applicable,
}
(V / "MANIFEST.json").write_text(json.dumps(manifest, indent=1) + "\n")
print(f"{len(checks)} checks, {len(not_applicable)} not claimed")
