#!/bin/bash
# Run every registered quick check once, sequentially; print id, exit status, wall seconds.
cd "$(dirname "$0")/.."
tier=${1:-quick}
for id in $(python3 -c "import json; print(' '.join(c['property_id'] for c in json.load(open('MANIFEST.json'))['checks']))"); do
  t0=$(date +%s)
  ./check $id $tier > .cache/runall.$id.log 2>&1
  rc=$?
  t1=$(date +%s)
  echo "$id rc=$rc wall=$((t1-t0))s viol=$(grep -c '^VIOLATION' .cache/runall.$id.log) known=$(grep -c '^KNOWN-FINDING' .cache/runall.$id.log)"
done
