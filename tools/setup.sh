#!/bin/sh
# Build everything the checks need, offline, from files on disk only.
set -e
cd "$(dirname "$0")/.."
exec python3 harness/py/setup.py
